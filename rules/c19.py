"""C19 — RSU vest lookup: nearest vest date within seven days back, never a guess (structural clauses)."""
from mir import Terms, parse_callee, show, op_place, op_const, place_proj, subterms
from flow import root_of_operand
import panics as P

META = {
    "explanation": (
        "The lookup function is found structurally (converter method returning Result<AwardLookup, _>) and analysed as a region "
        "(the method, its helpers and closures; look-back spelled as a loop over a constant range or as <range>.find_map). R1: the exact key "
        "(upper-cased symbol, deposit date) is probed first and dominates the look-back loop; the loop iterates a range whose "
        "evaluated constants are exactly 1..=7, forwards (nearest first), probing `deposit − k` via checked_sub_signed of "
        "TimeDelta::days(k) (never an addition), and returns from inside the loop on the first hit with the probed date as "
        "vest date; the fall-through is Err(MissingFairMarketValue) built from the queried symbol and date; no lookup result is "
        "defaulted (unwrap_or*/map_or). Stored and queried symbols are both rooted at to_uppercase. R2: when the awards map is "
        "built, the vest-specific price is tested before the fallback price and carries the vest date (falling back to the "
        "parent date), the fallback entry is inserted only when no vest entry was, and a vesting action with empty details is "
        "an error. R3: the RSU arm of the row loop returns MissingFairMarketValue when no awards file is present and takes "
        "date and price from the lookup (shared with C18-R2). Does not decide which entry wins for concrete dates. R3 also: the construction of the RSU purchase row that is reachable from the lookup within one row's iteration is dominated by that lookup (no second way to it with a value kept from an earlier row). R4: every action name listed in a string classifier of the awards module reaches the arm it is listed under — the vesting / non-vesting sets the code lists are the sets it acts on."),
    "trusted_base": ["chrono checked_sub_signed / TimeDelta::days semantics", "HashMap::get returns the stored entry for an equal key"],
}

DEFAULTING = ("unwrap_or", "unwrap_or_default", "unwrap_or_else", "map_or", "map_or_else", "or", "or_else")


def find_lookup(F):
    return [b for b in F.bodies.values() if b.crate == "cgt_converter" and b.kind == "method" and "AwardLookup" in b.ret
            and "Result" in b.ret and P.user_written(F, b)]


def _range_consts(t):
    for x in subterms(t):
        if isinstance(x, tuple) and x and x[0] == "call" and "RangeInclusive" in x[1] and parse_callee(x[1])[2] == "new":
            a, c = x[2]
            if a[0] == "int" and c[0] == "int":
                return ("incl", a[1], c[1], x)
        if isinstance(x, tuple) and x and x[0] == "agg" and x[1].endswith("ops::range::Range"):
            fs = dict(x[3])
            if fs.get("start", ("",))[0] == "int" and fs.get("end", ("",))[0] == "int":
                return ("excl", fs["start"][1], fs["end"][1] - 1, x)
    return None


_ORDER_CHANGING = ("rev", "next_back", "step_by", "skip", "take", "rfind", "rposition", "last", "max", "min", "max_by_key", "min_by_key")


def lookup_shape(F, rep):
    """The lookup is analysed as a REGION: the method, the helpers it delegates to and its closures, every term converted
    to the method's own parameters. Two spellings of the look-back are recognised: a loop over a constant range, and
    `<constant range>.find_map(closure)` (first hit wins by definition of find_map)."""
    from rules.c08 import _R
    ls = find_lookup(F)
    if len(ls) != 1:
        rep.unresolved("R1", "LOOKUP", f"{len(ls)} converter methods return Result<AwardLookup, _>")
        return
    b = ls[0]
    rg = _R(F).region(b, depth=2)
    tb = Terms(F, b, inline_depth=0)
    site = b.loc()
    is_map_get = lambda cal: parse_callee(cal)[2] == "get" and ("HashMap" in cal or "BTreeMap" in cal)
    gets = [it for it in rg.items if is_map_get(it["term"]["callee"])]
    # ---- the look-back construct
    loops = b.loops()
    fms = [it for it in rg.items if it["body"] is b and parse_callee(it["term"]["callee"])[2] == "find_map"
           and _range_consts(tb.operand(it["term"]["args"][0])) is not None]
    form = None
    if len(loops) == 1 and not fms:
        header, blks = loops[0]
        form = "loop"
        anchor = header
        in_window = lambda ex_or_it, bb=None: (ex_or_it["root_bb"] if ex_or_it.get("root_bb") is not None else bb) in blks
        has_loop_var = lambda t: any(isinstance(x, tuple) and x and x[0] == "call" and parse_callee(x[1])[2] == "next" for x in subterms(t))
    elif len(fms) == 1 and not loops:
        fm = fms[0]
        form = "find_map"
        anchor = fm["bb"]
        clo = tb.operand(fm["term"]["args"][1])
        cid = clo[1] if isinstance(clo, tuple) and clo and clo[0] == "closure" else None
        in_window = lambda ex_or_it, bb=None: cid in ex_or_it["path"]
        has_loop_var = lambda t: any(isinstance(x, tuple) and x and x[0] == "cparam" and x[1] == cid and x[2] == 1 for x in subterms(t))
    else:
        rep.ob("R1", "get_fmv:one-loop", False, f"{len(loops)} loops and {len(fms)} find_map over a constant range in the lookup "
               "(expected a single look-back: one loop or one find_map)", site, key="R1:lookup:loops")
        return
    rep.note(f"R1: look-back spelled as {form}; region = {sorted(x.short for x in rg.bodies.values())}")
    key_of = lambda it: rg.arg(it, 1)
    pre = [it for it in gets if not in_window(it, it["bb"])]
    inl = [it for it in gets if in_window(it, it["bb"])]
    # ---- exact first
    ok = False
    why = "no map probe before the look-back"
    date_param = None
    for it in pre:
        key = key_of(it)
        if isinstance(key, tuple) and key and key[0] == "tuple" and len(key[1]) == 2:
            sym, dt = key[1]
            if isinstance(dt, tuple) and dt and dt[0] == "param":
                date_param = dt
                ok = b.dominates(it["root_bb"], anchor)
                why = "the exact (symbol, deposit date) key is probed before the look-back" if ok else "exact probe does not dominate the look-back"
    rep.ob("R1", "lookup:exact-first", ok, why, site, key="R1:lookup:exact-first")
    probe = None
    for it in inl:
        key = key_of(it)
        if isinstance(key, tuple) and key and key[0] == "tuple" and len(key[1]) == 2:
            probe = key[1][1]

    def from_get(t):
        if any(isinstance(x, tuple) and x and x[0] == "call" and is_map_get(x[1]) for x in subterms(t)):
            return True
        # the parameter of a closure applied to the probe's result (`get(..).map(|fmv| ..)`)
        for x in subterms(t):
            if isinstance(x, tuple) and x and x[0] == "cparam":
                for it in rg.items:
                    args = [it["tb"].operand(a) for a in it["term"]["args"]]
                    if any(isinstance(a, tuple) and a and a[0] == "closure" and a[1] == x[1] for a in args[1:]) and \
                            parse_callee(it["term"]["callee"])[2] in ("map", "and_then", "filter_map") and \
                            any(isinstance(y, tuple) and y and y[0] == "call" and is_map_get(y[1]) for y in subterms(args[0])):
                        return True
        return False
    # ---- hits: vest date and price
    nagg = 0
    for ex in rg.expansions:
        hb, ht, conv = ex["body"], ex["tb"], ex["conv"]
        for i, si, s in hb.assigns():
            rv = s["rv"]
            if rv["k"] == "agg" and rv["adt"].endswith("::AwardLookup"):
                nagg += 1
                f = dict(zip(rv["fields"], [conv(ht.operand(o)) for o in rv["ops"]]))
                if hb is b:
                    win = in_window(dict(root_bb=i, path=ex["path"]), i) if form == "loop" else False
                    if form == "loop":
                        win = any(b.dominates(g["root_bb"], i) for g in inl)
                else:
                    win = in_window(ex, i)
                vd, fmv = f.get("vest_date"), f.get("fmv")
                okf = from_get(fmv)
                rep.ob("R1", f"lookup:{'window' if win else 'exact'}:fmv-from-map", okf,
                       "price comes from the map entry that was found" if okf else f"price is {show(fmv)[:60]}, not the probed map entry",
                       hb.loc(s["sp"]), key=f"R1:lookup:{'window' if win else 'exact'}:fmv")
                if not win:
                    okv = vd == date_param
                    rep.ob("R1", "lookup:exact:vest-date", okv, "exact hit is dated at the deposit date" if okv else
                           f"exact hit is dated {show(vd)[:50]}", hb.loc(s["sp"]), key="R1:lookup:exact:vest-date")
                else:
                    okv = probe is not None and vd == probe
                    rep.ob("R1", "lookup:window:vest-date", okv, "a look-back hit is dated at the probed (earlier) date" if okv else
                           f"look-back hit is dated {show(vd)[:60]} but the probe used {show(probe)[:60]}", hb.loc(s["sp"]),
                           key="R1:lookup:window:vest-date")
    if nagg < 2:
        rep.unresolved("R1", "hits", f"{nagg} AwardLookup constructions seen through the region (exact and look-back expected)")
    # ---- range and direction
    rng = None
    rev = False
    if form == "loop":
        for it in rg.items:
            if it["body"] is b and it["bb"] in blks and parse_callee(it["term"]["callee"])[2] == "next":
                recv = tb.operand(it["term"]["args"][0])
                rng = _range_consts(recv) or rng
                rev = rev or any(isinstance(x, tuple) and x and x[0] == "call" and parse_callee(x[1])[2] in _ORDER_CHANGING for x in subterms(recv))
                aty = (it["term"].get("aty") or [""])[0]
                if "Rev<" in aty or "StepBy" in aty:
                    rev = True
    else:
        recv = tb.operand(fm["term"]["args"][0])
        rng = _range_consts(recv)
        aty = (fm["term"].get("aty") or [""])[0]
        rev = any(isinstance(x, tuple) and x and x[0] == "call" and parse_callee(x[1])[2] in _ORDER_CHANGING for x in subterms(recv)) \
            or "Rev<" in aty or "StepBy" in aty
    okr = rng is not None and (rng[1], rng[2]) == (1, 7)
    rep.ob("R1", "lookup:window-1..=7", okr, "look-back range evaluates to 1..=7 days" if okr else
           f"look-back range is {('%d..=%d' % (rng[1], rng[2])) if rng else 'not a constant range'}, the property states 1 to 7 days",
           site, key="R1:lookup:window-range")
    rep.ob("R1", "lookup:nearest-first", not rev, "the range is walked forwards (nearest earlier date first)" if not rev else
           "the look-back range is reversed/stepped: a farther vest date can win over a nearer one", site, key="R1:lookup:direction")
    # ---- probe date = deposit − days(k)
    okp = False
    whyp = "no date arithmetic found in the look-back"
    for it in rg.items:
        m = parse_callee(it["term"]["callee"])[2]
        if m not in ("checked_sub_signed", "checked_add_signed", "checked_sub_days", "checked_add_days", "sub", "add", "pred_opt", "succ_opt"):
            continue
        if "chrono" not in it["term"]["callee"] and "NaiveDate" not in " ".join(it["term"].get("aty") or []):
            continue
        if not in_window(it, it["bb"]):
            continue
        args = [rg.arg(it, k) for k in range(len(it["term"]["args"]))]
        if "add" in m or "succ" in m:
            whyp = f"the probe date is computed with {m}: dates AFTER the deposit would be used"
            okp = False
            break
        if m.startswith("checked_sub") and args and args[0] == date_param:
            k = args[1]
            days = any(isinstance(x, tuple) and x and x[0] == "call" and parse_callee(x[1])[2] == "days" for x in subterms(k))
            okp = has_loop_var(k) and days
            whyp = "probe date is deposit − days(k) for the look-back variable k" if okp else f"probe offset is {show(k)[:60]}"
    rep.ob("R1", "lookup:probe=deposit−k", okp, whyp, site, key="R1:lookup:probe-date")
    # ---- first hit wins
    if form == "loop":
        rets_in_loop = False
        for i, si, s in b.assigns():
            rv = s["rv"]
            if rv["k"] == "agg" and rv["adt"] == "core::result::Result" and rv["variant"] == "Ok" and (i in blks or any(p in blks for p in b.pred(i))):
                if header not in b.reach_from(i):
                    rets_in_loop = True
    else:
        rets_in_loop = True   # Iterator::find_map stops at the first Some
    rep.ob("R1", "lookup:first-hit-returns", rets_in_loop, "the first hit ends the look-back" if rets_in_loop else
           "a hit inside the look-back loop does not return immediately: a later (farther) date can overwrite it", site,
           key="R1:lookup:first-hit")
    # ---- symbols upper-cased on both sides
    for it in gets:
        key = key_of(it)
        sym = key[1][0] if isinstance(key, tuple) and key and key[0] == "tuple" else None
        up = sym is not None and any(isinstance(x, tuple) and x and x[0] == "call" and parse_callee(x[1])[2] in ("to_uppercase", "to_ascii_uppercase") for x in subterms(sym))
        rep.ob("R1", f"lookup:query-symbol-uppercase@{'loop' if in_window(it, it['bb']) else 'exact'}", up,
               "queried symbol is upper-cased" if up else f"queried symbol is {show(sym)[:40]} (not upper-cased)", it["body"].loc(it["term"]["sp"]),
               key="R1:lookup:query-symbol-case")
    # ---- fall-through error, no defaults
    errs = []
    seen_err = set()
    for ex in rg.expansions:
        hb, ht, conv = ex["body"], ex["tb"], ex["conv"]
        for i, si, s in hb.assigns():
            rv = s["rv"]
            if rv["k"] == "agg" and rv["adt"].endswith("::ConvertError") and (hb.id, i, si) not in seen_err:
                seen_err.add((hb.id, i, si))
                errs.append((rv["variant"], [conv(ht.operand(o)) for o in rv["ops"]], s))
    okE = len(errs) == 1 and errs[0][0] == "MissingFairMarketValue"
    if okE:
        txt = " ".join(show(x) for x in errs[0][1])
        okE = "symbol" in txt and "date" in txt
    rep.ob("R1", "lookup:fallthrough-error", okE, "no hit ends in Err(MissingFairMarketValue{symbol, date})" if okE else
           f"fall-through is {[e[0] for e in errs]} — must be MissingFairMarketValue naming symbol and date", site, key="R1:lookup:fallthrough")
    dfl = sorted({it["term"]["callee"] for it in rg.items if parse_callee(it["term"]["callee"])[2] in DEFAULTING})
    rep.ob("R1", "lookup:no-default", not dfl, "no lookup result is defaulted" if not dfl else f"lookup defaults a missing value via {dfl}",
           site, key="R1:lookup:defaulting")


def map_building(F, rep):
    # the function inserting into the (symbol, date) -> price map
    from rules.c08 import _R
    is_ins = lambda cal: parse_callee(cal)[2] == "insert" and ("HashMap" in cal or "BTreeMap" in cal)
    bs = []
    root = None
    for rb in F.bodies.values():
        if rb.crate == "cgt_converter" and P.user_written(F, rb) and "AwardsData" in rb.ret and rb.kind == "fn":
            rg0 = _R(F).region(rb, depth=2)
            holders = {}
            for it in rg0.items:
                if is_ins(it["term"]["callee"]):
                    holders.setdefault(it["body"].id, it["body"])
            if holders:
                root = rb
                # the inserts live in the builder itself or in one per-entry helper of it
                for hb in holders.values():
                    bs.append((hb, [(i, t) for i, t in hb.calls() if is_ins(t["callee"])]))
    if len(bs) != 1:
        rep.unresolved("R2", "MAPBUILD", f"{len(bs)} functions build the awards map")
        return
    b, ins = bs[0]
    tb = Terms(F, b, inline_depth=0)
    for i, t in ins:
        key = tb.operand(t["args"][1])
        sym = key[1][0] if isinstance(key, tuple) and key and key[0] == "tuple" else None
        up = sym is not None and any(isinstance(x, tuple) and x and x[0] == "call" and parse_callee(x[1])[2] in ("to_uppercase", "to_ascii_uppercase") for x in subterms(sym))
        rep.ob("R2", f"build:stored-symbol-uppercase@{b.loc(t['sp']).rsplit(':', 2)[-2]}", up,
               "stored symbol is upper-cased" if up else f"stored symbol is {show(sym)[:40]}", b.loc(t["sp"]), key="R2:build:stored-symbol-case")
    # fallback insert only if no vest entry was inserted: one insert is edge-dominated by a test of a bool flag
    # that is set to true right after another insert
    guarded = 0
    flags = set()
    for i, t in ins:
        after = {x for x in b.reach_from(t["target"]) if b.dominates(t["target"], x)} if t.get("target") is not None else set()
        for bi, si, st in b.assigns():
            if bi in after and not place_proj(st["lhs"]) and b.local_ty(st["lhs"]["l"]) == "bool" and st["rv"]["k"] == "use":
                k = op_const(st["rv"]["op"])
                if k is not None and (k.get("int") == "1" or k.get("disp") == "true"):
                    flags.add(st["lhs"]["l"])
    for i, t in ins:
        for s in b.reachable():
            sw = b.term(s)
            if sw["k"] != "switch" or sw.get("dty") != "bool":
                continue
            p = op_place(sw["discr"])
            src = P.named_root(b, sw["discr"]) if p is not None else None
            if src is None:
                # `!flag`
                d = b.defs().get(p["l"], []) if p else []
                if len(d) == 1 and d[0][0] == "assign" and d[0][3]["rv"]["k"] == "un":
                    src = P.named_root(b, d[0][3]["rv"]["a"])
            if src in flags:
                for tgt in b.succ(s):
                    if b.edge_dominates((s, tgt), i):
                        guarded += 1
    # the flag is per awards entry: its `false` initialisation lies inside the loop over entries
    for fl in flags:
        inits = [d for d in b.defs().get(fl, []) if d[0] == "assign" and d[3]["rv"]["k"] == "use" and
                 (op_const(d[3]["rv"]["op"]) or {}).get("int") == "0" or (d[0] == "assign" and (op_const(d[3]["rv"].get("op", {})) or {}).get("disp") == "false")]
        guarded_ins = [i for i, t in ins if any(b.edge_dominates((s_, tg), i) for s_ in b.reachable() if b.term(s_)["k"] == "switch" for tg in b.succ(s_)
                                                if P.named_root(b, b.term(s_)["discr"]) == fl or _not_of(b, b.term(s_)["discr"]) == fl)]
        loops_of_ins = [bl for h, bl in b.loops() if any(i in bl for i in guarded_ins)]
        outer = max(loops_of_ins, key=len) if loops_of_ins else set()
        per_entry = bool(inits) and all(d[1] in outer for d in inits)
        rep.ob("R2", "build:flag-reset-per-entry", per_entry,
               "the 'vest entry inserted' flag is re-initialised for every awards entry" if per_entry else
               "the 'vest entry inserted' flag is initialised once, outside the loop over awards entries: after the first vest-style entry "
               "every later fallback-only entry is silently dropped from the lookup map",
               b.loc(), key="R2:build:flag-scope")
    if not flags and len(ins) == 2:
        # flag-free spelling: the two inserts sit on opposite edges of one branch (`if has_vest {…vest inserts…} else {…fallback…}`)
        (i1, t1), (i2, t2) = ins
        for s in b.reachable():
            sw = b.term(s)
            if sw["k"] != "switch":
                continue
            e1 = [tg for tg in b.succ(s) if b.edge_dominates((s, tg), i1)]
            e2 = [tg for tg in b.succ(s) if b.edge_dominates((s, tg), i2)]
            if e1 and e2 and set(e1).isdisjoint(e2):
                guarded += 1
                break
    rep.ob("R2", "build:fallback-only-if-no-vest", guarded >= 1,
           "the fallback price is inserted under a test of the flag set by the vest-entry insert" if guarded >= 1 else
           "the fallback price is inserted unconditionally: it can shadow a vest-date entry", b.loc(), key="R2:build:fallback-guard")
    # empty details on a vesting action -> error
    from rules.c08 import _R
    brg = _R(F).region(root if root is not None else b, depth=2)
    errs = [s for hb in brg.bodies.values() for i, si, s in hb.assigns() if s["rv"]["k"] == "agg" and s["rv"]["adt"].endswith("::ConvertError")]
    empties = [it["bb"] for it in brg.items if parse_callee(it["term"]["callee"])[2] == "is_empty"]
    rep.ob("R2", "build:empty-details-error", bool(errs) and bool(empties),
           "a vesting action without details is an error" if errs and empties else
           "no error is raised for a vesting action with empty TransactionDetails", b.loc(), key="R2:build:empty-details")
    # precedence: vest-specific price tested first
    ex = [x for x in F.bodies.values() if x.crate == "cgt_converter" and P.user_written(F, x) and x.kind == "fn"
          and any("vest_fair_market_value" in str(s) for _, _, s in x.assigns()) and x.id != b.id and (root is None or x.id != root.id)]
    for x in ex:
        xt = Terms(F, x, inline_depth=0)
        order = []
        for s in sorted(x.reachable()):
            sw = x.term(s)
            if sw["k"] == "switch":
                c = show(xt.operand(sw["discr"]))
                if "vest_fair_market_value" in c:
                    order.append(("vest", s))
                elif "fair_market_value_price" in c:
                    order.append(("fallback", s))
        vs = [s for k, s in order if k == "vest"]
        fs = [s for k, s in order if k == "fallback"]
        ok = bool(vs) and bool(fs) and all(x.dominates(vs[0], f) for f in fs)
        rep.ob("R2", f"{x.short}:vest-before-fallback", ok,
               "the vest-date market value is tested before the fallback price" if ok else
               "the fallback price is tested before (or without) the vest-specific price", x.loc(), key=f"R2:{x.short}:precedence")
        # the vest price carries the vest date (or the parent date), the fallback the parent date
        for i, si, s in x.assigns():
            rv = s["rv"]
            if rv["k"] == "agg" and rv["adt"] == "core::result::Result" and rv["variant"] == "Ok":
                tup = xt.operand(rv["ops"][0])
                if isinstance(tup, tuple) and tup and tup[0] == "tuple" and len(tup[1]) == 3:
                    d, p, flag = tup[1]
                    dtxt, ptxt = show(d), show(p)
                    if "vest_fair_market_value" in ptxt:
                        from roles import guards_of
                        gtxt = [show(c) for c, v, sb in guards_of(x, xt, i)]
                        indep = not any("fair_market_value_price" in g for g in gtxt)
                        rep.ob("R2", f"{x.short}:vest-price-unconditional", indep,
                               "the vest-date market value is used whenever it is present" if indep else
                               "the vest-date market value is used only under a condition on the fallback price: the fallback can take precedence",
                               x.loc(s["sp"]), key=f"R2:{x.short}:precedence")
                        okd = "vest_date" in dtxt
                        rep.ob("R2", f"{x.short}:vest-price-date", okd, "vest price is keyed by the vest date (parent date if absent)" if okd else
                               f"vest price is keyed by {dtxt[:60]}", x.loc(s["sp"]), key=f"R2:{x.short}:vest-price-date")
                    elif "fair_market_value_price" in ptxt:
                        okd = "parent_date" in dtxt or (isinstance(d, tuple) and any(isinstance(y, tuple) and y and y[0] == "param" for y in subterms(d)))
                        rep.ob("R2", f"{x.short}:fallback-price-date", okd and "vest_date" not in dtxt,
                               "fallback price is keyed by the entry's own date", x.loc(s["sp"]), key=f"R2:{x.short}:fallback-price-date")
    if not ex:
        rep.unresolved("R2", "EXTRACT", "function reading vest_fair_market_value not found")


def _not_of(b, op):
    p = op_place(op)
    if p is None:
        return None
    d = b.defs().get(p["l"], [])
    if len(d) == 1 and d[0][0] == "assign" and d[0][3]["rv"]["k"] == "un":
        return P.named_root(b, d[0][3]["rv"]["a"])
    return None


def rsu_arm(F, rep):
    import rules.c18 as c18
    from rules.c08 import _R
    rl = c18.row_loops(F)
    if len(rl) != 1:
        rep.unresolved("R3", "ROWLOOP", "row loop not found")
        return
    root = rl[0][0]
    rg = _R(F).region(root, depth=2)
    calls = [it for it in rg.items if it["term"]["callee"].endswith("AwardsData::get_fmv")]
    if len({(it["body"].id, it["bb"]) for it in calls}) != 1:
        rep.unresolved("R3", "get_fmv-call", f"{len(calls)} calls to the awards lookup in the row loop (and its helpers)")
        return
    it = calls[0]
    b, i, t, tb = it["body"], it["bb"], it["term"], it["tb"]
    args = [tb.operand(a) for a in t["args"]]
    names = [[x[2] for x in subterms(a) if isinstance(x, tuple) and len(x) == 3 and x[0] == "field"] for a in args]
    ok = "date" in names[1] and "symbol" in names[2]
    rep.ob("R3", "rsu:lookup-args", ok, "lookup is queried with the row's own date and symbol" if ok else
           f"lookup is queried with {show(args[1])[:40]}, {show(args[2])[:40]}", b.loc(t["sp"]), key="R3:rsu:lookup-args")
    # error propagated with `?` (no defaulting)
    res = t["dest"]["l"]
    dfl = [u["callee"] for j, u in b.calls() if parse_callee(u["callee"])[2] in DEFAULTING and any((op_place(a) or {}).get("l") == res for a in u["args"])]
    rep.ob("R3", "rsu:lookup-error-propagates", not dfl, "a failed lookup is propagated, not defaulted" if not dfl else
           f"lookup result is defaulted via {dfl}", b.loc(t["sp"]), key="R3:rsu:lookup-default")
    # the row's purchase is priced by THIS row's lookup on every path: the construction of the purchase that is reachable from the
    # lookup is also dominated by it. A second way to it — a previous row's result kept in a variable and reused when the next
    # deposit is "close enough" (seeded change C19-s7) — prices a deposit from another deposit's vest entry.
    inner = [(h, bl) for h, bl in b.loops() if i in bl]
    hdr = (min(inner, key=lambda x: len(x[1]))[0],) if inner else ()
    after = b.reach_from(t["target"], removed_blocks=hdr) if t.get("target") is not None else set()      # the rest of THIS row's iteration
    buys = [(k, s_) for k, si, s_ in b.assigns() if s_["rv"]["k"] == "agg" and s_["rv"]["adt"].endswith("CgtTransaction") and s_["rv"].get("variant") == "Buy" and k in after]
    if not buys:
        buys = [(k, s_) for k, si, s_ in b.assigns() if s_["rv"]["k"] == "agg" and ("CgtTrade" in s_["rv"]["adt"] or s_["rv"]["adt"].endswith("CgtTransaction")) and k in after
                and s_["rv"].get("variant") not in ("Sell", "Dividend", "Comment")]
    for k, s_ in buys[:1]:
        okd = b.dominates(i, k)
        rep.ob("R3", "rsu:priced-by-own-lookup", okd, "the RSU purchase is built only on paths through this row's lookup" if okd else
               "the RSU purchase can be built without passing this row's award lookup (a value kept from another row is used instead): the vest entry then depends "
               "on the rows converted before", b.loc(s_["sp"]), key="R3:rsu:lookup-bypassed")
    if not buys:
        rep.note("R3: the purchase row is not built in the function that makes the lookup (domination not judged)")
    # the None-awards edge returns MissingFairMarketValue
    found = False
    for k, si, s in b.assigns():
        rv = s["rv"]
        if rv["k"] == "agg" and rv["adt"].endswith("::ConvertError") and rv["variant"] == "MissingFairMarketValue":
            # not reachable from the lookup call (it is the other arm of `if let Some(awards)`)
            if not b.dominates(i, k):
                found = True
    # the cost basis the purchase row carries IS the lookup's: date = its vest_date, price = its fmv, on every path that pushes an RSU
    # row (per-path synthesis of one row's iteration, shared with C18-R2). A second source — the row's own `Price` used when the
    # lookup fails (seeded change C19-s9) — emits a cost that comes from no awards entry where the property demands an error.
    from core import Report
    r2 = Report("tmp")
    c18.arm_accounting(F, r2)
    n = 0
    for o in r2.obligations:
        ins = o["instance"]
        if "StockPlanActivity" in ins and ins.rsplit(":", 1)[-1] in ("date", "price"):
            n += 1
            rep.ob("R3", "rsu:" + ins, o["ok"], o["detail"], o["site"], key="R3:rsu:" + ins)
    if n < 2:
        rep.unresolved("R3", "rsu-row-fields", f"only {n} of the RSU row's date/price fields were found by the per-path synthesis")
    rep.ob("R3", "rsu:no-awards→error", found, "without an awards file the RSU arm returns MissingFairMarketValue" if found else
           "the RSU arm has no error path for a missing awards file (a cost would have to be invented)", b.loc(), key="R3:rsu:no-awards")


def classifiers(F, rep, prefix="cgt_converter::schwab::awards", rule="R4"):
    """every action name listed in a string classifier of the awards module reaches the arm it is listed under: the set of
    vesting / non-vesting actions the code LISTS is the set it ACTS on (a guard arm above must not shadow a listed literal —
    `Some(f) if f.starts_with("Forced") => Vesting` above `"Forced Disbursement" => NonVesting` turns a cash action with empty
    details into an error; seeded change C19-s8)"""
    import strmatch
    import panics as P
    total = 0
    for b in F.bodies.values():
        if not b.id.startswith(prefix) or b.kind not in ("fn", "method") or not P.user_written(F, b):
            continue
        n, bad = strmatch.shadowed_literals(b)
        if not n:
            continue
        total += n
        rep.ob(rule, f"{b.short}:listed-literals-reach-their-arm", not bad,
               f"{n} listed literals each reach the arm they are listed under" if not bad else
               "; ".join(f"\"{lit}\" is listed under {own[0]} but classified as {act[0]} (an arm above catches it first)" for lit, site, own, act in bad[:3]),
               bad[0][1] if bad else b.loc(), key=f"{rule}:{b.short}:shadowed-literal")
    if not total:
        rep.note(f"{rule}: no string classifier with listed literals found under {prefix} (a table-driven classifier is not judged by this rule)")
    rep.count(f"{rule}_literals_judged", total)


def run(ctx, rep):
    F = ctx.F
    lookup_shape(F, rep)
    map_building(F, rep)
    rsu_arm(F, rep)
    classifiers(F, rep)


def controls(pctx, rep):
    import strmatch
    F = pctx.F
    try:
        n1, bad1 = strmatch.shadowed_literals(F.one("classifier_shadowed"))
        n2, bad2 = strmatch.shadowed_literals(F.one("classifier_clean"))
        ok = [x[0] for x in bad1] == ["Forced Out"] and not bad2 and n2 >= 6
        rep.control("R4:shadowed-literal", ok, f"posctl: shadowed in classifier_shadowed = {[x[0] for x in bad1]} (expected ['Forced Out']), in classifier_clean = {[x[0] for x in bad2]} of {n2}")
    except Exception as e:
        rep.control("R4:shadowed-literal", False, f"string-classifier engine failed on posctl: {e}")
