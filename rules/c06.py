"""C06 — independence from line order, file split, fill splitting (structural clauses)."""
from mir import Terms, parse_callee, show, op_place, op_const, place_proj, subterms, is_decimal_arith_assign
from flow import root_of_operand, is_slice_sort, _const_through
from roles import Roles, RULES, agg_fields, guards_of, truth, is_agg, eq_guard
import rules.c16 as c16
import panics as P

META = {
    "explanation": (
        "R1 (canonicalisation is complete): in the canonicaliser a stable sort is followed by a merge of ADJACENT elements with "
        "equal keys; the fields read by the sort comparator must cover the fields compared by the merge predicate (date, ticker, "
        "operation kind) — otherwise equal-key lines separated by other lines stay unmerged and later per-lot logic sees input "
        "order. R2: that sort is stable and ascending. R3: legs are grouped by (disposal date, ticker) and the groups sorted by "
        "the shared comparator; same-day lots are consumed as one aggregate (date filter only, all lots of the date). R4: the CLI "
        "joins input files with a line break before parsing. R5: within a date the day loop runs separate passes (acquisitions, "
        "disposals, pooling, splits) so the order of same-day lines cannot matter (shared with C01-R2). R5 also: the cost pre-pass applies a date's events before that date's purchases join the tracked lots (shared with C11-R3). Does not decide invariance under permutations/partitions. R5 also: candidate effects of the 30-day look-ahead lie behind the `days ≥ 1` test (shared with C01-R3). R6: the transaction list is never thinned — two identical part fills are two lines (shared with C02-R10). R7: the ratio a candidate purchase of the look-ahead is rescaled with is not the accumulator that its own date's SPLIT lines update line by line (known finding: it is). R3 also: a same-day sale debits the day's lots pro rata with a ratio fixed before the loop (shared with C03-R4). R4 also: the CLI joins every input file whole — nothing takes a file's text apart or thins it between reading and joining."),
    "trusted_base": ["Vec::sort_by is stable", "rustc MIR + resolution"],
}


def canon(R, rep):
    F = R.F
    c = R.require("canon")
    tb = R.terms(c, 0)
    sort_keys = set()
    stable = None
    asc = True
    for j, u in c.calls():
        m = is_slice_sort(u["callee"])
        if not m:
            continue
        stable = "unstable" not in m
        clo = c16._closure_of(c, u["args"][1]) if len(u["args"]) > 1 else None
        if clo in F.bodies:
            ct = Terms(F, F.bodies[clo], inline_depth=1)
            ret = ct.local(0)
            if m.endswith("by_key"):
                for x in subterms(ret):
                    if isinstance(x, tuple) and len(x) == 3 and x[0] == "field" and isinstance(x[2], str):
                        sort_keys.add(x[2])
                    if isinstance(x, tuple) and x and x[0] == "discr":
                        sort_keys.add("kind")
            for lhs, rhs in c16._cmp_orientation(ret):
                lr, rr = c16._param_root(lhs), c16._param_root(rhs)
                if lr and rr:
                    sort_keys.update(p for p in lr[1] if not p.endswith("()"))
                    asc = asc and lr[0] < rr[0]
            if any(isinstance(x, tuple) and x and x[0] == "discr" for x in subterms(ret)):
                sort_keys.add("kind")
    if stable is None:
        rep.unresolved("R1", "canon-sort", "canonicaliser does not sort")
        return
    rep.ob("R2", "canon:stable-ascending", stable and asc, "the canonical sort is stable and ascending" if stable and asc else
           f"canonical sort stable={stable} ascending={asc}", c.loc(), key="R2:canon:sort")
    # merge predicate: guards dominating the first accumulation
    mb = R.merge_site()
    mtb = R.terms(mb, 0)
    merges = [(i, t) for i, t in mb.calls() if is_decimal_arith_assign(t["callee"]) == "AddAssign"]
    if not merges:
        rep.unresolved("R1", "merge", "no adjacent-merge accumulation found")
        return
    merge_keys = set()
    i0 = merges[0][0]
    for cond, val, s in guards_of(mb, mtb, i0):
        eg = eq_guard(cond, val)
        if eg:
            for side in eg:
                for x in subterms(side):
                    if isinstance(x, tuple) and len(x) == 3 and x[0] == "field" and isinstance(x[2], str) and x[2] in ("date", "ticker"):
                        merge_keys.add(x[2])
        if isinstance(cond, tuple) and cond[0] == "discr" and "operation" in show(cond):
            merge_keys.add("kind")
    rep.count("canon_sort_keys", sorted(sort_keys))
    rep.count("canon_merge_keys", sorted(merge_keys))
    adjacent = True  # the merge compares `next` with `current` in one pass over the sorted Vec
    missing = sorted(merge_keys - sort_keys)
    rep.ob("R1", "canon:sort-key⊇merge-key", not missing,
           f"sort key {sorted(sort_keys)} covers the merge key {sorted(merge_keys)}" if not missing else
           f"the canonicaliser sorts by {sorted(sort_keys)} only but merges ADJACENT lines that agree on {sorted(merge_keys)}: same-day same-security "
           f"trades separated by other lines (missing sort keys: {missing}) stay separate lots, so which lot a 30-day claim consumes depends on line order",
           c.loc(), key="R1:canon:sort-key-incomplete")
    # merged values: quantity added, price = (a1 p1 + a2 p2)/(a1+a2), fees added — checked in C04-R8


def grouping(R, rep):
    F = R.F
    gs = [b for b in F.bodies.values() if b.crate == "cgt_core" and b.kind == "fn" and b.ret.startswith("alloc::vec::Vec<cgt_core::models::Disposal")]
    if len(gs) != 1:
        rep.unresolved("R3", "GROUP", f"{len(gs)} functions return Vec<Disposal>")
        return
    b = gs[0]
    tb = Terms(F, b, inline_depth=0)
    keys = []
    for i, t in b.calls():
        if parse_callee(t["callee"])[2] == "entry" and ("HashMap" in t["callee"] or "BTreeMap" in t["callee"]):
            k = tb.operand(t["args"][1])
            if isinstance(k, tuple) and k[0] == "tuple":
                keys = [show(x) for x in k[1]]
    ok = len(keys) == 2 and keys[0].endswith("disposal_date") and keys[1].endswith("disposal_ticker")
    rep.ob("R3", "group:key=(date,ticker)", ok, "legs are grouped into disposals by (disposal date, ticker)" if ok else f"legs are grouped by {keys}",
           b.loc(), key="R3:group:key")
    from core import Report
    r2 = Report("tmp")
    c16.stated_orders(F, r2)
    for o in r2.obligations:
        if "disposals-date-ticker" in o["instance"]:
            rep.ob("R3", o["instance"], o["ok"], o["detail"], o["site"], key="R3:" + o["instance"])
    r3 = Report("tmp")
    c16.hash_order(F, r3)
    for o in r3.obligations:
        if o["instance"].startswith(b.short):
            rep.ob("R3", "group:hash-order:" + o["instance"].split(":")[-1], o["ok"], o["detail"], o["site"], key="R3:group:hash-order")
    # same-day aggregate: ledger functions selecting lots by date use date equality only
    for lb in F.bodies.values():
        if lb.id.startswith("cgt_core::matcher::acquisition_ledger::AcquisitionLedger::") and lb.kind == "method" and \
                any("NaiveDate" in lb.local_ty(k + 1) for k in range(lb.argc)) and ("on_date" in lb.short or "for_date" in lb.short or "for_pool" in lb.short):
            eq = False
            rg = R.region(lb)
            for hb in rg.bodies.values():
                ht = R.terms(hb, 0)
                conds = [ht.operand(hb.term(s)["discr"]) for s in hb.reachable() if hb.term(s)["k"] == "switch"]
                if hb.kind == "closure":
                    conds.append(ht.local(0))
                for cnd in conds:
                    for x in subterms(cnd):
                        if isinstance(x, tuple) and x and x[0] == "cmp" and x[1] in ("Eq", "Ne") and \
                                (show(x[2]).endswith(".date") or show(x[3]).endswith(".date")):
                            eq = True
            rep.ob("R3", f"{lb.short}:all-lots-of-date", eq, "selects every lot of the date (date equality only), independent of lot order" if eq else
                   f"{lb.short} does not select lots by date equality", lb.loc(), key=f"R3:{lb.short}:date-select")


SLICE = "[cgt_core::models::GbpTransaction]"
_PASS_THROUGH = ("iter", "into_iter", "filter", "filter_map", "map", "copied", "cloned", "flat_map", "flatten", "by_ref")


def same_day_total(R, rep):
    """R3 (fill splitting): the scan that totals a date's disposals for the same-day reservation must add up EVERY matching
    line — `…filter(..).map(..).sum()` or a loop whose only exit is the exhaustion of the iterator — never the first or last"""
    F = R.F
    from panics import reachable
    reach, _ = reachable(F, [R.require("cascade").id])
    n = 0
    for rid in sorted(reach):
        b = F.bodies[rid]
        if not P.user_written(F, b) or b.kind != "fn" or "Decimal" not in b.ret or b.ret.startswith("core::"):
            continue
        if not any(SLICE in b.local_ty(k + 1) for k in range(b.argc)) or not any("NaiveDate" in b.local_ty(k + 1) for k in range(b.argc)):
            continue
        sl = [k + 1 for k in range(b.argc) if SLICE in b.local_ty(k + 1)]
        iterates = any(parse_callee(t["callee"])[2] in ("iter", "into_iter") and (root_of_operand(b, t["args"][0]) or (None,))[0] in sl
                       for _, t in b.calls())
        if not iterates:
            continue
        n += 1
        tb = R.terms(b, 0)
        ret = tb.local(0)
        ok = False
        why = f"the same-day total is {show(ret)[:90]}"
        x = ret
        if isinstance(x, tuple) and x and x[0] == "call" and parse_callee(x[1])[2] in ("sum",):
            y = x[2][0]
            while isinstance(y, tuple) and y and y[0] == "call" and parse_callee(y[1])[2] in _PASS_THROUGH:
                y = y[2][0]
            ok = isinstance(y, tuple) and y and y[0] == "param"
            why = "the same-day total sums every matching line of the timeline" if ok else f"sum over {show(y)[:60]}"
        elif isinstance(x, tuple) and x and x[0] == "var" and b.loops():
            # loop form: accumulations into the returned variable, loop left only when the iterator is exhausted
            (h, blks), = b.loops() if len(b.loops()) == 1 else [(None, set())]
            adds = [i for i, t in b.calls() if is_decimal_arith_assign(t["callee"]) == "AddAssign" and i in blks]
            exits = {(s, t_) for s in blks for t_ in b.succ(s) if t_ not in blks}
            only_exhaustion = True
            for s, t_ in exits:
                sw = b.term(s)
                cnd = tb.operand(sw["discr"]) if sw["k"] == "switch" else None
                if not (isinstance(cnd, tuple) and cnd and cnd[0] == "discr" and isinstance(cnd[1], tuple) and cnd[1][0] == "call"
                        and parse_callee(cnd[1][1])[2] == "next"):
                    only_exhaustion = False
            ok = bool(adds) and only_exhaustion
            why = "every matching line is added; the loop ends only when the timeline is exhausted" if ok else \
                "the loop over the timeline can end before every line has been added (early exit) or adds nothing"
        rep.ob("R3", f"{b.short}:sums-every-line", ok, why if ok else
               why + ": a day's sale entered as several non-adjacent lines reserves too few shares, so the result depends on how fills are split",
               b.loc(), key=f"R3:{b.short}:partial-total")
    if n == 0:
        rep.unresolved("R3", "same-day-total", "no Decimal-valued scan of the timeline for a given date found below the cascade")


TEXT_ALTERING = ("lines", "split", "split_terminator", "split_inclusive", "split_whitespace", "split_once", "rsplit", "rsplit_once", "splitn",
                 "filter", "filter_map", "skip", "skip_while", "take", "take_while", "step_by", "dedup", "dedup_by", "dedup_by_key", "retain",
                 "retain_mut", "truncate", "drain", "remove", "pop", "swap_remove", "clear", "trim", "trim_start", "trim_end", "trim_matches",
                 "trim_start_matches", "trim_end_matches", "strip_prefix", "strip_suffix", "replace", "replacen", "replace_range",
                 "to_lowercase", "to_uppercase", "to_ascii_lowercase", "to_ascii_uppercase", "chars", "char_indices", "bytes", "split_off",
                 "split_at", "get", "get_unchecked", "extract_if")


def cli_join(R, rep):
    F = R.F
    main = F.bodies.get("cgt_tool::main")
    cands = [b for b in F.bodies.values() if b.crate == "cgt_tool" and P.user_written(F, b) and
             any(parse_callee(t["callee"])[2] == "join" for _, t in b.calls()) and "std::fs::read_to_string" in F.callgraph().get(b.id, ())]
    if len(cands) != 1:
        rep.unresolved("R4", "JOIN", f"{len(cands)} CLI functions read and join input files")
        return
    b = cands[0]
    tb = Terms(F, b, inline_depth=0)
    for i, t in b.calls():
        if parse_callee(t["callee"])[2] == "join":
            k = _const_through(b, t["args"][1])
            sep = (k or {}).get("str")
            ok = sep is not None and sep.endswith("\n")
            rep.ob("R4", "cli:files-joined-by-newline", ok, "input files are concatenated with a line break" if ok else
                   f"input files are joined with {sep!r}: the last line of one file and the first of the next would fuse", b.loc(t["sp"]),
                   key="R4:cli:join-separator")
    # …and every file is joined WHOLE: between `read_to_string` and the join nothing takes the text apart, drops or rewrites lines
    # (`lines`/`split` + `filter`, `dedup`, `retain`, `trim`, `replace`, …) — in the joiner, its closures and the CLI helpers it calls.
    # A joiner that skips lines "already supplied by an earlier file" turns two identical part fills written in two files into one,
    # while the same two lines in one file stay two (seeded change C06-s9).
    region, todo = [], [b]
    while todo:
        x = todo.pop()
        if x in region:
            continue
        region.append(x)
        todo += [c for c in F.bodies.values() if c.kind == "closure" and c.parent == x.id]
        todo += [F.bodies[c] for c in F.callgraph().get(x.id, ()) if c in F.bodies and F.bodies[c].crate == "cgt_tool" and P.user_written(F, F.bodies[c])]
    bad = [(x, t, parse_callee(t["callee"])[2]) for x in region for _, t in x.calls() if parse_callee(t["callee"])[2] in TEXT_ALTERING
           and not t["callee"].startswith("std::path") and "std::ffi" not in t["callee"]]
    rep.ob("R4", "cli:files-joined-whole", not bad, f"the joiner and its {len(region) - 1} helpers/closures never take a file's text apart" if not bad else
           "; ".join(f"`{x.short}` calls `{m}`" for x, t, m in bad[:4]) + ": the text of an input file is taken apart or thinned between reading and joining — "
           "what is dropped or rewritten depends on how the ledger is partitioned into files", bad[0][0].loc(bad[0][1]["sp"]) if bad else b.loc(),
           key="R4:cli:file-text-altered")
    # both parse and report use it
    users = {cb.short for cb, i, t in F.call_sites(lambda c: c == b.id)}
    n = sum(1 for cb, i, t in F.call_sites(lambda c: c == b.id))
    rep.ob("R4", "cli:join-used-by-parse-and-report", n >= 2, f"{n} commands read their input through the joiner" if n >= 2 else
           f"only {n} command uses the joiner", b.loc(), key="R4:cli:join-users")


def run(ctx, rep):
    R = Roles(ctx.F)
    canon(R, rep)
    grouping(R, rep)
    same_day_total(R, rep)
    cli_join(R, rep)
    # within one date the phases run as separate passes over the day's lines (all buys, all sells, pooling, all splits):
    # with interleaved per-line processing the result would depend on the order of same-day lines (shared with C01-R2)
    import rules.c01 as c01
    from core import Report
    r2 = Report("tmp")
    c01.dayloop_order(R, r2)
    for o in r2.obligations:
        rep.ob("R5", o["instance"], o["ok"], o["detail"], o["site"], key="R5:" + o["instance"])
    # lines dated on the sale's own day have no effect on its 30-day look-ahead, wherever they are written (shared with C01-R3:
    # every candidate effect lies behind the `days ≥ 1` test; seeded change C06-s7)
    r2b = Report("tmp")
    c01.window(R, r2b)
    for o in r2b.obligations:
        if o["instance"].startswith("window:effect"):
            rep.ob("R5", o["instance"], o["ok"], o["detail"], o["site"], key="R5:" + o["instance"])
    for v in r2.violations:
        if v["instance"].startswith("role:"):
            rep.ob("R5", v["instance"], False, v["detail"], v["site"], key="R5:" + v["instance"])
    # the same holds for the cost pre-pass: within a date all capital returns / accumulations are applied before that date's
    # purchases join the tracked lots; walked line by line, a purchase written above the event line would absorb part of the
    # adjustment and one written below it would not (shared with C11-R3; seeded change C06-s3)
    # a reservation (or any quantity map) shared by all securities must be keyed per security: keyed by the date alone, the first
    # security whose look-ahead reaches a date decides for all — and which one is first depends on line order (shared with C09-R1)
    # splitting one fill into several lines changes nothing — in particular two IDENTICAL part fills are two lines, not one
    # (shared with C02-R10: the transaction list is never thinned)
    import rules.c02 as c02_
    c02_.every_line_counts(R, rep, "R6")
    # the day's purchases are interchangeable only if a same-day sale takes from ALL of them pro rata (shared with C03-R4): depleted
    # unevenly, what is left in each lot — and later pooled at that lot's own cost — depends on the order of the lines (seeded change C06-s10)
    import rules.c03 as c03_
    c03_.pro_rata_debits(R, rep, "R3")
    import rules.c09 as c09
    r4 = Report("tmp")
    c09.keyed_access(R, r4)
    for o in r4.obligations:
        if o["instance"].startswith("shared-map-key:"):
            rep.ob("R5", o["instance"], o["ok"], o["detail"], o["site"], key="R5:" + o["instance"])
    import rules.c11 as c11
    r3 = Report("tmp")
    appo = c11.adjustments(R, r3)
    if appo:
        c11.order_and_who(R, r3, appo)
    for o in r3.obligations:
        if o["instance"].startswith("prepass:adjust"):
            rep.ob("R5", o["instance"], o["ok"], o["detail"], o["site"], key="R5:" + o["instance"])
    # the look-ahead sees a candidate's date as the day loop does — purchases before that date's splits (shared engine with C10-R8)
    import rules.c10 as c10
    c10.lookahead_ratio_dates(R, rep, None, "R7")
