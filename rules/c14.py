"""C14 — DSL and JSON round trips (structural clauses)."""
import re

from mir import Terms, parse_callee, show, op_place, op_const, place_proj, subterms, subst
from flow import format_calls, template_text, root_of_operand, body_is_external
from grammar import Grammar, Hole, tokenize, TokenMatcher, arm_accepts, find_nodes
from strsyn import StrSyn, NotSynthesisable

import panics as P

META = {
    "engine": "mirfacts+srcfacts+rules",
    "engines": ["mirfacts", "srcfacts", "rules"],
    "technique": "static analysis: format templates decoded from MIR matched against the pest grammar AST and the match_nodes! consumer arms",
    "explanation": (
        "R1 (writer ⊆ grammar, inverse on structure): the DSL writer is found structurally (function returning String with an "
        "exhaustive match on Operation). For every variant ALL strings it can return are synthesised symbolically over the writer and "
        "its helpers (format templates, push_str/push/+, &mut String helpers, branch conditions kept) — format templates decoded from "
        "the MIR's fmt::Arguments byte templates, with placeholders typed from the resolved argument types (NaiveDate "
        "via %Y-%m-%d → date, the ticker String → ticker, Decimal Display → decimal, CurrencyAmount::code → currency code; "
        "helper format functions expanded) — is matched token-by-token against grammar rule `transaction`; the consumer arm "
        "selected by the resulting child sequence must build the same Operation variant, and each grammar position must "
        "map back to the field the writer printed there; the optional FEES/TAX clause must be guarded by a non-zero test "
        "on the same field and its absence must select the zero-default arm. Placeholders must carry no width/precision "
        "(lossy). R2 (JSON): field names written by the CurrencyAmount serializer ⊆ keys its visitor accepts; every "
        "Operation tag written is a fixpoint of the input normalisation and every remap target is a real tag; "
        "Transaction's serializer and its hand-written deserializer agree on the outer field names and both flatten. "
        "R3 (MCP): the input sniffer routes '['-prefixed text to serde_json and everything else to the DSL parser; "
        "convert_to_dsl calls the shared writer. R4 (tokens): each token rule a placeholder is matched against accepts every text of that "
        "kind the writer can print (all alphanumeric tickers, all digits[.digits] decimals, all dddd-dd-dd dates; character-level PEG "
        "evaluation of the token rule on all words up to a bound). Exactness of Decimal Display/FromStr is trusted, not decided. R6 (token conversions): in the parser module the text of a decimal/date token goes to Decimal::from_str / NaiveDate::parse_from_str and no parse error is built before that conversion (a length or scale test on the text refuses values the writer prints). R1 also: the zero test that omits an optional clause is the decimal library's exact `is_zero` on the printed field itself — not a test of a rounded or otherwise computed value. R1 also: the list-level writer neither sorts nor thins the list it is given; in the DSL parser, the writer and the money (de)serialisers Currency::from_code is the only currency-valued ISO function called."),
    "trusted_base": ["rust_decimal Display/FromStr round-trip exactly for every scale (trusted API)",
                     "chrono %Y-%m-%d prints what the grammar's date rule and parse_from_str read",
                     "serde derive writes and reads the same renamed names for one attribute set",
                     "core::fmt::Arguments template encoding as documented in library/core/src/fmt/mod.rs"],
}


def find_writer(F):
    """bodies in cgt_core that return a String and switch exhaustively on Operation<CurrencyAmount> (≥ 7 arms), from which
    format templates are reachable (in the body itself or in the helpers it calls)"""
    out = []
    for b in F.bodies.values():
        if b.crate != "cgt_core" or b.kind != "fn" or F.is_derive(b) or b.ret != "alloc::string::String":
            continue
        for i, t in b.terms_of_kind("switch"):
            if len(t["targets"]) < 7:
                continue
            p = op_place(t["discr"])
            if p is None:
                continue
            d = b.defs().get(p["l"], [])
            if len(d) == 1 and d[0][0] == "assign" and d[0][3]["rv"]["k"] == "discr":
                src = d[0][3]["rv"]["p"]
                ty = b.local_ty(src["l"])
                if "Operation<cgt_money::amount::CurrencyAmount>" in ty:
                    nfmt = sum(1 for _ in format_calls(F, b))
                    for _, u in b.calls():
                        hb = F.bodies.get(u["callee"])
                        if hb is not None and hb.crate == "cgt_core" and not F.is_derive(hb):
                            nfmt += sum(1 for _ in format_calls(F, hb))
                    if nfmt >= 3:
                        out.append((b, i, t))
    return out


def variant_names(F):
    a = F.adts.get("cgt_core::models::Operation")
    return [v["name"] for v in a["variants"]] if a else []


def hole_of(F, b, part):
    """('arg', term, kind, ty, opts) -> list of parts (str | Hole); helper formatters are expanded"""
    _, term, kind, ty, opts = part
    lossy = bool(opts)
    if kind != "display":
        return [Hole("text", term, f"non-Display placeholder ({kind})")]
    if "DelayedFormat" in ty:
        fmt = None
        for x in subterms(term):
            if isinstance(x, tuple) and x and x[0] == "call" and x[1].endswith("NaiveDate::format") and len(x[2]) == 2:
                if x[2][1][0] == "str":
                    fmt = x[2][1][1]
                    dterm = x[2][0]
        if fmt == "%Y-%m-%d":
            return [Hole("date", dterm, "date")]
        return [Hole("text", term, f"date printed with {fmt!r}")]
    if "rust_decimal::decimal::Decimal" in ty:
        return [Hole("decimal" if not lossy else "text", term, "decimal" if not lossy else f"decimal with options {opts}")]
    if (ty.endswith("str") or ty == "&str" or ty == "&&str") and not (
            isinstance(term, tuple) and term and term[0] in ("field",) and term[2] in ("ticker", "symbol")):
        # CurrencyAmount::code() or a constant
        if isinstance(term, tuple) and term and term[0] == "call" and term[1].endswith("CurrencyAmount::code"):
            return [Hole("code", term[2][0], "currency code")]
        if isinstance(term, tuple) and term and term[0] == "str":
            return [term[1]]
        if isinstance(term, tuple) and term and term[0] == "param":
            return [Hole("param", term, term[2])]
        return [Hole("text", term, "str")]
    if "alloc::string::String" in ty or ty.endswith("str"):
        inner = term
        while isinstance(inner, tuple) and inner and inner[0] == "call" and parse_callee(inner[1])[2] in ("to_string", "to_owned", "clone", "as_str") and len(inner[2]) == 1:
            inner = inner[2][0]
        if isinstance(inner, tuple) and inner and inner[0] == "call" and inner[1].endswith("NaiveDate::format") and len(inner[2]) == 2:
            if inner[2][1] == ("str", "%Y-%m-%d"):
                return [Hole("date", inner[2][0], "date")]
            return [Hole("text", term, f"date printed with {inner[2][1]!r}")]
        if isinstance(inner, tuple) and inner and inner[0] == "field" and inner[2] in ("ticker", "symbol"):
            return [Hole("ticker", inner, "ticker")]
        # `<Decimal>.to_string()` of a parameter (possibly the payload of an Option<Decimal> parameter) is Decimal's Display
        root = inner
        while isinstance(root, tuple) and root and len(root) >= 2:
            if root[0] in ("some", "cast"):
                root = root[1]
            elif root[0] == "call" and parse_callee(root[1])[2] in ("filter", "copied", "cloned", "as_ref", "take") and "Option" in root[1] and root[2]:
                root = root[2][0]       # Option adaptors keep the value they hold: `amount.filter(|v| *v > 0)` is still that Decimal
            else:
                break
        if inner is not term and isinstance(root, tuple) and root and root[0] == "param" and root[1] < b.argc and \
                "rust_decimal::decimal::Decimal" in b.local_ty(root[1] + 1) and not lossy:
            return [Hole("decimal", inner, "decimal")]
    if "alloc::string::String" in ty:
        if isinstance(term, tuple) and term and term[0] == "field" and term[2] in ("ticker", "symbol"):
            return [Hole("ticker", term, "ticker")]
        if isinstance(term, tuple) and term and term[0] == "call" and term[1] in F.bodies:
            hb = F.bodies[term[1]]
            fcs = list(format_calls(F, hb, Terms(F, hb, inline_depth=0)))
            if len(fcs) == 1 and fcs[0]["parts"] is not None:
                out = []
                for p in fcs[0]["parts"]:
                    if p[0] == "lit":
                        out.append(p[1])
                    else:
                        p2 = ("arg", subst(p[1], list(term[2])), p[2], p[3], p[4])
                        out += hole_of(F, hb, p2)
                return out
            # helper that formats through to_string (e.g. Decimal::to_string / date.format().to_string())
            ht = Terms(F, hb, inline_depth=0).local(0)
            if isinstance(ht, tuple) and ht and ht[0] == "call" and parse_callee(ht[1])[2] == "to_string" and len(ht[2]) == 1:
                inner = subst(ht[2][0], list(term[2]))
                ity = hb.local_ty(1) if hb.argc >= 1 else ""
                if "Decimal" in ity:
                    return [Hole("decimal", inner, "decimal")]
                if isinstance(inner, tuple) and inner and inner[0] == "call" and inner[1].endswith("NaiveDate::format"):
                    f = inner[2][1]
                    if f == ("str", "%Y-%m-%d"):
                        return [Hole("date", inner[2][0], "date")]
        if isinstance(term, tuple) and term and term[0] == "param":
            return [Hole("param", term, term[2])]
        return [Hole("text", term, "String")]
    return [Hole("text", term, ty)]


def synth_writer(F, b, sw):
    """{variant index: [(parts as str|Hole, guards)]} — every string the writer can return, per Operation variant, obtained
    by symbolic string synthesis over the writer and its helpers (strsyn)"""
    syn = StrSyn(F)
    res = syn.returns(b)
    tb = Terms(F, b, inline_depth=0)
    dterm = tb.operand(sw["discr"])
    out = {}
    seen = set()
    for r in res:
        vi = None
        for cnd, val in r["guards"]:
            if cnd == dterm and isinstance(val, str) and val.lstrip("-").isdigit():
                vi = int(val)
        if vi is None or r["parts"] is None:
            continue
        parts = []
        for p in r["parts"]:
            if p[0] == "lit":
                if p[1]:
                    parts.append(p[1])
            else:
                parts += hole_of(F, b, p)
        # adjacent literals are one piece of text
        merged = []
        for p in parts:
            if isinstance(p, str) and merged and isinstance(merged[-1], str):
                merged[-1] += p
            else:
                merged.append(p)
        key = (vi, tuple(p if isinstance(p, str) else (p.kind, p.term) for p in merged))
        if key in seen:
            continue
        seen.add(key)
        out.setdefault(vi, []).append((merged, r["guards"]))
    return out


def arm_strings(F, b, tb, entry, others):
    """symbolic strings produced on paths through the arm starting at block `entry`:
    -> (base_parts, [(suffix_parts, guard_term, guard_value)])"""
    mine = b.reach_from(entry) - set().union(*[b.reach_from(o) for o in others if o != entry]) if others else b.reach_from(entry)
    mine = {x for x in b.reach_from(entry) if b.dominates(entry, x)}
    fcs = [fc for fc in format_calls(F, b, tb) if fc["bb"] in mine]
    if not fcs:
        return None
    fcs.sort(key=lambda fc: (0 if all(b.dominates(fc["bb"], o["bb"]) for o in fcs) else 1, fc["bb"]))
    base = fcs[0]
    suffixes = []
    for fc in fcs[1:]:
        # guard: the switch whose edge dominates this format
        guard = None
        for s in mine:
            t = b.term(s)
            if t["k"] == "switch" and b.dominates(base["bb"], s):
                for tgt in b.succ(s):
                    if b.edge_dominates((s, tgt), fc["bb"]):
                        val = [v for v, x in t["targets"] if x == tgt]
                        guard = (tb.operand(t["discr"]), val[0] if val else "otherwise")
        suffixes.append((fc, guard))
    return base, suffixes


def parts_of(F, b, fc):
    out = []
    if fc["parts"] is None:
        return [Hole("text", None, "undecodable template")]
    for p in fc["parts"]:
        if p[0] == "lit":
            out.append(p[1])
        else:
            out += hole_of(F, b, p)
    return out


def _root_field(term):
    """innermost→outermost field names of a value term, e.g. ((tx.operation as Buy).price).amount -> ['operation','price','amount'], variant"""
    names = []
    variant = None
    t = term
    while isinstance(t, tuple) and t:
        if t[0] == "field":
            names.append(t[2])
            t = t[1]
        elif t[0] == "dc":
            variant = t[2]
            t = t[1]
        elif t[0] in ("some", "cast"):
            t = t[1]
        elif t[0] == "call" and len(t[2]) >= 1:
            t = t[2][0]
        else:
            break
    return list(reversed(names)), variant


def _variant_field_name(term):
    """the field of the Operation variant a printed value is taken from: ((op as V).price).amount -> price"""
    t = term
    last = None
    while isinstance(t, tuple) and t:
        if t[0] == "field":
            if isinstance(t[1], tuple) and t[1] and t[1][0] == "dc":
                return t[2]
            last = t[2]
            t = t[1]
        elif t[0] in ("some", "cast"):
            t = t[1]
        elif t[0] == "call" and len(t[2]) >= 1:
            t = t[2][0]
        else:
            break
    return None


def writer_vs_grammar(ctx, rep):
    F, S = ctx.F, ctx.S
    g = Grammar(S["grammar"])
    from grammar import consumers
    cons = consumers(S)
    ws = find_writer(F)
    if len(ws) != 1:
        rep.unresolved("R1", "WRITER", f"{len(ws)} exhaustive Operation→format! writers found in cgt_core")
        return
    b, sw, t = ws[0]
    tb = Terms(F, b, inline_depth=0)
    exh = b.term(t["otherwise"])["k"] == "unreachable"
    rep.ob("R1", "writer:exhaustive", exh, "writer's match on Operation has no wildcard arm" if exh else
           "writer's match on Operation has a default arm: a new variant would be written as something else", b.loc(t["sp"]),
           key="R1:writer:exhaustive")
    vnames = variant_names(F)
    entries = {int(v): tgt for v, tgt in t["targets"]}
    tm = TokenMatcher(g)
    rep.count("writer", b.short)
    rep.count("writer_arms", len(entries))
    try:
        synth = synth_writer(F, b, t)
    except NotSynthesisable as e:
        rep.unresolved("R1", "writer-strings", f"the writer's output cannot be synthesised: {e}")
        return
    for vi, entry in sorted(entries.items()):
        vname = vnames[vi] if vi < len(vnames) else f"#{vi}"
        alts = synth.get(vi)
        if not alts:
            rep.ob("R1", f"{vname}:template", False, "no string is produced in this arm", b.loc(), key=f"R1:{vname}:no-template")
            continue
        base = {"site": b.loc(b.term(entry).get("sp") or t["sp"])}
        pkey = lambda ps: tuple(p if isinstance(p, str) else (p.kind, p.term) for p in ps)
        alts.sort(key=lambda a: len(a[0]))
        base_parts, base_guards = alts[0]
        variants_out = [("without optional clause", base_parts, None)]
        for parts, guards in alts[1:]:
            sp = parts[len(base_parts):] if pkey(parts[:len(base_parts)]) == pkey(base_parts) else parts
            guard = None
            for gt, gv in guards:
                if isinstance(gt, tuple) and gt and gt[0] == "call" and parse_callee(gt[1])[2] == "is_zero":
                    guard = (gt, gv)
            variants_out.append(("with optional clause", parts, (base, guard, sp)))
        for label, parts, extra in variants_out:
            toks, glued = tokenize(parts)
            txt = " ".join(x if isinstance(x, str) else "{" + x.kind + "}" for x in toks)
            bad_holes = [h for h in toks if isinstance(h, Hole) and h.kind == "text"]
            if glued or bad_holes:
                rep.ob("R1", f"{vname}:{label}:lexable", False,
                       f"writer output `{txt}` " + ("joins two tokens without a space" if glued else f"prints {bad_holes[0].label}, which the grammar cannot read back exactly"),
                       base["site"], key=f"R1:{vname}:lexable")
                continue
            trees = tm.match_rule("transaction", toks)
            ok = len(trees) >= 1
            rep.ob("R1", f"{vname}:{label}:derivable", ok,
                   f"`{txt}` derives from grammar rule `transaction`" if ok else
                   f"writer output `{txt}` is not a sentence of the grammar (rule `transaction`)", base["site"],
                   key=f"R1:{vname}:derivable:{'opt' if extra else 'base'}")
            if not ok:
                continue
            tree = trees[0]
            cmds = [c for c in find_nodes(tree, "command")]
            cmd = cmds[0][1][0] if cmds and cmds[0][1] else None
            if cmd is None:
                continue
            cname, kids = cmd
            seq = tuple(k[0] for k in kids)
            fn = cons.get(cname)
            arm = None
            if fn:
                for m in fn["match_nodes"]:
                    for a in m["arms"]:
                        if arm_accepts(a["pattern"], seq):
                            arm = a
                            break
            if arm is None or not [s for s in arm["structs"] if s["path"].startswith("Operation::")]:
                # the operation is not built in an arm of the command's own match_nodes! (carrier structs, free helpers, values
                # passing through a tuple): evaluate the consumers symbolically on this derivation tree, each token marked with
                # its position, and read off which grammar child ends up in which field
                done = _variant_by_evaluation(rep, S, g, cons, cmd, vname, label, txt, base, _holes_under, _variant_field_name, _root_field)
                if done:
                    continue
            if arm is None:
                rep.ob("R1", f"{vname}:{label}:consumer-arm", False, f"no consumer arm of `{cname}` accepts [{', '.join(seq)}]",
                       base["site"], key=f"R1:{vname}:consumer-arm")
                continue
            st = [s for s in arm["structs"] if s["path"].startswith("Operation::")]
            built = st[0]["path"].split("::")[-1] if st else None
            rep.ob("R1", f"{vname}:{label}:same-variant", built == vname,
                   f"text written for Operation::{vname} parses through `{cname}` back to Operation::{built}" if built == vname else
                   f"text written for Operation::{vname} (`{txt}`) is parsed by `{cname}` into Operation::{built}",
                   base["site"], key=f"R1:{vname}:variant-mismatch")
            if not st:
                continue
            # field-to-field: grammar child -> binding -> struct field ; writer hole under that child -> printed field
            bind = {p["rule"]: p["binding"].strip() for p in arm["pattern"]}
            field_of_binding = {re.sub(r"\s+", "", v): k for k, v in st[0]["fields"].items()}
            for kid in kids:
                krule = kid[0]
                bnd = bind.get(krule)
                target = field_of_binding.get(bnd)
                holes = _holes_under(kid)
                if krule == "ticker":
                    for h in holes:
                        names, var = _root_field(h.term)
                        rep.ob("R1", f"{vname}:{label}:ticker-field", names[-1:] == ["ticker"],
                               "ticker position prints tx.ticker" if names[-1:] == ["ticker"] else f"ticker position prints {show(h.term)[:60]}",
                               base["site"], key=f"R1:{vname}:ticker-field")
                    continue
                if target is None:
                    continue
                for h in holes:
                    names, var = _root_field(h.term)
                    vf = _variant_field_name(h.term)
                    okf = vf == target and (var in (None, vname))
                    rep.ob("R1", f"{vname}:{label}:{krule}→{target}", okf,
                           f"grammar position `{krule}` is read into `{target}` and the writer prints `{'.'.join(names)}` there" if okf else
                           f"grammar position `{krule}` is read into Operation::{vname}.{target} but the writer prints {show(h.term)[:70]} there: fields are swapped on a round trip",
                           base["site"], key=f"R1:{vname}:{krule}-field")
            # date position
            for tr in find_nodes(tree, "date"):
                h = tr[1]
                if isinstance(h, Hole):
                    names, _ = _root_field(h.term)
                    rep.ob("R1", f"{vname}:{label}:date-field", names[-1:] == ["date"],
                           "date position prints tx.date" if names[-1:] == ["date"] else f"date position prints {show(h.term)[:60]}",
                           base["site"], key=f"R1:{vname}:date-field")
            # optional clause: emitted iff the same field is non-zero
            if extra:
                fc, guard, sp = extra
                clause_holes = [h for h in sp if isinstance(h, Hole)]
                gfield = None
                okg = False
                if guard:
                    gt, gv = guard
                    if isinstance(gt, tuple) and gt and gt[0] == "call" and parse_callee(gt[1])[2] == "is_zero":
                        gnames, _ = _root_field(gt[2][0])
                        hn = [_root_field(h.term)[0] for h in clause_holes]
                        # emitted on the false edge of is_zero(field.amount)
                        same = all(gnames[-2] in n for n in hn if n) if len(gnames) >= 2 else False
                        # …and the test is the EXACT zero test of the decimal library on the field itself: a value that was rounded,
                        # truncated or otherwise computed first ("zero once shown with two decimals") drops a clause whose value is
                        # not zero — 0.004 USD of fees does not survive the round trip (seeded change C14-s8)
                        inner = [x for x in subterms(gt[2][0]) if isinstance(x, tuple) and x and x[0] == "call"
                                 and parse_callee(x[1])[2] not in ("deref", "as_ref", "borrow", "clone")]
                        exact = "rust_decimal" in gt[1] and not inner
                        okg = gv == "0" and same and exact
                        if gv == "0" and same and not exact:
                            gfield = None
                            guard = (("call", "zero test of a computed value: " + show(gt)[:80], ()), gv)
                        gfield = ".".join(gnames)
                rep.ob("R1", f"{vname}:optional-clause-guard", okg,
                       f"optional clause is written iff {gfield} is non-zero, and prints that same field" if okg else
                       f"optional clause guard is {show(guard[0])[:60] if guard else 'missing'} (taken on value {guard[1] if guard else '?'}); it must be `!<printed field>.amount.is_zero()`",
                       fc["site"], key=f"R1:{vname}:optional-guard")


def _holes_under(node):
    out = []
    if isinstance(node[1], Hole):
        return [node[1]]
    if isinstance(node[1], list):
        for c in node[1]:
            out += _holes_under(c)
    return out


def _const_strs(b):
    out = []

    def walk(o):
        if isinstance(o, dict):
            if "str" in o and "ty" in o:
                out.append(o["str"])
            for v in o.values():
                walk(v)
        elif isinstance(o, list):
            for v in o:
                walk(v)
    walk(b.blocks)
    walk(b.promoted)
    return out


def _call_const_args(b, method):
    """const str args of calls to trait method `method` -> list of tuples"""
    out = []
    tb = Terms(b._facts, b, inline_depth=0) if hasattr(b, "_facts") else None
    for i, t in b.calls():
        if parse_callee(t["callee"])[2] == method:
            cs = []
            for a in t["args"]:
                k = op_const(a)
                if k is not None and "str" in k:
                    cs.append(k["str"])
                else:
                    p = op_place(a)
                    if p is not None:
                        from flow import _const_through
                        kk = _const_through(b, a)
                        if kk is not None and "str" in kk:
                            cs.append(kk["str"])
            out.append(tuple(cs))
    return out


def json_names(F, rep):
    # (a) CurrencyAmount
    ser = [b for b in F.bodies.values() if b.id.startswith("<cgt_money::amount::CurrencyAmount as") and "ser::Serialize>::serialize" in b.id]
    vis = [b for b in F.bodies.values() if "CurrencyAmountVisitor" in b.id and b.id.endswith("visit_map")]
    if len(ser) != 1 or not vis:
        rep.unresolved("R2", "CurrencyAmount-serde", f"{len(ser)} serializers / {len(vis)} map visitors found")
    else:
        written = {c[0] for c in _call_const_args(ser[0], "serialize_field") if c}
        accepted = set()
        for b in vis:
            accepted |= set(_const_strs(b))
        for c in F.children(vis[0].id):
            accepted |= set(_const_strs(F.bodies[c]))
        rep.count("currency_amount_written_fields", sorted(written))
        for w in sorted(written):
            rep.ob("R2", f"CurrencyAmount.{w}", w in accepted, "field name written is a key the visitor accepts" if w in accepted else
                   f"serializer writes key `{w}` which the deserializer's visitor does not read (round trip loses it)", ser[0].loc(),
                   key=f"R2:CurrencyAmount:{w}")
        if len(written) < 2:
            rep.unresolved("R2", "CurrencyAmount-fields", "fewer than two field names found in the serializer")
    # (b) Operation tags vs normalisation
    oser = [b for b in F.bodies.values() if "ser::Serialize for cgt_core::models::Operation<M>>::serialize" in b.id]
    # the input normaliser: the cgt_core function that rewrites a `&mut serde_json::Value` in place (upper-casing the tag)
    FOLD = ("to_uppercase", "to_ascii_uppercase", "to_lowercase", "to_ascii_lowercase")

    def norm_family(x):
        """the normaliser with the same-crate helpers it calls (`canonical_action_name`), two levels"""
        fam, frontier = [x], [x]
        for _ in range(2):
            nxt = []
            for y in frontier:
                for _, t in y.calls():
                    for cid in [t["callee"]] + [a.get("k", {}).get("fn") for a in t["args"] if isinstance(a.get("k"), dict) and "fn" in a.get("k", {})]:
                        hb = F.bodies.get(cid) if cid else None
                        if hb is not None and hb.crate == "cgt_core" and hb not in fam and P.user_written(F, hb):
                            fam.append(hb)
                            nxt.append(hb)
                for cid in F.children(y.id):
                    if F.bodies[cid] not in fam:
                        fam.append(F.bodies[cid])
                        nxt.append(F.bodies[cid])
            frontier = nxt
        return fam
    norm = [x for x in F.bodies.values() if x.crate == "cgt_core" and x.kind == "fn" and any("&mut serde_json::value::Value" in x.local_ty(k + 1).replace("'_ ", "") for k in range(x.argc))
            and any(parse_callee(t["callee"])[2] in FOLD for y in norm_family(x) for _, t in y.calls())]
    if len(oser) != 1 or len(norm) != 1:
        rep.unresolved("R2", "Operation-tags", f"{len(oser)} derived serializers / {len(norm)} normalisers")
    else:
        tags = set()
        for c in _call_const_args(oser[0], "serialize_field"):
            if len(c) == 2 and c[0] == "action":
                tags.add(c[1])
        if not tags:
            # tagged struct variants: serialize_struct_variant-like helpers carry (tag key, variant name)
            strs = _const_strs(oser[0])
            tags = {s for s in strs if s.isupper()}
        nb = norm[0]
        nfam = norm_family(nb)
        nstrs = set()
        for y in nfam:
            nstrs |= set(_const_strs(y))
        upper = any(parse_callee(t["callee"])[2] in ("to_uppercase", "to_ascii_uppercase") for y in nfam for _, t in y.calls())
        lower = any(parse_callee(t["callee"])[2] in ("to_lowercase", "to_ascii_lowercase") for y in nfam for _, t in y.calls())
        remap_keys = set()
        remap_vals = set()
        for y in nfam:
            tbn = Terms(F, y, inline_depth=0)
            for i, t in y.calls():
                st, tr, m = parse_callee(t["callee"])
                if m in ("eq", "ne") and len(t["args"]) == 2:
                    for a in t["args"]:
                        from flow import _const_through
                        k = _const_through(y, a)
                        if k is not None and "str" in k:
                            remap_keys.add(k["str"])
            for s_ in y.reachable():
                sw_ = y.term(s_)
                if sw_["k"] == "switch":
                    for x in subterms(tbn.operand(sw_["discr"])):
                        if isinstance(x, tuple) and x and x[0] == "cmp" and x[1] in ("Eq", "Ne"):
                            for side in (x[2], x[3]):
                                if isinstance(side, tuple) and side and side[0] == "str":
                                    remap_keys.add(side[1])
        remap_vals = {s for s in nstrs if s.isupper() and s not in remap_keys and " " not in s and "'" not in s}
        rep.count("operation_tags", sorted(tags))
        rep.count("normaliser_remap", {"keys": sorted(remap_keys), "values": sorted(remap_vals)})
        if len(tags) < 7:
            rep.unresolved("R2", "tags", f"only {len(tags)} variant tags recovered from the derived serializer")
        for tg in sorted(tags):
            ok = (tg.upper() == tg if upper else (tg.lower() == tg if lower else True)) and tg not in remap_keys
            rep.ob("R2", f"tag:{tg}", ok, "tag written by the serializer is left unchanged by the input normalisation" if ok else
                   f"tag `{tg}` is changed by normalize_operation_action (case folding or remap): the tool cannot read its own JSON",
                   nb.loc(), key=f"R2:tag:{tg}")
        for v in sorted(remap_vals):
            rep.ob("R2", f"remap→{v}", v in tags, "remap target is a real variant tag" if v in tags else
                   f"normaliser maps an alias to `{v}`, which is not a tag of Operation", nb.loc(), key=f"R2:remap:{v}")
    # (c) Transaction outer names
    tser = [b for b in F.bodies.values() if "ser::Serialize for cgt_core::models::Transaction>::serialize" in b.id]
    tde = [b for b in F.bodies.values() if "models::Transaction as serde_core::de::Deserialize" in b.id]
    # the hand-written impl may delegate: to the derived Deserialize of a raw helper struct declared at module level, and to a
    # conversion (`TryFrom<RawTransaction>`) that builds the Transaction — all of them are "the deserializer"
    if tde:
        cg = F.callgraph()
        seen_ids = {b.id for b in tde}
        # `raw.try_into()` reaches the user's `TryFrom<Raw..> for Transaction` through std's blanket impl, which the call graph
        # does not look into: conversions INTO Transaction defined in the models module belong to its reader
        if any(parse_callee(t["callee"])[2] in ("try_into", "try_from", "into", "from") for b in tde for _, t in b.calls()):
            seen_ids |= {b.id for b in F.bodies.values() if b.id.startswith("<cgt_core::models::Transaction as core::convert::") and "From<" in b.id}
        frontier = list(seen_ids)
        for _ in range(4):
            nxt = []
            for bid in frontier:
                for cid in cg.get(bid, ()):
                    hb = F.bodies.get(cid)
                    if hb is None or cid in seen_ids or hb.crate != "cgt_core" or "::models::" not in cid:
                        continue
                    if "Operation" in cid and "Deserialize" in cid:
                        continue        # the operation's own (derived) reader is judged in (b)
                    seen_ids.add(cid)
                    nxt.append(cid)
            frontier = nxt
        # derived Deserialize bodies of the raw helper struct (visitor methods are separate bodies of the same impl)
        raw_adts = {m.group(1) for bid in seen_ids for m in [re.search(r"<(cgt_core::models::\w+) as serde_core::de::Deserialize", bid)] if m}
        for b in F.bodies.values():
            if any(f"{a}" in b.id and "Deserialize" in b.id for a in raw_adts) or any(b.id.startswith(f"<{a} as") and "Deserialize" in b.id for a in raw_adts):
                seen_ids.add(b.id)
            for a in raw_adts:
                if a.split("::")[-1] in b.id and "_::" in b.id and "serde" in b.id:
                    seen_ids.add(b.id)
        tde = [F.bodies[x] for x in sorted(seen_ids)]
    if len(tser) == 1 and tde:
        wrote = {c[0] for c in _call_const_args(tser[0], "serialize_entry") + _call_const_args(tser[0], "serialize_field") if c}
        if not wrote:
            wrote = {s for s in _const_strs(tser[0]) if s.islower()}
        read = set()
        for b in tde:
            read |= {s for s in _const_strs(b) if s.islower() and " " not in s}
        for w in sorted(wrote):
            rep.ob("R2", f"Transaction.{w}", w in read, "outer field name is read back by the hand-written deserializer" if w in read else
                   f"Transaction serializer writes `{w}` but its deserializer's RawTransaction does not read it", tser[0].loc(),
                   key=f"R2:Transaction:{w}")
        flat_w = any("FlatMapSerializer" in t["callee"] or "FlatMap" in " ".join(t.get("gargs") or []) for _, t in tser[0].calls())
        flat_r = any("FlatMap" in t["callee"] or "FlatMap" in " ".join(t.get("gargs") or []) for b in tde for _, t in b.calls())
        rep.ob("R2", "Transaction:flatten", flat_w and flat_r, "operation is flattened on both sides" if flat_w and flat_r else
               f"flatten mismatch: serializer flattens={flat_w}, deserializer flattens={flat_r}", tser[0].loc(), key="R2:Transaction:flatten")
        # ticker normalisation on JSON input
        manual = [b for b in tde if any(s_["rv"]["k"] == "agg" and s_["rv"]["adt"] == "cgt_core::models::Transaction" for _, _, s_ in b.assigns())]
        if not manual:
            rep.unresolved("R2", "Transaction-deserializer", "no deserializer body constructs Transaction")
        for b in manual:
            up = any(parse_callee(t["callee"])[2] == "to_uppercase" for _, t in b.calls())
            rep.ob("R2", "Transaction:ticker-uppercase", up, "JSON tickers are upper-cased like DSL tickers" if up else
                   "JSON deserializer does not upper-case the ticker", b.loc(), key="R2:Transaction:ticker-case")
    else:
        rep.unresolved("R2", "Transaction-serde", f"{len(tser)} serializers / {len(tde)} deserializer bodies")


def _sniff_outcomes(F, h):
    """h classifies its input by one `starts_with` test: -> (the starts_with call term, {True: value returned on the true edge,
    False: value on the false edge}) with values spelled like switch targets (variant index / 0 / 1), else None"""
    if len(h.blocks) > 40:
        return None
    tb = Terms(F, h, inline_depth=0)
    tests = []
    for s in h.reachable():
        t = h.term(s)
        if t["k"] == "switch":
            c = tb.operand(t["discr"])
            if isinstance(c, tuple) and c and c[0] == "call" and parse_callee(c[1])[2] == "starts_with":
                tests.append((s, t, c))
    if len(tests) != 1:
        return None
    s, t, c = tests[0]
    false_t = [x for v, x in t["targets"] if v == "0"]
    if not false_t:
        return None

    def returned(start, other):
        only = h.reach_from(start) - h.reach_from(other)
        vals = set()
        for i, si, st in h.assigns():
            if i in only | {start} and st["lhs"]["l"] == 0 and not place_proj(st["lhs"]):
                rv = st["rv"]
                if rv["k"] == "agg" and rv.get("variant") is not None:
                    adt = F.adts.get(rv["adt"])
                    names = [v["name"] for v in adt["variants"]] if adt else []
                    if rv["variant"] in names:
                        vals.add(str(names.index(rv["variant"])))
                elif rv["k"] == "use":
                    k = op_const(rv["op"])
                    if k is not None:
                        vals.add("1" if k.get("disp") == "true" else "0" if k.get("disp") == "false" else str(k.get("int")))
        return vals
    a, b_ = returned(t["otherwise"], false_t[0]), returned(false_t[0], t["otherwise"])
    if len(a) != 1 or len(b_) != 1 or a == b_:
        return None
    return c, {True: next(iter(a)), False: next(iter(b_))}


def mcp_routing(F, rep):
    import panics as P
    from flow import effect_helpers
    to_parser = effect_helpers(F, lambda cal: cal.endswith("parser::parse_file"), ("cgt_mcp",), P.user_written)
    to_json = effect_helpers(F, lambda cal: "serde_json" in cal and "from_str" in cal, ("cgt_mcp",), P.user_written)
    # the sniffer: the cgt_mcp function from which both readers are reached and that branches on a `starts_with` test
    cands = []
    for b in F.bodies.values():
        if b.crate != "cgt_mcp" or b.kind not in ("fn", "method") or not P.user_written(F, b) or b.id not in to_parser or b.id not in to_json:
            continue
        tb = Terms(F, b, inline_depth=1)
        for s in b.reachable():
            t = b.term(s)
            if t["k"] == "switch":
                c = tb.operand(t["discr"])
                if isinstance(c, tuple) and c and c[0] == "call" and parse_callee(c[1])[2] == "starts_with":
                    cands.append((b, tb, s, t, c))
    via = None
    if not cands:
        # the test may live in a helper that classifies the input (`match InputFormat::sniff(trimmed) { Json => .., Dsl => .. }`):
        # the helper's starts_with edges are mapped to the enum variant (or bool) it returns on each, and the caller's switch on
        # that value is read as the switch on the test
        for b in F.bodies.values():
            if b.crate != "cgt_mcp" or b.kind not in ("fn", "method") or not P.user_written(F, b) or b.id not in to_parser or b.id not in to_json:
                continue
            tb = Terms(F, b, inline_depth=0)
            for s in b.reachable():
                t = b.term(s)
                if t["k"] != "switch":
                    continue
                c = tb.operand(t["discr"])
                call = c[1] if isinstance(c, tuple) and c and c[0] == "discr" else c
                if not (isinstance(call, tuple) and call and call[0] == "call" and call[1] in F.bodies):
                    continue
                out = _sniff_outcomes(F, F.bodies[call[1]])
                if out is not None:
                    cands.append((b, tb, s, t, out[0]))
                    via = out[1]
    if len(cands) != 1:
        rep.unresolved("R3", "SNIFFER", f"{len(cands)} input sniffers (starts_with test in a function reaching both readers) in cgt_mcp")
        return
    b, tb, s, t, c = cands[0]
    ch = c[2][1]
    is_br = ch == ("int", ord("[")) or ch == ("str", "[")
    if via is None:
        true_t = t["otherwise"]
        false_t = [x for v, x in t["targets"] if v == "0"]
    else:
        def edge(val):
            hit = [x for v, x in t["targets"] if v == val]
            return hit[0] if hit else t["otherwise"]
        true_t = edge(via[True])
        false_t = [edge(via[False])]
    tr = b.reach_from(true_t)
    fr = b.reach_from(false_t[0]) if false_t else set()
    is_json = lambda cal: ("serde_json" in cal and "from_str" in cal) or (cal in to_json and cal not in to_parser)
    is_dsl = lambda cal: cal.endswith("parser::parse_file") or (cal in to_parser and cal not in to_json)
    json_true = any(b.term(x)["k"] == "call" and is_json(b.term(x)["callee"]) for x in tr - fr)
    dsl_false = any(b.term(x)["k"] == "call" and is_dsl(b.term(x)["callee"]) for x in fr - tr)
    json_false = any(b.term(x)["k"] == "call" and is_json(b.term(x)["callee"]) for x in fr - tr)
    dsl_true = any(b.term(x)["k"] == "call" and is_dsl(b.term(x)["callee"]) for x in tr - fr)
    ok = is_br and json_true and dsl_false and not json_false and not dsl_true
    why = ("'['-prefixed input goes to serde_json::from_str, everything else to the shared DSL parser" if ok else
           f"sniffer tests starts_with({show(ch)}); json-on-true={json_true}, dsl-on-false={dsl_false}, json-on-false={json_false}, dsl-on-true={dsl_true}")
    rep.ob("R3", "parse_input:routing", ok, why, b.loc(), key="R3:parse_input:routing")
    # the DSL-writing tool reaches the shared writer
    to_writer = effect_helpers(F, lambda cal: cal.endswith("dsl::transactions_to_dsl") or cal.endswith("dsl::transaction_to_dsl"), ("cgt_mcp",), P.user_written)
    tools = [tid for tid, kids in P.mcp_tool_bodies(F).items() if "convert_to_dsl" in tid]
    hit = any(tid in to_writer or any(k in to_writer for k in P.mcp_tool_bodies(F)[tid]) for tid in tools)
    rep.ob("R3", "convert_to_dsl→transactions_to_dsl", hit, "the convert_to_dsl tool calls the shared writer" if hit else
           "the convert_to_dsl tool does not reach cgt_core::dsl::transactions_to_dsl", F.bodies[tools[0]].loc() if tools else "", key="R3:convert_to_dsl:shared")


def token_languages(ctx, rep):
    """R4 (tokens): R1 matches a placeholder against a token rule by KIND (a ticker goes where the grammar wants a ticker); this
    rule decides that the token rule really accepts every text the writer can put there: any non-empty alphanumeric ticker, any
    `digits[.digits]` decimal (what Decimal's Display prints for a non-negative value), any `dddd-dd-dd` date. The token rules
    are evaluated as PEGs at character level on all words up to a bound over representative characters of each class
    (bounded: length ≤ 4 for tickers, ≤ 6 for decimals; exact length for dates)."""
    import itertools
    import re
    from grammar import ATOM_KIND
    g = Grammar(ctx.S["grammar"])

    def words(alpha, lo, hi):
        for n in range(lo, hi + 1):
            for w in itertools.product(alpha, repeat=n):
                yield "".join(w)
    n = 0
    for rule, kind in ATOM_KIND.items():
        if rule not in g.rules or not g.is_atomic(rule):
            continue
        if kind == "ticker":
            expect = words("07AZaz", 1, 4)
            what = "alphanumeric ticker"
        elif kind == "decimal":
            pat = re.compile(r"[0-9]+(\.[0-9]+)?")
            expect = (w for w in words("07.", 1, 6) if pat.fullmatch(w))
            what = "non-negative decimal as printed by Display"
        elif kind == "date":
            expect = ("".join(d[:4]) + "-" + "".join(d[4:6]) + "-" + "".join(d[6:]) for d in itertools.product("09", repeat=8))
            what = "date as printed by %Y-%m-%d"
        else:
            continue
        n += 1
        bad = next((w for w in expect if not g.lex_accepts(rule, w)), None)
        rep.ob("R4", f"token:{rule}", bad is None, f"token rule `{rule}` accepts every {what} (bounded enumeration)" if bad is None else
               f"the writer can print the {what} `{bad}` where the grammar wants `{rule}`, but the token rule does not match it: "
               "the written ledger does not parse back", "crates/cgt-core/src/parser.pest", key=f"R4:token:{rule}")
    rep.count("token_rules_checked", n)
    if n < 4:
        rep.unresolved("R4", "token-rules", f"only {n} token rules found (date, ticker and the decimal tokens expected)")


def json_reader_domain(F, rep):
    """R5 (the JSON reader accepts what the DSL expresses): the hand-written validation behind Transaction's Deserialize may refuse
    a share quantity or a ratio that is zero or negative and a money amount that is negative — nothing else. A reader that also
    refuses, say, a zero price rejects the JSON rendering of a ledger the DSL parser accepts (seeded change C14-s4)."""
    import rules.c15 as c15
    from rules.c08 import _R
    cands = [b for b in F.bodies.values() if b.crate == "cgt_core" and "::models::" in b.id and b.kind in ("fn", "method") and P.user_written(F, b)
             and b.argc >= 1 and "Operation<" in b.local_ty(1) and b.ret.replace(" ", "").startswith("core::result::Result<(),alloc::string::String>")]
    if len(cands) != 1:
        rep.unresolved("R5", "json-validation", f"{len(cands)} functions validate an Operation for the JSON reader")
        return
    v = cands[0]
    rg = _R(F).region(v, depth=3, arg_depth=2)
    got = {}

    def resolve(t, depth=0):
        """the constructed value a projection `field(base, name)` denotes, when base is built in sight"""
        if not isinstance(t, tuple) or not t or depth > 8 or t[0] != "field":
            return None
        base = t[1]
        if not isinstance(base, tuple) or not base:
            return None
        if base[0] == "agg":
            return dict(base[3]).get(t[2])
        if base[0] == "dc" and isinstance(base[1], tuple) and base[1]:
            inner = base[1]
            if inner[0] == "agg" and inner[2] == base[2]:
                return dict(inner[3]).get(t[2])
            if inner[0] == "some" and base[2] == "Some" and t[2] == "0":
                return inner[1]
            if inner[0] == "phi":
                alts = [resolve(("field", ("dc", a, base[2]), t[2]), depth + 1) for a in inner[1]
                        if not (isinstance(a, tuple) and a and a[0] == "agg" and a[2] != base[2])]
                alts = [a for a in alts if a is not None]
                return ("phi", tuple(alts)) if alts else None
        if base[0] == "field":
            r = resolve(base, depth + 1)
            return resolve(("field", r, t[2]), depth + 1) if r is not None else None
        if base[0] == "phi":
            alts = [resolve(("field", a, t[2]), depth + 1) for a in base[1]]
            alts = [a for a in alts if a is not None]
            return ("phi", tuple(alts)) if alts else None
        return None

    def subjects(t, depth=0):
        """the (variant, field) pairs a tested value stands for: through carrier structs (`check.value` of a check built from
        `*amount`) and through a φ of several variants' fields (`let (amount, action) = match op {..}`)"""
        if not isinstance(t, tuple) or not t or depth > 8:
            return []
        vf = c15._variant_field(t)
        if vf and vf[1]:
            return [vf]
        if t[0] == "phi":
            return [x for a in t[1] for x in subjects(a, depth + 1)]
        if t[0] == "field" and isinstance(t[1], tuple) and t[1]:
            base = t[1]
            if base[0] == "agg":
                fv = dict(base[3]).get(t[2])
                return subjects(fv, depth + 1) if fv is not None else []
            if base[0] == "tuple" and str(t[2]).isdigit() and int(t[2]) < len(base[1]):
                return subjects(base[1][int(t[2])], depth + 1)
            if base[0] == "phi":
                return [x for a in base[1] for x in subjects(("field", a, t[2]), depth + 1)]
            if base[0] in ("var",) and len(base) > 2:
                return subjects(("field", base[2], t[2]), depth + 1)
            if base[0] == "dc" and isinstance(base[1], tuple) and base[1]:
                # payload of Some(..)/Ok(..) of a value built elsewhere
                inner = base[1]
                if inner[0] == "phi":
                    return [x for a in inner[1] for x in subjects(("field", ("dc", a, base[2]), t[2]), depth + 1)]
                if inner[0] == "agg" and inner[2] == base[2]:
                    fv = dict(inner[3]).get(t[2])
                    return subjects(fv, depth + 1) if fv is not None else []
                if inner[0] == "some" and base[2] == "Some" and t[2] == "0":
                    return subjects(inner[1], depth + 1)
            if base[0] == "field":
                # x.0.value: resolve the inner projection first when it lands on a constructed value
                inner = resolve(base, depth + 1)
                if inner is not None:
                    return subjects(("field", inner, t[2]), depth + 1)
        if t[0] in ("some", "cast", "ref", "deref", "copy") and isinstance(t[-1], tuple):
            return subjects(t[-1], depth + 1)
        if t[0] == "var" and len(t) > 2:
            return subjects(t[2], depth + 1)
        return []
    for ex in rg.expansions:
        hb, ht, conv = ex["body"], ex["tb"], ex["conv"]
        for i, si, s in hb.assigns():
            rv = s["rv"]
            if rv["k"] == "agg" and rv.get("variant") == "Err" and "Result" in rv["adt"]:
                for subj, classes in c15._guards(hb, ht, i):
                    for vf in subjects(conv(subj)):
                        got.setdefault(vf, set()).update(classes)
    n = 0
    for (variant, field), classes in sorted(got.items()):
        n += 1
        allowed = {"-", "0"} if field in ("amount", "ratio") else {"-"}
        ok = classes <= allowed
        rep.ob("R5", f"json-reader:{variant}.{field}", ok, f"refused only for sign classes {sorted(classes)}" if ok else
               f"the JSON reader refuses {variant}.{field} when its sign is in {sorted(classes)}; the DSL (and the JSON writer) produce "
               f"{sorted(classes - allowed)} values there, so a valid ledger's JSON rendering does not read back", v.loc(), key=f"R5:json-reader:{variant}.{field}")
    rep.count("json_reader_refusals", n)
    if n < 4:
        rep.unresolved("R5", "json-reader-table", f"only {n} refusal conditions found in the JSON reader's validation (quantities and ratios expected)")


def _variant_by_evaluation(rep, S, g, cons, cmd, vname, label, txt, base, holes_under, variant_field_name, root_field):
    from consume import Evaluator, marked, find_structs, atoms_in
    try:
        E = Evaluator(g, cons)
        mt = marked(cmd)
        val = E.consume(mt)
    except Exception:
        return False
    sts = find_structs(val, "Operation::")
    if not sts:
        return False
    built = sts[0][1].split("::")[-1]
    cname = cmd[0]
    rep.ob("R1", f"{vname}:{label}:same-variant", built == vname,
           f"text written for Operation::{vname} parses through `{cname}` back to Operation::{built}" if built == vname else
           f"text written for Operation::{vname} (`{txt}`) is parsed by `{cname}` into Operation::{built}",
           base["site"], key=f"R1:{vname}:variant-mismatch")
    fields = sts[0][2]
    for i, kid in enumerate(cmd[1]):
        if not isinstance(kid, tuple) or kid[0] == "ticker":
            continue
        marks = atoms_in(E.consume(mt[1][i])) if i < len(mt[1]) else set()
        if not marks:
            continue
        targets = [fn_ for fn_, fv in fields.items() if atoms_in(fv) & marks]
        if len(targets) != 1:
            continue
        target = targets[0]
        for h in holes_under(kid):
            names, var = root_field(h.term)
            vf = variant_field_name(h.term)
            okf = vf == target and (var in (None, vname))
            rep.ob("R1", f"{vname}:{label}:{kid[0]}→{target}", okf,
                   f"grammar position `{kid[0]}` is read into `{target}` and the writer prints `{'.'.join(names)}` there" if okf else
                   f"grammar position `{kid[0]}` is read into Operation::{vname}.{target} but the writer prints {show(h.term)[:70]} there: fields are swapped on a round trip",
                   base["site"], key=f"R1:{vname}:{kid[0]}-field")
    return True


def token_conversions(F, rep):
    """R6 (the DSL reader accepts every number and date the grammar accepts and the library can hold): in the parser module the text
    of a `decimal` / `date` token is handed to the library conversion (`Decimal::from_str`, `NaiveDate::parse_from_str`) and the
    only refusal is the conversion's own failure. An error built BEFORE the conversion — a length or scale test on the token text
    (seeded change C14-s7 refused 28 fractional digits, which the writer itself prints for 1/3) — makes values unreadable that
    the writer and the JSON rendering carry."""
    from mir import parse_callee
    n = 0
    for b in F.bodies.values():
        if b.crate != "cgt_core" or "::parser::" not in b.id or b.kind == "closure" or not P.user_written(F, b):
            continue
        conv = [(i, t) for i, t in b.calls() if parse_callee(t["callee"])[2] in ("from_str", "parse_from_str", "from_str_exact", "from_str_radix", "from_scientific")
                and ("rust_decimal" in t["callee"] or "chrono::" in t["callee"] or "Decimal" in t["callee"] or "NaiveDate" in t["callee"])]
        if not conv:
            continue
        errs = [(i, t) for i, t in b.calls() if (parse_callee(t["callee"])[2] == "error" and "pest_consume" in t["callee"]) or "::error::Error::<R>::new_from" in t["callee"]]
        n += 1
        early = [(i, t) for i, t in errs if not any(b.dominates(ci, i) for ci, _ in conv)]
        ok = not early
        what = parse_callee(conv[0][1]["callee"])
        rep.ob("R6", f"{b.short}:conversion-only-refusal", ok, f"the token text goes to {what[0] or ''}::{what[2]} and only its failure is an error" if ok else
               f"`{b.short}` builds a parse error before the library conversion ({len(early)} site(s)): token texts the grammar accepts and the conversion can hold are refused, "
               "so a value the writer prints (or JSON carries) does not read back", b.loc(early[0][1]["sp"]) if early else b.loc(), key=f"R6:{b.short}:pre-conversion-refusal")
    rep.count("token_conversions", n)
    if n < 1:
        rep.unresolved("R6", "token-conversions", f"only {n} library conversions of token text found in the parser module (decimal and date expected)")


LIST_REORDERING = ("sort", "sort_by", "sort_by_key", "sort_by_cached_key", "sort_unstable", "sort_unstable_by", "sort_unstable_by_key", "reverse", "rev",
                   "rotate_left", "rotate_right", "swap", "dedup", "dedup_by", "dedup_by_key", "retain", "retain_mut", "filter", "filter_map", "skip",
                   "skip_while", "take", "take_while", "step_by", "truncate", "drain", "remove", "pop", "swap_remove", "split_off", "chunk_by", "last",
                   "nth", "max_by_key", "min_by_key")


def list_writer_keeps_order(F, rep):
    """R1 (the LIST round-trips, not only each line): `parse(write(t)) = t` for a list means one line per transaction, in the order of
    the list. The list-level writer — the function(s) of the dsl module from which the per-transaction writer is reached — neither
    reorders nor thins the list: no sort (direct or through a workspace sort helper), `rev`, `dedup`, `retain`, `filter`, `skip`, `take`…
    A writer that sorts by date and ticker "so that the file reads chronologically" returns another list for every ledger not already in
    that order, and changes which same-day lines are adjacent for the matcher's merge (seeded change C14-s9)."""
    from flow import sort_wrappers
    ws = find_writer(F)
    if len(ws) != 1:
        return
    w = ws[0][0]
    wrappers = sort_wrappers(F)
    cg = F.callgraph()
    def reaches(x, depth=3):
        seen, todo = set(), [(x, 0)]
        while todo:
            y, d = todo.pop()
            if y in seen or d > depth:
                continue
            seen.add(y)
            if y == w.id:
                return True
            todo += [(z, d + 1) for z in cg.get(y, ()) if z in F.bodies and F.bodies[z].crate == "cgt_core"]
        return False
    tops = [b for b in F.bodies.values() if b.crate == "cgt_core" and b.id != w.id and b.kind in ("fn", "method") and "::tests::" not in b.id
            and w.id.rsplit("::", 1)[0] == b.id.rsplit("::", 1)[0] and P.user_written(F, b) and reaches(b.id)]
    if not tops:
        rep.unresolved("R1", "LIST-WRITER", f"no function of the writer's module reaches the per-transaction writer {w.short}")
        return
    for top in tops:
        region = [top] + [c for c in F.bodies.values() if c.kind == "closure" and c.id.startswith(top.id + "::")]
        bad = []
        for x in region:
            for _, t in x.calls():
                m = parse_callee(t["callee"])[2]
                if t["callee"] in wrappers:
                    bad.append((x, t, f"{t['callee'].split('::')[-1]} (sorts its argument)"))
                elif m in LIST_REORDERING and ("slice" in t["callee"] or "vec::Vec" in t["callee"] or "iter" in t["callee"].lower()):
                    bad.append((x, t, m))
        rep.ob("R1", f"{top.short}:list-order-kept", not bad, f"`{top.short}` writes one line per transaction in the order of its argument" if not bad else
               f"`{top.short}` calls " + ", ".join(f"`{m}`" for _, _, m in bad[:3]) + " on the way to the per-transaction writer: the written list is not the "
               "list it was given (reordered or thinned), so reading it back yields another list", bad[0][0].loc(bad[0][1]["sp"]) if bad else top.loc(),
               key=f"R1:{top.short}:list-reordered")
    rep.count("list_writers", [t.short for t in tops])


def currency_kept_as_written(F, rep):
    """R1 (the code that is read is the code that was written): in the DSL parser, the DSL writer and the money type's own
    (de)serialisers a currency is only ever LOOKED UP (`Currency::from_code`) or copied — no other function of the ISO table that yields
    a currency (`is_superseded`, `from_numeric`, `from_country`, …) is applied on the way. A parser that resolves a withdrawn code to its
    successor reads `75.50 HRK` back as 75.50 EUR, while the writer and the JSON reader keep HRK (seeded change C14-s10)."""
    n, bad = 0, []
    for b in F.bodies.values():
        if not ("cgt_core::parser" in b.id or "cgt_core::dsl" in b.id or "cgt_money::amount" in b.id) or "::tests::" in b.id:
            continue
        for i, t in b.calls():
            if "iso_currency" not in t["callee"]:
                continue
            m = parse_callee(t["callee"])[2]
            if m == "from_code":
                n += 1
                continue
            if re.search(r"iso_currency::Currency(?![A-Za-z_])", t.get("dty") or "") and m not in ("clone", "from_code", "borrow", "deref", "as_ref"):
                bad.append((b, t, m))
    rep.ob("R1", "currency:kept-as-written", not bad, f"{n} ISO look-ups in the DSL parser and the money (de)serialisers, no other currency-valued function of the ISO table is applied" if not bad else
           "; ".join(f"`{b.short}` applies `Currency::{m}`" for b, t, m in bad[:3]) + ": the currency that is read is not the one that was written — "
           "the round trip returns another code for some amounts", bad[0][0].loc(bad[0][1]["sp"]) if bad else "", key="R1:currency:rewritten-on-read")
    if n < 2:
        rep.unresolved("R1", "currency-lookups", f"only {n} Currency::from_code sites found in the DSL parser / money deserialiser (2 expected)")


def run(ctx, rep):
    if ctx.S is None or "error" in ctx.S["grammar"]:
        rep.unresolved("R1", "grammar", "grammar facts unavailable")
    else:
        writer_vs_grammar(ctx, rep)
        token_languages(ctx, rep)
        # reading back what was written: the consumers hand every written clause's own value to the operation (a FEES amount
        # keeps its amount AND its currency) and default only what is absent — decided by symbolic evaluation of the consumers over
        # the derivation trees (shared with C13-R6; seeded change C14-s5 rewrote an explicit GBP fee to the price currency)
        import rules.c13 as c13
        from core import Report
        r2 = Report("tmp")
        c13.defaults(ctx.S, Grammar(ctx.S["grammar"]), r2)
        for o in r2.obligations:
            rep.ob("R1", "reader:" + o["instance"], o["ok"], o["detail"], o["site"], key="R1:reader:" + o["instance"])
    list_writer_keeps_order(ctx.F, rep)
    currency_kept_as_written(ctx.F, rep)
    json_names(ctx.F, rep)
    json_reader_domain(ctx.F, rep)
    token_conversions(ctx.F, rep)
    mcp_routing(ctx.F, rep)


def controls(pctx, rep):
    """string synthesis must still read a format!, a `&mut String` helper, push and push_str"""
    F = pctx.F
    try:
        b = F.one("strsyn_two_alternatives")
        got = sorted({"".join(p[1] if p[0] == "lit" else "{}" for p in (r["parts"] or [])) for r in StrSyn(F).returns(b)})
        rep.control("R1:strsyn", got == ["X {}", "X {} Y"], f"posctl::strsyn_two_alternatives synthesises {got} (expected ['X {{}}', 'X {{}} Y'])")
    except Exception as e:
        rep.control("R1:strsyn", False, f"string synthesis failed on posctl::strsyn_two_alternatives: {e}")
