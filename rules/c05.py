"""C05 — a report exactly when every sale is covered (structural clauses)."""
from mir import Terms, parse_callee, show, op_place, op_const, place_proj, subterms, is_decimal_arith_assign
from flow import root_of_operand, format_calls, template_text
from roles import Roles, RULES, POOL, LOT, agg_fields, guards_of, truth, is_agg
import panics as P

META = {
    "explanation": (
        "R1 (MPT + PROV): in the sell cascade all three leg producers are dominated by the holding guard — the false edge of "
        "`sale amount > held` whose true edge returns Err — and the guard's operands are the sale's own amount, the unmatched "
        "lots of the sale's own date and ticker, and the pool quantity of the sale's own ticker. R2 (ORDER): in every front-end "
        "(CLI, MCP tools, wasm) no output/response construction is reachable from the error edge of the calculate() call, and "
        "every output is dominated by that call. R3 (EFF, 'a leg must debit what the guard reads'): the guard reads lot "
        "availability counters and pool.quantity; every leg producer's transitive write set must intersect those locations, "
        "otherwise a disposal it records leaves the guarded holding untouched and the same shares can be sold again. R4 (PROV): "
        "every error built in the cascade formats the sale's ticker and date. R5: the quantities the guard reads are maintained by "
        "paired updates (shared with C02-R3: recorded = debited; pooled = marked on the lots). Does not decide the iff over histories nor the "
        "decimal-residue refusal after a 3-for-1 split. R5 also: within one date the SPLIT/UNSPLIT pass strictly follows the pooling of that date's purchases (shared with C01-R2/C10-R7). R6: candidate purchases and ratio updates of the 30-day look-ahead sit under the ticker guard (shared with C02-R6/C09-R2), so another security's SPLIT cannot make the guarded holding drift."),
    "trusted_base": ["rustc MIR + resolution", "callee write sets are computed over workspace bodies only"],
}

# everything that makes a report (or an empty stand-in for one) visible: printing, writing a file, creating/truncating one
OUTPUTS = ("std::io::stdio::_print", "std::fs::write", "std::fs::File::create", "std::fs::OpenOptions::open", "std::fs::File::create_new",
           "rmcp::model::CallToolResult::success")


def _exceeds_test(cond):
    """cond is a comparison of a sale amount with a holding -> (amount term, holding term, edge on which amount > holding:
    'true' | 'false', strict?) or None. `amount > held` / `held < amount` err on the true edge; `amount <= held` /
    `held >= amount` err on the false edge; the other four spellings refuse an exactly covered sale (not strict)."""
    if not (isinstance(cond, tuple) and cond and cond[0] == "cmp" and cond[1] in ("Gt", "Lt", "Ge", "Le")):
        return None
    op, x, y = cond[1], cond[2], cond[3]
    if show(x).endswith("as Sell).amount"):
        amt, held = x, y
    elif show(y).endswith("as Sell).amount"):
        amt, held = y, x
        op = {"Gt": "Lt", "Lt": "Gt", "Ge": "Le", "Le": "Ge"}[op]
    else:
        return None
    # now: amt OP held
    return {"Gt": (amt, held, "true", True), "Le": (amt, held, "false", True),
            "Ge": (amt, held, "true", False), "Lt": (amt, held, "false", False)}[op]


def holding_guard(R, rep):
    """The guard may sit in the cascade itself or in a helper the cascade calls first and whose error it propagates (`?`);
    in both cases it is evaluated in the cascade's terms."""
    from mir import subst, expand_closures
    c = R.require("cascade")
    legs = {r: R.leg(r)[0].id for r in RULES}
    sites = {r: [i for i, t in c.calls() if t["callee"] == legs[r]] for r in RULES}
    ctb = R.terms(c, 2)
    contexts = [(c, R.terms(c, 1), (lambda t: t), None)]
    for i, t in c.calls():
        hb = R.F.bodies.get(t["callee"])
        if hb is not None and hb.id not in legs.values() and hb.crate == c.crate and "Result" in hb.ret and P.user_written(R.F, hb) and hb.kind in ("fn", "method"):
            args = [ctb.operand(a) for a in t["args"]]
            contexts.append((hb, R.terms(hb, 1), (lambda term, A=args: subst(term, A)), (i, t)))
    guard = None
    for gb, gtb, conv, call in contexts:
        for s in gb.reachable():
            sw = gb.term(s)
            if sw["k"] != "switch":
                continue
            ex = _exceeds_test(conv(gtb.operand(sw["discr"])))
            if ex is None:
                continue
            txt = show(ex[1], 0)
            if "quantity" in txt or "remaining_for_date" in txt or "available" in txt or "+" in txt:
                guard = (gb, s, sw, ex, call)
                break
        if guard:
            break
    if guard is None:
        rep.ob("R1", "cascade:holding-guard", False, "no `sale amount > holding → Err` test found in the sell cascade: any sale is matched without checking that the shares are held",
               c.loc(), key="R1:cascade:guard-missing")
        return None
    gb, s, sw, (lhs, rhs, err_edge, strict), call = guard
    true_t = sw["otherwise"]
    false_t = [x for v, x in sw["targets"] if v == "0"][0]
    err_t, pass_t = (true_t, false_t) if err_edge == "true" else (false_t, true_t)
    err_arm = {x for x in gb.reach_from(err_t) if gb.dominates(err_t, x)}
    returns_err = any(st["rv"]["k"] == "agg" and st["rv"].get("variant") == "Err" for x in err_arm for st in gb.stmts(x) if "rv" in st)
    pass_clean = True
    if gb is not c:
        # in a helper the passing edge must not build an Err either
        pass_arm = {x for x in gb.reach_from(pass_t) if gb.dominates(pass_t, x)}
        pass_clean = not any(st["rv"]["k"] == "agg" and st["rv"].get("variant") == "Err" for x in pass_arm for st in gb.stmts(x) if "rv" in st)
    rep.ob("R1", "guard:exceeds→Err", returns_err and strict and pass_clean, "a sale exceeding the holding returns Err (a sale equal to it passes)" if returns_err and strict and pass_clean else
           f"guard refuses on `amount {'>' if strict else '>='} holding` and that edge {'returns Err' if returns_err else 'does not return Err'}: covered sales may be refused or uncovered ones accepted",
           gb.loc(sw["sp"]), key="R1:guard:shape")
    for r in RULES:
        for i in sites[r]:
            if gb is c:
                ok = c.edge_dominates((s, pass_t), i)
            else:
                ci, ct = call
                ok = c.dominates(ci, i) and _break_arm_misses(c, ctb, ci, ct, i)
            rep.ob("R1", f"guard≺{r}", ok, f"{r} matching runs only after the holding check passed" if ok else
                   f"{r} matching is reachable without passing the holding check", c.loc(), key=f"R1:guard-dominates:{r}")
    # operands (closures passed to Option::map are expanded so that the data they read is visible)
    rhs = expand_closures(R.F, rhs)
    parts = rhs[1] if isinstance(rhs, tuple) and rhs[0] == "+" else [rhs]
    # the sale transaction: T with lhs = (T.operation as Sell).amount
    sale = None
    for x in subterms(lhs):
        if isinstance(x, tuple) and len(x) == 3 and x[0] == "field" and x[2] == "operation":
            sale = x[1]

    def fields(t):
        return {x[2] for x in subterms(t) if isinstance(x, tuple) and len(x) == 3 and x[0] == "field" and isinstance(x[2], str)}

    def tx_field(t, name):
        """a read of <the sale transaction>.<name>"""
        return any(isinstance(x, tuple) and len(x) == 3 and x[0] == "field" and x[2] == name and x[1] == sale for x in subterms(t))
    led = [p for p in parts if "ledgers" in fields(p)]
    pool = [p for p in parts if "pools" in fields(p)]
    ok_l = len(led) == 1 and tx_field(led[0], "ticker") and tx_field(led[0], "date") and \
        ({"lots"} & fields(led[0]) or any(isinstance(x, tuple) and x and x[0] == "call" and "AcquisitionLedger::" in x[1] for x in subterms(led[0])))
    ok_p = len(pool) == 1 and tx_field(pool[0], "ticker") and "quantity" in fields(pool[0])
    rep.ob("R1", "guard:same-day-lots-of-own-date-and-ticker", ok_l,
           "holding includes the unmatched lots of the sale's own date and ticker" if ok_l else f"ledger part of the holding is {[show(x)[:80] for x in led]}",
           gb.loc(sw["sp"]), key="R1:guard:ledger-operand")
    rep.ob("R1", "guard:pool-of-own-ticker", ok_p, "holding includes the pool quantity of the sale's own ticker" if ok_p else
           f"pool part of the holding is {[show(x)[:80] for x in pool]}", gb.loc(sw["sp"]), key="R1:guard:pool-operand")
    rep.ob("R1", "guard:nothing-else-counts", len(parts) == 2, "holding = same-day lots + pool, nothing else" if len(parts) == 2 else
           f"holding sums {len(parts)} terms: {[show(x)[:40] for x in parts]}", gb.loc(sw["sp"]), key="R1:guard:extra-terms")
    return guard


def _break_arm_misses(c, ctb, ci, ct, site):
    """the error of the helper called at block ci is propagated: the Break arm of the `?` on its result cannot reach `site`"""
    for s2 in c.reach_from(ct["target"]) if ct.get("target") is not None else ():
        sw2 = c.term(s2)
        if sw2["k"] == "switch" and c.dominates(ci, s2):
            c2 = Terms(ctb.facts, c, inline_depth=0).operand(sw2["discr"])
            if isinstance(c2, tuple) and c2 and c2[0] == "discr" and any(isinstance(x, tuple) and x and x[0] == "call" and x[1] == ct["callee"] for x in subterms(c2)):
                brk = [x for v, x in sw2["targets"] if v == "1"]
                return bool(brk) and site not in c.reach_from(brk[0]) and c.dominates(s2, site)
    return False


def guard_reads_vs_leg_writes(R, rep):
    """R3: locations the guard reads = lot share counters (through availability) and pool.quantity"""
    F = R.F
    a = F.adts.get(LOT)
    counters = [f["name"] for f in a["variants"][0]["fields"] if f["name"] in ("consumed", "reserved", "in_pool")] if a else []
    from panics import reachable
    for r in RULES:
        b = R.leg(r)[0]
        reach, _ = reachable(F, [b.id])
        fam = [F.bodies[x] for x in reach if x in F.bodies and F.bodies[x].crate == "cgt_core"]
        w = set()
        for c in counters:
            if any(x[2] in ("AddAssign", "SubAssign", "assign") for x in R.field_writes(LOT, c, fam)):
                w.add("lot." + c)
        if any(x[2] in ("AddAssign", "SubAssign", "MulAssign", "DivAssign", "assign") for x in R.field_writes(POOL, "quantity", fam)):
            w.add("pool.quantity")
        ok = bool(w)
        rep.ob("R3", f"{r}:debits-guarded-holding", ok,
               f"{b.short} records a disposal and debits {sorted(w)}, which the holding check reads" if ok else
               f"{b.short} records a disposal but writes none of the locations the holding check reads (lot counters, pool.quantity): "
               "the shares it disposes of still count as held, so a later sale of the same shares passes the check",
               b.loc(), key=f"R3:{r}:no-debit")


def frontends(R, rep):
    F = R.F
    n = 0
    from flow import effect_helpers
    is_out = lambda cal: cal in OUTPUTS or cal.startswith("serde_json::ser::to_string")
    out_helpers = effect_helpers(F, lambda cal: cal in OUTPUTS, ("cgt_tool", "cgt_mcp", "cgt_wasm"), P.user_written)
    # wrappers: front-end functions that return the report of a calculation they (transitively) make; a call of a wrapper is a
    # calculation site of its caller (`let report = self.compute()?; self.deliver(&report)`)
    wrappers = set()
    calc_helpers = effect_helpers(F, lambda cal: cal.endswith("calculator::calculate"), ("cgt_tool", "cgt_mcp", "cgt_wasm"), P.user_written)
    for b in F.bodies.values():
        if b.crate in ("cgt_tool", "cgt_mcp", "cgt_wasm") and P.user_written(F, b) and "TaxReport" in b.ret and b.id in calc_helpers:
            wrappers.add(b.id)
    for b in F.bodies.values():
        if b.crate not in ("cgt_tool", "cgt_mcp", "cgt_wasm") or not P.user_written(F, b):
            continue
        calc = [(i, t) for i, t in b.calls() if t["callee"].endswith("calculator::calculate") or
                (t["callee"] in wrappers and t["callee"] != b.id)]
        if "TaxReport" in b.ret:
            continue  # a wrapper returning the report: its callers are examined
        for i, t in calc:
            n += 1
            outs = [(j, u) for j, u in b.calls() if is_out(u["callee"]) or (u["callee"] in out_helpers and u["callee"] != b.id)]
            # error edge: the Break arm of the `?` on this call's result
            err_blocks = set()
            for s in b.reach_from(t["target"]) if t.get("target") is not None else ():
                sw = b.term(s)
                if sw["k"] == "switch" and b.dominates(i, s):
                    tb = Terms(F, b, inline_depth=0)
                    cnd = tb.operand(sw["discr"])
                    if isinstance(cnd, tuple) and cnd[0] == "discr" and any(isinstance(x, tuple) and x and x[0] == "call" and x[1] == t["callee"] for x in subterms(cnd)):
                        for v, tgt in sw["targets"]:
                            if v == "1":
                                err_blocks |= b.reach_from(tgt)
                        break
            after = [(j, u) for j, u in outs if j in b.reach_from(t["target"])] if t.get("target") is not None else []
            bad = [(j, u) for j, u in after if j in err_blocks]
            pre = [(j, u) for j, u in outs if b.crate == "cgt_tool" and j not in b.reach_from(t["target"]) and _same_arm_as(b, j, i)]
            ok = not bad and not pre and bool(after or b.crate == "cgt_wasm" or "String" in b.ret or "explain" in b.id)
            rep.ob("R2", f"{b.short}:no-output-on-error", ok,
                   "no report output is reachable from the error edge of the calculation, and none precedes it" if ok else
                   (f"output {bad[0][1]['callee'].split('::')[-1]} is reachable after calculate() failed" if bad else
                    f"output {pre[0][1]['callee'].split('::')[-1]} is written before the calculation finished" if pre else "no output follows the calculation"),
                   b.loc(t["sp"]), key=f"R2:{b.short}:output-order")
    rep.count("frontend_calculate_sites", n)
    if n < 4:
        rep.unresolved("R2", "frontends", f"{n} front-end call sites of the calculation (CLI, MCP calculate/explain, wasm expected)")


def _same_arm_as(b, j, i):
    """output j happens before calculate call i in the same command: i is reachable from j, and — when the function dispatches
    on a multi-way switch (main's sub-commands) — both sit in the same arm; a function without such a switch is one command"""
    multi = False
    for s in b.reachable():
        sw = b.term(s)
        if sw["k"] == "switch" and len(sw["targets"]) >= 3:
            arms = [tgt for tgt in b.succ(s) if b.dominates(tgt, i)]
            if arms:
                multi = True
                if any(b.dominates(tgt, j) for tgt in arms):
                    return True
    if multi:
        return False
    return i in b.reach_from(j) and i != j


def error_texts(R, rep):
    F = R.F
    c = R.require("cascade")
    tb = R.terms(c, 0)
    n = 0
    rg = R.region(c, depth=1)
    fcs = []
    for hb in rg.bodies.values():
        fcs += list(format_calls(F, hb, R.terms(hb, 0)))
    for fc in fcs:
        if not fc["parts"]:
            continue
        # only formats feeding an error
        args = [show(p[1]) for p in fc["parts"] if p[0] == "arg"]
        txt = template_text(fc["parts"])
        n += 1
        ok = any(a.endswith(".ticker") for a in args) and any(a.endswith(".date") for a in args)
        rep.ob("R4", f"error-text:{txt[:28]}", ok, "error names the security and the date" if ok else
               f"error text `{txt[:60]}` does not name both the security and the date (args {args[:4]})", fc["site"], key=f"R4:error-text:{txt[:28]}")
    if n < 2:
        rep.unresolved("R4", "errors", f"{n} formatted errors in the cascade")
    # the post-cascade remainder check exists
    rem_err = False
    for s in c.reachable():
        sw = c.term(s)
        if sw["k"] == "switch":
            cond = tb.operand(sw["discr"])
            if isinstance(cond, tuple) and cond[0] == "cmp" and cond[1] in ("Gt", "Le") and cond[3] == ("const", "Decimal::ZERO"):
                # `remaining > 0` errs on the true edge, `remaining <= 0` on the false edge
                et = sw["otherwise"] if cond[1] == "Gt" else ([x for v, x in sw["targets"] if v == "0"] or [None])[0]
                if et is None:
                    continue
                arm = {x for x in c.reach_from(et) if c.dominates(et, x)}
                if any(st["rv"]["k"] == "agg" and st["rv"].get("variant") == "Err" for x in arm for st in c.stmts(x) if "rv" in st) and \
                        not any(c.term(x)["k"] == "call" and c.term(x)["callee"] in {R.leg(r)[0].id for r in RULES} for x in arm):
                    rem_err = True
    rep.ob("R4", "cascade:unmatched-remainder→Err", rem_err, "an unmatched remainder after all three rules is an error" if rem_err else
           "no `remaining > 0 → Err` after the three rules", c.loc(), key="R4:cascade:remainder-error")


def run(ctx, rep):
    R = Roles(ctx.F)
    holding_guard(R, rep)
    frontends(R, rep)
    guard_reads_vs_leg_writes(R, rep)
    error_texts(R, rep)
    # the holding the guard reads must be kept exact: what a rule records is what it debits, what is pooled is what
    # leaves the lots (shared with C02-R3) — phantom or vanished shares make the guard accept or refuse wrongly
    import rules.c02 as c02
    from core import Report
    r2 = Report("tmp")
    c02.pairing(R, r2)
    for o in r2.obligations:
        rep.ob("R5", o["instance"], o["ok"], o["detail"], o["site"], key="R5:" + o["instance"])
    # …and rescaled exactly: an UNSPLIT divides the pooled share count by its ratio (shared with C10-R1/R2); multiplying by a
    # rounded reciprocal leaves 99.99…9 shares where 100 are held and refuses a covered sale (seeded change C05-s4)
    import rules.c10 as c10
    r3 = Report("tmp")
    h = c10.split_handler(R, r3)
    c10.ratio_ops(R, r3, h)
    for o in r3.obligations:
        if o["instance"].startswith("pool handler") or "writes-only-quantity" in o["instance"]:
            rep.ob("R5", o["instance"], o["ok"], o["detail"], o["site"], key="R5:" + o["instance"])
    # the holding stays exact only if nothing of ANOTHER security reaches the 30-day arithmetic: candidate buys and ratio updates
    # of the look-ahead sit under the ticker guard (shared with C02-R6 / C09-R2); a SPLIT of another security inside the window
    # otherwise rescales the claim, the pool drifts and a covered sale is refused or an uncovered one accepted (seeded change C05-s8)
    c02.same_security(R, rep, "R6")
    # …and rescaled at the right moment: a date's SPLIT/UNSPLIT lines act on the pool only after every purchase of that date has
    # been pooled (shared with C01-R2 / C10-R7). Line by line, `UNSPLIT 2` written above a same-day BUY 100 leaves 150 where 100 are
    # held, and an uncovered SELL 150 is answered with a report (seeded change C05-s9)
    c10.phase_order(R, rep, "R5")
