"""C02 — shares are conserved (structural clauses)."""
import re
from mir import Terms, parse_callee, show, op_place, op_const, place_proj, subterms, summary, is_decimal_arith_assign
from flow import root_of_operand
from roles import Roles, RULES, POOL, LOT, agg_fields, guards_of, truth, is_agg, sell_time_ratio, times_ratio
import panics as P

META = {
    "explanation": (
        "R1 (closed lot accounting): the Decimal fields of the acquisition-lot type split into cost fields (those read by the "
        "lot's adjusted-cost accessor) and share counters (the rest); the availability accessor must reduce to "
        "original − Σ(every share counter): a new counter that is never subtracted, or a dropped subtraction, fails. R2 (WHO): "
        "lot counters are written only inside the lot/ledger impl; Section104Holding.quantity is written only by the pooling "
        "function, the Section-104 leg producer and the split handler. R3 (PAIR): per leg producer the term stored in "
        "Match.quantity, the term subtracted from the shared remaining counter and the term debited from the source (lot "
        "consumption argument / pool.quantity −= / future claim after split rescaling) are the same term; pooling uses one "
        "term for pool.quantity +=, for the cost lookup and for marking the lots. R4 (MPT): adding an acquisition is dominated "
        "by the `claimed > amount → Err` guard on the same values. R5 (MPT): every Ok exit of the cascade after matching lies "
        "on the false edge of `remaining > 0`. R7: SPLIT multiplies and UNSPLIT divides share counts by the line's own ratio (shared with C10-R1/R2), and within one date the SPLIT/UNSPLIT pass strictly follows the pooling of that date's purchases (shared with C01-R2). R8: an enumerate index used as key of the shared per-line tables is taken before any element-dropping stage (shared with C09-R5). Decides sameness of terms and shape of paths; not the conservation equations. R9: a loop that spreads a quantity over the lots of a date is left only when the lots or the quantity are used up (no exit that depends on the current lot). R10 (every line counts once): no call in the matcher or the calculator removes elements from a vector of transactions (dedup, retain, truncate, drain, pop, remove, clear, …)."),
    "trusted_base": ["rust_decimal operator semantics", "rustc MIR + resolution", "copy propagation over single-assignment temporaries is value-preserving"],
}


def lot_accounting(R, rep):
    F = R.F
    a = F.adts.get(LOT)
    if a is None:
        rep.unresolved("R1", "LOT", "AcquisitionLot type not found")
        return
    dec = [f["name"] for f in a["variants"][0]["fields"] if f["ty"] == "rust_decimal::decimal::Decimal"]
    # cost accessor: the lot method whose summary mentions `price`
    cost_fields = set()
    avail = None
    for b in F.bodies.values():
        if not b.id.startswith(LOT + "::") or b.kind != "method" or b.argc != 1 or "Decimal" not in b.ret:
            continue
        s = summary(F, b.id, 2)
        if s is None:
            continue
        fs = {x[2] for x in subterms(s) if isinstance(x, tuple) and len(x) == 3 and x[0] == "field" and x[1] == ("param", 0, "self")}
        if "price" in fs:
            cost_fields |= fs
    counters = [f for f in dec if f not in cost_fields]
    orig = [f for f in dec if f in cost_fields and f not in ("price",) and "amount" in f]
    rep.count("lot_share_counters", counters)
    rep.count("lot_cost_fields", sorted(cost_fields))
    # availability accessor: method whose summary is original − counters
    cands = []
    for b in F.bodies.values():
        if not b.id.startswith(LOT + "::") or b.kind != "method" or b.argc != 1 or "Decimal" not in b.ret:
            continue
        s = summary(F, b.id, 2)
        if s is None or not (isinstance(s, tuple) and s and s[0] == "+"):
            continue
        pos = {x[2] for x in s[1] if isinstance(x, tuple) and x[0] == "field"}
        neg = {x[1][2] for x in s[1] if isinstance(x, tuple) and x[0] == "neg" and isinstance(x[1], tuple) and x[1][0] == "field"}
        cands.append((b, pos, neg))
    # the availability accessor is the one used by remaining_for_date-like sums: called by the ledger inside map closures,
    # and it subtracts the most counters
    if not cands:
        rep.unresolved("R1", "AVAILABLE", "no lot accessor of the form a − b − …")
        return
    callers = {}
    for b, pos, neg in cands:
        callers[b.id] = sum(1 for _ in F.call_sites(lambda c, bid=b.id: c == bid))
    b, pos, neg = max(cands, key=lambda c: (callers[c[0].id], len(c[2])))
    for c in counters:
        rep.ob("R1", f"available:−{c}", c in neg,
               f"share counter `{c}` is subtracted in {b.short}" if c in neg else
               f"share counter `{c}` of the lot is not subtracted in the availability accessor {b.short}: shares booked there stay available and can be matched twice",
               b.loc(), key=f"R1:available:{c}")
    extra = neg - set(counters)
    rep.ob("R1", "available:only-counters", not extra, "only share counters are subtracted" if not extra else f"availability also subtracts {sorted(extra)}",
           b.loc(), key="R1:available:extra")
    R._lot_fields = (sorted(pos), list(counters))
    okp = len(pos) == 1 and all("amount" in p for p in pos)
    rep.ob("R1", "available:+original", okp, f"availability starts from {sorted(pos)}" if okp else f"availability's positive part is {sorted(pos)}", b.loc(),
           key="R1:available:original")
    # every counter has a writer (or a ctor parameter) — otherwise it is dead weight, fine; every writer adds
    for c in counters:
        ws = R.field_writes(LOT, c)
        kinds = {w[2] for w in ws}
        bad = [w for w in ws if w[2] in ("SubAssign", "MulAssign", "DivAssign", "assign")]
        rep.ob("R1", f"counter:{c}:monotone", not bad, f"`{c}` is only ever increased ({sorted(kinds)})" if not bad else
               f"`{c}` is also written by {[(w[0].short, w[2]) for w in bad]}: shares could be un-booked", ws[0][3] if ws else "", key=f"R1:counter:{c}:monotone")
    return counters


def who_writes(R, rep, counters):
    F = R.F
    for c in counters or []:
        for w in R.field_writes(LOT, c):
            inside = w[0].id.startswith("cgt_core::matcher::acquisition_ledger::Acquisition")
            rep.ob("R2", f"lot.{c}@{w[0].short}", inside, "written inside the lot/ledger impl" if inside else
                   f"lot counter `{c}` is written from {w[0].short}, outside the ledger's own methods", w[3], key=f"R2:lot.{c}:{w[0].short}")
    s104 = R.leg("Section104")[0]
    ws = R.field_writes(POOL, "quantity")
    rep.count("pool_quantity_writers", sorted({w[0].short for w in ws}))
    roles = {}
    for w in ws:
        b = w[0]
        root = F.bodies[b.parent] if b.parent and b.parent in F.bodies else b
        if w[2] == "construct":
            ok = w[4] == ("const", "Decimal::ZERO") or (b.crate != "cgt_core")
            rep.ob("R2", f"pool.quantity:construct@{b.short}", ok or _is_derive_like(b), "a pool is created empty" if ok else
                   f"a Section 104 holding is created with quantity {show(w[4])[:40]}", w[3], key=f"R2:pool.quantity:construct:{root.short}")
            continue
        if root.id == s104.id and w[2] == "SubAssign":
            roles[root.short] = "S104 leg"
        elif w[2] == "AddAssign":
            roles[root.short] = "pooling"
        elif w[2] in ("MulAssign", "DivAssign"):
            roles[root.short] = "split handler"
        else:
            roles[root.short] = "?" + w[2]
    by_role = {}
    for fn, r in roles.items():
        by_role.setdefault(r, []).append(fn)
    for r in ("S104 leg", "pooling", "split handler"):
        ok = len(by_role.get(r, [])) == 1
        rep.ob("R2", f"pool.quantity:{r}", ok, f"{r}: {by_role.get(r)}" if ok else f"{r} writers of pool.quantity: {by_role.get(r)}", "", key=f"R2:pool.quantity:{r}")
    other = [fn for r, fns in by_role.items() if r.startswith("?") for fn in fns]
    sub_elsewhere = [w for w in ws if w[2] == "SubAssign" and (w[0].parent or w[0].id) != s104.id]
    rep.ob("R2", "pool.quantity:no-other-writer", not other and not sub_elsewhere,
           "no other function writes the pool quantity" if not other and not sub_elsewhere else
           f"pool quantity is also written by {other + [w[0].short for w in sub_elsewhere]}", "", key="R2:pool.quantity:other")
    # each role writes in exactly one function, and the three roles are three different functions
    fns = [by_role.get(r, [None])[0] for r in ("S104 leg", "pooling", "split handler")]
    rep.ob("R2", "pool.quantity:roles-distinct", len(set(fns)) == 3 and None not in fns, f"writers: {fns}", "", key="R2:pool.quantity:roles")


def _is_derive_like(b):
    return "Default" in b.id or "Deserialize" in b.id or "deserialize" in b.id


def _remaining_debits(b, tb):
    """SubAssign on a &mut Decimal parameter (the shared remaining counter) -> list of rhs terms"""
    out = []
    for i, t in b.calls():
        if is_decimal_arith_assign(t["callee"]) == "SubAssign":
            r = root_of_operand(b, t["args"][0])
            if r and 1 <= r[0] <= b.argc and not r[1] and b.local_ty(r[0]) == "&mut rust_decimal::decimal::Decimal":
                out.append((i, tb.operand(t["args"][1]), b.loc(t["sp"])))
    return out


def pairing(R, rep):
    F = R.F
    for r in RULES:
        b, sites = R.leg(r)
        tb = R.terms(b, 2)
        debs = _remaining_debits(b, tb)
        rg = None
        if not debs:
            # the debit may sit in a helper of the producer (`look_ahead.match_against_buy(.., remaining, ..)`)
            rg = R.region(b, arg_depth=2)
            for it in rg.items:
                if is_decimal_arith_assign(it["term"]["callee"]) == "SubAssign":
                    tgt = rg.arg(it, 0)
                    if isinstance(tgt, tuple) and tgt and tgt[0] == "param" and tgt[1] < b.argc and b.local_ty(tgt[1] + 1) == "&mut rust_decimal::decimal::Decimal":
                        debs.append((it["root_bb"], rg.arg(it, 1), it["body"].loc(it["term"]["sp"])))
        for bb, term, site in sites:
            q = agg_fields(term)["quantity"]
            okr = len(debs) >= 1 and all(d[1] == q for d in debs)
            rep.ob("R3", f"{r}:remaining−=Match.quantity", okr,
                   "the shared remaining counter is reduced by exactly the recorded leg quantity" if okr else
                   f"{r}: Match.quantity is {show(q)[:70]} but `remaining` is reduced by {[show(d[1])[:70] for d in debs] or 'nothing'}",
                   site, key=f"R3:{r}:remaining")
            if r == "SameDay":
                cons = [(i, t) for i, t in b.calls() if t["callee"].endswith("AcquisitionLedger::consume_shares_on_date")]
                ok = len(cons) == 1 and tb.operand(cons[0][1]["args"][2]) == q
                rep.ob("R3", "SameDay:lots-consumed=Match.quantity", ok, "the day's lots are debited by exactly the recorded quantity" if ok else
                       f"same-day lots are debited by {[show(tb.operand(c[1]['args'][2]))[:60] for c in cons]}, Match.quantity is {show(q)[:60]}",
                       site, key="R3:SameDay:debit")
                # and for the sale's own date
                okd = len(cons) == 1 and show(tb.operand(cons[0][1]["args"][1])).endswith(".date") and tb.operand(cons[0][1]["args"][1])[1][0] == "param"
                rep.ob("R3", "SameDay:debits-sale-date", okd, "lots of the sale's own date are debited" if okd else "same-day debit uses another date",
                       site, key="R3:SameDay:debit-date")
            elif r == "Section104":
                ws = [w for w in R.field_writes(POOL, "quantity", [b]) if w[2] == "SubAssign"]
                ok = len(ws) == 1 and ws[0][4] == q
                rep.ob("R3", "Section104:pool.quantity−=Match.quantity", ok, "the pool loses exactly the recorded quantity" if ok else
                       f"pool.quantity is reduced by {[show(w[4])[:60] for w in ws]}, Match.quantity is {show(q)[:60]}", site, key="R3:Section104:debit")
            else:
                # B&B: the future claim is Match.quantity rescaled to buy-time units
                claims = []
                for i, t in b.calls():
                    cb = F.bodies.get(t["callee"])
                    if cb is None:
                        continue
                    for j, u in cb.calls():
                        if is_decimal_arith_assign(u["callee"]) == "AddAssign":
                            ctb = Terms(F, cb, inline_depth=0)
                            rhs = ctb.operand(u["args"][1])
                            if isinstance(rhs, tuple) and rhs[0] == "param":
                                claims.append((i, t, tb.operand(t["args"][rhs[1]]), [tb.operand(a) for a in t["args"]]))
                for i, t in b.calls():
                    if is_decimal_arith_assign(t["callee"]) == "AddAssign":
                        claims.append((i, t, tb.operand(t["args"][1]), []))
                if not claims:
                    # …or deeper in the producer's region: an accumulation into a map entry
                    rg = rg or R.region(b, arg_depth=2)
                    for it in rg.items:
                        if it["body"].id != b.id and is_decimal_arith_assign(it["term"]["callee"]) == "AddAssign":
                            tgt = rg.arg(it, 0)
                            keys = [x[2][1] for x in subterms(tgt) if isinstance(x, tuple) and x and x[0] == "call" and parse_callee(x[1])[2] in ("entry", "get_mut") and len(x[2]) == 2]
                            if keys:
                                claims.append((it["root_bb"], dict(it["term"], sp=None), rg.arg(it, 1), keys))
                okc = False
                why = "no future claim is recorded for the matched acquisition"
                st = sell_time_ratio(q)
                for i, t, cterm, args in claims:
                    # cterm must be q × R with R the very ratio that divides the availability inside q
                    if st is not None and times_ratio(cterm, q, st[2]):
                        okc = True
                        why = "the claim on the future acquisition is Match.quantity × cumulative split ratio (buy-time units)"
                    elif cterm == q:
                        why = "the future claim equals the sell-time quantity without split rescaling"
                    elif not okc:
                        why = f"claim {show(cterm)[:70]} is not Match.quantity × the cumulative ratio used for the sell-time quantity"
                    # keyed by the candidate's index
                    if okc and not args:
                        tgt = tb.operand(t["args"][0])
                        args = [x[2][1] for x in subterms(tgt) if isinstance(x, tuple) and x and x[0] == "call" and parse_callee(x[1])[2] == "entry" and len(x[2]) == 2]
                    if okc and args:
                        idx_ok = any(show(a).endswith(".0") and "next(" in show(a) for a in args)
                        rep.ob("R3", "30-day:claim-keyed-by-candidate", idx_ok, "claim is booked on the candidate's own transaction index" if idx_ok else
                               "claim is booked on another index", b.loc(t["sp"]), key="R3:BedAndBreakfast:claim-key")
                rep.ob("R3", "30-day:future-claim=Match.quantity×ratio", okc, why, site, key="R3:BedAndBreakfast:claim")
    # pooling: one term for pool += / cost lookup / marking lots
    pws = [w for w in R.field_writes(POOL, "quantity") if w[2] == "AddAssign"]
    for w in pws:
        b = w[0]
        tb = R.terms(b, 0)
        q = tb.operand
        qterm = None
        for i, t in b.calls():
            if is_decimal_arith_assign(t["callee"]) == "AddAssign":
                tgt = R._ref_target(b, op_place(t["args"][0]))
                if tgt == (POOL, "quantity"):
                    qterm = tb.operand(t["args"][1])
        marks = [(i, t) for i, t in b.calls() if t["callee"].endswith("AcquisitionLedger::consume_for_pool")]
        costs = [(i, t) for i, t in b.calls() if t["callee"].endswith("AcquisitionLedger::cost_for_date")]
        ok = qterm is not None and len(marks) == 1 and len(costs) == 1 and tb.operand(marks[0][1]["args"][2]) == qterm \
            and tb.operand(costs[0][1]["args"][2]) == qterm
        rep.ob("R3", "pooling:one-quantity", ok, "the pooled quantity, the quantity priced and the quantity marked on the lots are one term" if ok else
               f"pooling uses different quantities: pool += {show(qterm)[:50]}, priced {[show(tb.operand(c[1]['args'][2]))[:40] for c in costs]}, "
               f"marked {[show(tb.operand(m[1]['args'][2]))[:40] for m in marks]}", w[3], key="R3:pooling:one-quantity")
        dates = {show(tb.operand(x[1]["args"][1])) for x in marks + costs}
        rep.ob("R3", "pooling:one-date", len(dates) == 1, f"same date for pricing and marking ({dates})" if len(dates) == 1 else f"dates differ: {dates}", w[3],
               key="R3:pooling:one-date")


def acquisition_guard(R, rep):
    d = R.require("dayloop")
    rg = R.region(d)
    adds = list(rg.calls(lambda c: c.endswith("AcquisitionLedger::add_acquisition")))
    for it in adds:
        b, i, t, tb = it["body"], it["bb"], it["term"], it["tb"]
        args = [tb.operand(a) for a in t["args"]]
        amount = args[3] if len(args) > 3 else None
        extras = args[-1]
        reserved = None
        for x in subterms(extras):
            if is_agg(x) and "reserved" in dict(x[3]):
                reserved = dict(x[3])["reserved"]
        if reserved is None and isinstance(extras, tuple) and extras[0] == "call" and len(extras[2]) == 2:
            reserved = extras[2][1]
        ok = False
        for cond, val, s in guards_of(b, tb, i):
            if isinstance(cond, tuple) and cond[0] == "cmp" and not truth(val):
                if cond[1] == "Gt" and cond[2] == reserved and cond[3] == amount:
                    ok = True
                if cond[1] == "Lt" and cond[3] == reserved and cond[2] == amount:
                    ok = True
            if isinstance(cond, tuple) and cond[0] == "cmp" and truth(val):
                if cond[1] == "Le" and cond[2] == reserved and cond[3] == amount:
                    ok = True
                if cond[1] == "Ge" and cond[3] == reserved and cond[2] == amount:
                    ok = True
        rep.ob("R4", "add_acquisition:claimed≤amount", ok,
               "an acquisition enters the ledger only if earlier 30-day claims on it do not exceed its quantity" if ok else
               f"add_acquisition is not dominated by `claimed ({show(reserved)[:40]}) > amount ({show(amount)[:30]}) → Err`: more shares than were bought can be matched to it",
               b.loc(t["sp"]), key="R4:add_acquisition:guard")
    if not adds:
        rep.unresolved("R4", "add_acquisition", "the day loop (with its helpers) does not call add_acquisition")


def cascade_exit(R, rep):
    c = R.require("cascade")
    tb = R.terms(c, 0)
    legs = [R.leg(r)[0].id for r in RULES]
    first_leg = min(i for i, t in c.calls() if t["callee"] in legs)
    n = 0
    for i, si, s in c.assigns():
        rv = s["rv"]
        if rv["k"] == "agg" and rv["adt"] == "core::result::Result" and rv["variant"] == "Ok" and s["lhs"]["l"] == 0 and c.dominates(first_leg, i):
            n += 1
            ok = False
            for cond, val, sb in guards_of(c, tb, i):
                if isinstance(cond, tuple) and cond[0] == "cmp" and cond[3] == ("const", "Decimal::ZERO"):
                    if (cond[1] == "Gt" and not truth(val)) or (cond[1] == "Le" and truth(val)) or (cond[1] == "Eq" and truth(val)):
                        ok = True
            rep.ob("R5", "cascade:Ok-only-if-fully-matched", ok, "the cascade returns Ok only when nothing remains unmatched" if ok else
                   "an Ok exit of the cascade is reachable with shares still unmatched (the disposal's legs would not add up to the quantity sold)",
                   c.loc(s["sp"]), key="R5:cascade:ok-exit")
    if n == 0:
        rep.unresolved("R5", "ok-exit", "no Ok exit after the leg producers")


def distribution_loops(R, rep, rule="R9"):
    """A quantity handed to the ledger is spread over the lots of a date in a loop; the loop may stop early only because the
    quantity is used up. An exit that depends on the CURRENT lot (`if to_move <= 0 { break }` with to_move = min(remaining,
    lot.available())) abandons the later lots of the day as soon as one lot is exhausted: the remainder is booked nowhere, or —
    for pooling — booked again by the next purchase line (seeded change C02-s6)."""
    F = R.F
    debit_fns = {w[0].parent or w[0].id for c_ in ("consumed", "in_pool", "reserved") for w in R.field_writes(LOT, c_) if w[2] != "construct"}
    n = 0
    counter_writers = {w[0].id for c_ in ("consumed", "in_pool", "reserved") for w in R.field_writes(LOT, c_) if w[2] != "construct"}
    for b in F.bodies.values():
        if not b.id.startswith("cgt_core::matcher::acquisition_ledger::") or b.kind not in ("method", "fn", "closure") or not P.user_written(F, b):
            continue
        tb = None
        if b.kind == "closure" and not b.loops() and (b.id in counter_writers or any(t_["callee"] in debit_fns for _, t_ in b.calls())):
            # the body of an internally iterated loop (`lots.for_each(|lot| …)`): `for_each` has no early exit at all; a
            # `try_for_each` closure that leaves by Break on a lot-dependent test is the same defect in another spelling
            users = [t_ for pb in F.bodies.values() if pb.id == b.parent for _, t_ in pb.calls() if parse_callee(t_["callee"])[2] in ("for_each", "try_for_each", "try_fold")]
            if users:
                n += 1
                early = any(parse_callee(t_["callee"])[2] != "for_each" for t_ in users)
                rep.ob(rule, f"{b.short}:internal-iteration", not early, "the lots are walked by for_each (no early exit)" if not early else
                       "the lots are walked by a short-circuiting try_for_each/try_fold whose exits are not judged", b.loc(), key=f"{rule}:{b.short}:short-circuit")
            continue
        for h, blks in b.loops():
            if not any(b.term(x)["k"] == "call" and (b.term(x)["callee"] in debit_fns) for x in blks) and not (b.id in counter_writers and any(
                    st_["lhs"].get("p") and any(isinstance(pj, dict) and pj.get("n") in ("consumed", "in_pool", "reserved") for pj in st_["lhs"]["p"]) for x in blks for st_ in b.stmts(x))):
                continue
            nexts = [x for x in blks if b.term(x)["k"] == "call" and parse_callee(b.term(x)["callee"])[2] == "next"]
            if len(nexts) != 1:
                continue
            tb = tb or R.terms(b, 0)
            elem = ("some", tb.call_term(b.term(nexts[0])))
            n += 1
            bad = None
            for s in blks:
                t = b.term(s)
                if t["k"] != "switch":
                    continue
                outs = [x for x in b.succ(s) if x not in blks]
                if not outs:
                    continue
                cond = tb.operand(t["discr"])
                if isinstance(cond, tuple) and cond and cond[0] == "discr" and any(isinstance(x, tuple) and x and x[0] == "call" and parse_callee(x[1])[2] == "next" for x in subterms(cond)) \
                        and not any(x == elem for x in subterms(cond)):
                    continue        # the iterator is exhausted
                if isinstance(cond, tuple) and cond and cond[0] == "discr" and cond[1] == tb.call_term(b.term(nexts[0])):
                    continue
                if any(x == elem for x in subterms(cond)):
                    bad = (s, cond)
            rep.ob(rule, f"{b.short}:loop@{h}:exit", bad is None, "the loop over the lots ends only when the lots or the quantity are used up" if bad is None else
                   f"the loop over the lots is left under `{show(bad[1])[:70]}`, which depends on the current lot: later lots of the date are never reached",
                   b.loc(b.term(bad[0])["sp"]) if bad else b.loc(), key=f"{rule}:{b.short}:lot-dependent-exit")
    rep.count("ledger_distribution_loops", n)
    if n < 2:
        # not a floor: a ledger that spreads quantities through a generic walker, positions or internal iteration has fewer (or no)
        # loops of this shape (behaviour-preserving refactorings r3, r14, r24) — the rule then judges what it finds and says so
        rep.note(f"{rule}: only {n} loops over lots that debit them recognised in the ledger module (early-exit rule judged on those only)")


def run(ctx, rep):
    R = Roles(ctx.F)
    distribution_loops(R, rep)
    counters = lot_accounting(R, rep)
    who_writes(R, rep, counters)
    pairing(R, rep)
    acquisition_guard(R, rep)
    cascade_exit(R, rep)
    same_security(R, rep, "R6")
    # "rescaled by the splits and unsplits between": the pool's share count and the look-ahead's ratio are multiplied by a
    # SPLIT's own ratio and DIVIDED by an UNSPLIT's (shared with C10-R1/R2). Multiplying by a rounded reciprocal instead loses or
    # invents a fraction of a share whenever 1/ratio does not terminate (seeded change C02-s3)
    import rules.c10 as c10
    from core import Report
    from roles import misaligned_index_keys
    r2 = Report("tmp")
    h = c10.split_handler(R, r2)
    c10.ratio_ops(R, r2, h)
    for o in r2.obligations:
        rep.ob("R7", o["instance"], o["ok"], o["detail"], o["site"], key="R7:" + o["instance"])
    # claims and offsets are read under the key they were booked under (shared with C09-R5)
    import rules.c09 as c09
    c09.shared_index_space(R, rep, "R8")
    every_line_counts(R, rep)
    # a date's purchases are all pooled before that date's SPLIT/UNSPLIT lines rescale the pool (separate passes, shared with
    # C01-R2 / C10-R7): applied line by line, a same-day BUY written below the SPLIT is pooled at its old count — 100 held, SPLIT 2
    # and BUY 30 on one date close at 230 shares instead of 260 (seeded change C02-s9)
    import rules.c10 as c10b
    c10b.phase_order(R, rep, "R7")


THINNING = ("dedup", "dedup_by", "dedup_by_key", "retain", "retain_mut", "truncate", "drain", "pop", "remove", "swap_remove", "clear", "split_off",
            "pop_front", "pop_back", "extract_if")


def every_line_counts(R, rep, rule="R10"):
    """Every line of the ledger enters the matching exactly once: between the caller's list and the day loop the transaction
    vector is only sorted, walked and re-assembled by the same-day merge (which ADDS the merged line's shares to the line it
    folds it into). A call that thins a vector of transactions — `dedup`, `retain`, `truncate`, `drain`, `pop`, `remove`, … — drops
    lines: two identical fills of one order are two purchases, not one (seeded change C01-s7)."""
    F = R.F
    n = 0
    bad = []
    for b in F.user_bodies("cgt_core"):
        if not ("::matcher::" in b.id or "::calculator::" in b.id):
            continue
        for i, t in b.calls():
            m = parse_callee(t["callee"])
            aty = t.get("aty") or []
            if not aty or not re.search(r"Vec(Deque)?<(&)?(cgt_core::models::Transaction|cgt_core::models::GbpTransaction|cgt_core::\S*Transaction)", aty[0]):
                continue
            if "alloc::vec::Vec" not in t["callee"] and "VecDeque" not in t["callee"] and "slice" not in t["callee"]:
                continue
            n += 1
            if m[2] in THINNING:
                bad.append((b, t, m[2]))
    for b, t, name in bad:
        rep.ob(rule, f"{b.short}:{name}", False, f"`{b.short}` calls `{name}` on the list of transactions: lines are dropped before matching, so the shares "
               "of a dropped line are neither matched nor pooled (two identical fills count once)", b.loc(t["sp"]), key=f"{rule}:{b.short}:thins-transactions:{name}")
    rep.ob(rule, "transactions:never-thinned", not bad, f"{n} calls on transaction vectors in the matcher and calculator, none removes elements" if not bad else
           f"{len(bad)} calls remove lines from the transaction list", "", key=f"{rule}:transactions:never-thinned")
    rep.count("transaction_vector_calls", n)
    if n < 1:
        rep.unresolved(rule, "transaction-vectors", f"only {n} calls on a Vec of transactions found in the matcher / calculator (sort, iteration and push expected)")


def frontends_hand_over_everything(F, rep, rule, crates=("cgt_mcp", "cgt_cli", "cgt_wasm")):
    """the front-ends hand the calculation EVERY parsed line: in the CLI, the MCP server and the wasm exports no call thins a vector
    of transactions (`retain`, `dedup`, `truncate`, `drain`, …) between parsing and `calculate`. The year filter belongs to the
    calculator, after matching — a front-end that cuts the ledger at the end of the requested tax year hides the 30-day
    re-acquisition of a March sale, and its figures differ from every other front-end's (seeded change C17-s8)."""
    n = 0
    bad = []
    for cr in crates:
        for b in F.user_bodies(cr):
            for i, t in b.calls():
                m = parse_callee(t["callee"])
                aty = t.get("aty") or []
                if not aty or not re.search(r"Vec(Deque)?<(&)?(cgt_core::models::Transaction|cgt_core::models::GbpTransaction|cgt_core::\S*Transaction)", aty[0]):
                    continue
                if "alloc::vec::Vec" not in t["callee"] and "VecDeque" not in t["callee"] and "slice" not in t["callee"]:
                    continue
                n += 1
                if m[2] in THINNING:
                    bad.append((b, t, m[2]))
    for b, t, name in bad:
        rep.ob(rule, f"{b.short}:{name}", False, f"`{b.short}` calls `{name}` on the parsed transactions before the calculation: the matcher never sees the "
               "dropped lines (a 30-day re-acquisition after the cut, an earlier purchase), so this front-end's legs and costs differ from the others'",
               b.loc(t["sp"]), key=f"{rule}:{b.short}:thins-transactions:{name}")
    rep.ob(rule, "frontends:transactions-never-thinned", not bad, f"{n} calls on transaction vectors in the front-ends, none removes elements" if not bad else
           f"{len(bad)} calls remove lines from the parsed transactions in a front-end", "", key=f"{rule}:frontends:never-thinned")
    rep.count(f"{rule}_frontend_transaction_vector_calls", n)


def _touches_ratio(R, cb):
    """the helper reads a Split/Unsplit ratio (to scale a cumulative ratio in place or to return the scaled value)"""
    tb = R.terms(cb, 0)
    terms = [tb.local(0)]
    for _, u in cb.calls():
        if is_decimal_arith_assign(u["callee"]) in ("MulAssign", "DivAssign"):
            return True
        if is_decimal_arith_assign(u["callee"]) or u["callee"].endswith("arith::Mul>::mul") or u["callee"].endswith("arith::Div>::div"):
            terms += [tb.operand(a) for a in u["args"]]
    for t in terms:
        for x in subterms(t):
            if isinstance(x, tuple) and len(x) == 3 and x[0] == "field" and x[2] == "ratio" and isinstance(x[1], tuple) and x[1] and x[1][0] == "dc" \
                    and x[1][2] in ("Split", "Unsplit"):
                return True
    return False


def same_security(R, rep, rule):
    """shares of another security never enter this security's accounting: every effect of a look-ahead candidate
    (claim, ratio update) sits under the ticker-equality guard (shared with C09-R2 and C01)"""
    import rules.c09 as c09
    from core import Report
    r2 = Report("tmp")
    c09.lookahead_guards(R, r2)
    for o in r2.obligations:
        rep.ob(rule, o["instance"], o["ok"], o["detail"], o["site"], key=rule + ":" + o["instance"])
    b = R.leg("BedAndBreakfast")[0]
    tb = R.terms(b, 0)
    n = 0
    for i, t in b.calls():
        cb = R.F.bodies.get(t["callee"])
        k = is_decimal_arith_assign(t["callee"])
        is_ratio = cb is not None and cb.crate == b.crate and cb.kind in ("fn", "method") and _touches_ratio(R, cb)
        inline_ratio = k in ("MulAssign", "DivAssign") or (
            (t["callee"].endswith("arith::Mul>::mul") or t["callee"].endswith("arith::Div>::div")) and
            any(isinstance(x, tuple) and len(x) == 3 and x[0] == "field" and x[2] == "ratio" for a in t["args"] for x in subterms(tb.operand(a))))
        if (inline_ratio or is_ratio) and b.in_loop(i):
            n += 1
            ok = False
            for cond, val, s_ in guards_of(b, tb, i):
                if isinstance(cond, tuple) and cond[0] == "cmp" and cond[1] in ("Ne", "Eq") and show(cond[2]).endswith(".ticker") and show(cond[3]).endswith(".ticker"):
                    if (cond[1] == "Ne" and not truth(val)) or (cond[1] == "Eq" and truth(val)):
                        ok = True
            rep.ob(rule, "30-day:ratio-update-under-ticker-guard", ok,
                   "the cumulative split ratio is only updated by corporate actions of the sale's own security" if ok else
                   "a SPLIT/UNSPLIT of ANY security inside the window rescales this security's 30-day match: shares are invented or lost",
                   b.loc(t["sp"]), key=rule + ":bnb:ratio-ticker-guard")
    if n == 0:
        rep.unresolved(rule, "ratio-update-site", "no update of the cumulative split ratio found inside the look-ahead loop")
