"""C17 — front-ends present the same figures (structural clauses)."""
import re

from mir import Terms, parse_callee, show, op_place, op_const, subterms
from flow import format_calls, template_text, body_is_external, _const_through
import panics as P

META = {
    "explanation": (
        "R1 (one rounding mode): every rounding call in presentation code — the report model's serializers and "
        "serialize_with helpers, cgt-format, both formatters, the MCP and wasm front-ends — is "
        "round_dp_with_strategy(.., MidpointAwayFromZero); a bare round_dp (banker's rounding) there makes JSON differ "
        "from text on exact half-pence. R2 (no binary floats): no Decimal→f64/f32 conversion lies on a path to a displayed "
        "figure. R3: the plain and PDF formatters never Display a Decimal directly, only through the shared cgt-format "
        "helpers. R4 (formats): dates are printed with %d/%m/%Y, tax years as {}/{:02} of (start+1) % 100, GBP through "
        "one helper called with '£' and 2 decimals, negatives as -£. R5 (exact quantities): in the derived serializers of the report "
        "model no quantity / amount / ratio field goes through a serialize_with (rounding) helper. R6: a field of a front-end structure (MCP explain) "
        "that is named like a report-model field is filled from that field. R7: presentation code lists tax_years / disposals / matches without a "
        "dropping iterator stage. Does not analyse the Typst template's own arithmetic "
        "and does not compare rendered outputs. R8: the text and the PDF formatter apply the same predicate to the holdings they list. "
        "R9 (PDF data): a value packed into the Typst dictionaries under a key that names a field of the structure it is read from is that field. "
        "R10 (PDF template, read by a parser for the Typst subset it uses — parsed, never evaluated): every numeric figure of the packed data reaches the page "
        "through the formatter of its kind (money → the £/currency formatter, share counts → the quantity formatter, date dictionaries → the date formatter, "
        "the start year → the tax-year formatter) or is only compared; none is rendered raw, with str(), or through the wrong formatter; the kinds come from the "
        "Rust side's inserts and dimensions combine through × ÷ ±. R11 (template formatters, let-bindings substituted): dates are pad2(day)/pad2(month)/year, "
        "tax years str(start)/pad2((start+1) rem 100), money is rounded with calc.round to 2 digits, written sign (value < 0), £, thousands groups of 3 "
        "joined by ',', '.', fraction, with the digits taken from |value|; quantities are rounded to 6 digits and only TRAILING zeros are stripped (`at: end`). "
        "Typst's own calc.round/str semantics are trusted; the float conversion underneath stays known finding R2. R12: no front-end thins the parsed transactions before the calculation (retain/dedup/truncate/…): the year filter belongs to the calculator, after matching. R1 also: a figure is rounded once (the receiver of a presentation rounding contains no other rounding). R4 also: no template argument that is text carries a precision (it would clip an already formatted figure)."),
    "trusted_base": ["rust_decimal: round_dp is MidpointNearestEven; round_dp_with_strategy honours the strategy",
                     "core::fmt template encoding", "the Typst template (report.typ) is outside the analysis"],
}

PRESENTATION_CRATES = {"cgt_format", "cgt_formatter_plain", "cgt_formatter_pdf", "cgt_mcp", "cgt_wasm"}


def is_presentation(F, b):
    if b.crate in PRESENTATION_CRATES:
        return True
    if b.crate == "cgt_core":
        low = b.id.lower()
        return "serialize" in low and "deserialize" not in low
    return False


def rounding(F, rep, bodies=None):
    n = 0
    for b in (bodies if bodies is not None else F.bodies.values()):
        if F.is_derive(b):
            continue
        pres = bodies is not None or is_presentation(F, b)
        for i, t in b.calls():
            cal = t["callee"]
            if not cal.startswith("rust_decimal::decimal::Decimal::"):
                continue
            m = cal.rsplit("::", 1)[-1]
            if m not in ("round_dp", "round", "round_dp_with_strategy", "round_sf", "round_sf_with_strategy", "trunc", "floor", "ceil",
                         "trunc_with_scale"):
                continue
            if not pres:
                continue
            n += 1
            # a figure is rounded ONCE: rounding an already rounded value (4 dp, then 2 dp) moves 20.12495 to 20.1250 and then to 20.13,
            # while every output that rounds once shows 20.12 (seeded change C17-s10)
            recv = Terms(F, b, inline_depth=1).operand(t["args"][0]) if t["args"] else None
            inner = [x for x in subterms(recv) if isinstance(x, tuple) and x and x[0] == "call" and x[1].startswith("rust_decimal::decimal::Decimal::")
                     and x[1].rsplit("::", 1)[-1] in ("round_dp", "round", "round_dp_with_strategy", "round_sf", "round_sf_with_strategy", "trunc", "trunc_with_scale")] if recv else []
            if inner:
                rep.ob("R1", f"{b.short}:{m}:rounded-twice", False, f"`{b.short}` rounds a value that was already rounded by {inner[0][1].rsplit('::', 1)[-1]}: double "
                       "rounding differs from rounding once on values just below a midpoint, so this output disagrees with the others by a penny",
                       b.loc(t["sp"]), key=f"R1:{b.short}:rounded-twice")
            if m == "round_dp_with_strategy":
                k = _const_through(b, t["args"][2]) if len(t["args"]) > 2 else None
                disp = (k or {}).get("disp", "")
                if not disp and len(t["args"]) > 2:
                    st = Terms(F, b, inline_depth=0).operand(t["args"][2])
                    if isinstance(st, tuple) and st and st[0] == "agg":
                        disp = st[2]
                ok = disp.endswith("MidpointAwayFromZero")
                rep.ob("R1", f"{b.short}:{m}", ok, "rounds half away from zero" if ok else
                       f"rounds with strategy {disp.split('::')[-1] or 'non-constant'}: the stated presentation rounding is midpoint away from zero",
                       b.loc(t["sp"]), key=f"R1:{b.short}:strategy")
            else:
                rep.ob("R1", f"{b.short}:{m}", False,
                       f"Decimal::{m} in presentation code " + ("uses banker's rounding (half-even): 0.125 serialises as 0.12 here but is shown as £0.13 by the text formatter"
                                                                if m in ("round_dp", "round") else "truncates instead of rounding half away from zero"),
                       b.loc(t["sp"]), key=f"R1:{b.short}:{m}")
    rep.count("presentation_rounding_sites", n)
    return n


FLOATCONV = re.compile(r"(ToPrimitive>::to_f(64|32)|ToPrimitive::to_f(64|32)|TryFrom<rust_decimal::decimal::Decimal> for f(64|32)|Decimal::to_f(64|32)|f(64|32)::from|FromPrimitive>::from_f(64|32)|Decimal::from_f(64|32)\w*)")


def floats(F, rep, bodies=None):
    n = 0
    for b in (bodies if bodies is not None else F.bodies.values()):
        if F.is_derive(b) or (bodies is None and not is_presentation(F, b)):
            continue
        for i, t in b.calls():
            if FLOATCONV.search(t["callee"]) and any("Decimal" in a for a in (t.get("aty") or []) + [t.get("dty", "")]):
                n += 1
                rep.ob("R2", f"{b.short}:to-float", False,
                       f"{t['callee'].split('::')[-1]} converts a Decimal to a binary float on the way to a displayed figure "
                       "(1.005 is 1.00499… in binary and prints as 1.00)", b.loc(t["sp"]), key=f"R2:{b.short}:decimal-to-float")
    rep.count("decimal_float_conversions", n)
    if n == 0:
        rep.ob("R2", "presentation:no-floats", True, "no Decimal↔float conversion in presentation code", "", key="R2:summary")
    return n


def direct_display(F, rep):
    n = 0
    for b in F.bodies.values():
        if b.crate not in ("cgt_formatter_plain", "cgt_formatter_pdf") or F.is_derive(b):
            continue
        for i, t in b.calls():
            if "fmt::rt::Argument" in t["callee"] and "::new_" in t["callee"]:
                ty = (t.get("gargs") or [""])[-1]
                n += 1
                if "rust_decimal::decimal::Decimal" in ty:
                    rep.ob("R3", f"{b.short}:raw-decimal", False,
                           "a Decimal is formatted directly (full precision, no separators) instead of through the cgt-format helpers",
                           b.loc(t["sp"]), key=f"R3:{b.short}:raw-decimal")
    rep.count("formatter_placeholders", n)
    rep.ob("R3", "formatters:helpers-only", True, f"{n} placeholders inspected in the text/PDF formatters", "", key="R3:summary")


def formats(F, rep):
    # dates
    fd = [b for b in F.bodies.values() if b.crate == "cgt_format" and b.kind == "fn" and b.argc == 1 and "NaiveDate" in b.local_ty(1) and "String" in b.ret]
    if not fd:
        rep.unresolved("R4", "format_date", "no cgt_format function NaiveDate → String")
    for b in fd:
        strs = [(_const_through(b, a) or {}).get("str") for _, t in b.calls() if t["callee"].endswith("NaiveDate::format") for a in t["args"][1:]]
        ok = strs == ["%d/%m/%Y"]
        rep.ob("R4", f"{b.short}:date-format", ok, "dates are printed as %d/%m/%Y" if ok else f"date format string is {strs}", b.loc(),
               key=f"R4:{b.short}:date-format")
    # formatters use the shared date helper, not their own format string
    for b in F.bodies.values():
        if b.crate in ("cgt_formatter_plain",) and not F.is_derive(b):
            for _, t in b.calls():
                if t["callee"].endswith("NaiveDate::format"):
                    rep.ob("R4", f"{b.short}:own-date-format", False, "the text formatter formats a date itself instead of calling cgt_format::format_date",
                           b.loc(t["sp"]), key=f"R4:{b.short}:own-date-format")
    # tax year: TaxPeriod Display
    disp = [b for b in F.bodies.values() if b.id.startswith("<cgt_core::models::TaxPeriod as core::fmt::Display>")]
    if len(disp) != 1:
        rep.unresolved("R4", "TaxPeriod-Display", f"{len(disp)} Display impls")
    for b in disp:
        tb = Terms(F, b, inline_depth=2)
        for fc in format_calls(F, b, tb):
            parts = fc["parts"] or []
            shape = [(p[0], p[1] if p[0] == "lit" else None) for p in parts]
            ok = len(parts) == 3 and parts[0][0] == "arg" and parts[1] == ("lit", "/") and parts[2][0] == "arg"
            if ok:
                o = parts[2][4]
                ok = o.get("width") == 2 and (o.get("flags", 0) & (1 << 24) != 0 or o.get("flags", 0) != 0)
                second = parts[2][1]
                ok = ok and any(isinstance(x, tuple) and x and x[0] == "bin" and x[1] == "Rem" and x[3] == ("int", 100) for x in subterms(second)) \
                    and any(isinstance(x, tuple) and x and x[0] == "bin" and x[1] == "Add" and x[3] == ("int", 1) for x in subterms(second))
            rep.ob("R4", "TaxPeriod:YYYY/YY", ok, "tax years print as {start}/{(start+1)%100:02}" if ok else
                   f"tax-year format is {template_text(parts)} with {[p[4] for p in parts if p[0] == 'arg']}", fc["site"], key="R4:TaxPeriod:format")
    # GBP helper: called with '£' and 2
    gbp = [b for b in F.bodies.values() if b.crate == "cgt_format" and b.kind == "fn" and b.argc == 1 and "Decimal" in b.local_ty(1)
           and "String" in b.ret and any(op_const(a) is not None and (op_const(a) or {}).get("int") == "163" for _, t in b.calls() for a in t["args"])]
    rep.ob("R4", "format_gbp:£,2", bool(gbp), "GBP helper passes '£' and 2 decimals to the shared symbol formatter" if gbp else
           "no cgt_format helper formats with the '£' symbol", gbp[0].loc() if gbp else "", key="R4:format_gbp:symbol")
    for b in gbp:
        for _, t in b.calls():
            if t["callee"] in F.bodies:
                ks = [op_const(a) for a in t["args"]]
                prec = [k.get("int") for k in ks if k is not None and k.get("ty") == "u32"]
                rep.ob("R4", "format_gbp:pence", prec == ["2"], "rounded to 2 decimals" if prec == ["2"] else f"precision argument {prec}", b.loc(t["sp"]),
                       key="R4:format_gbp:precision")
                hb = F.bodies[t["callee"]]
                txts = sorted(template_text(fc["parts"]) or "" for fc in format_calls(F, hb))
                # every string the helper can return (symbolic string synthesis): on the is_sign_negative edge it starts with
                # "-" followed by the symbol, on the other edge it does not start with "-"
                from strsyn import StrSyn, NotSynthesisable
                neg = False
                try:
                    negs, poss = [], []
                    for a in StrSyn(F).returns(hb):
                        if a["parts"] is None:
                            continue
                        txt = "".join(p[1] if p[0] == "lit" else "{}" for p in a["parts"])
                        g = [(c_, v) for c_, v in a["guards"] if isinstance(c_, tuple) and c_ and c_[0] == "call" and parse_callee(c_[1])[2] == "is_sign_negative"]
                        if g:
                            (negs if g[-1][1] != "0" else poss).append(txt)
                    neg = bool(negs) and all(x.startswith("-{}") for x in negs) and bool(poss) and not any(x.startswith("-") for x in poss)
                    txts = sorted(set(negs)) + sorted(set(poss))
                except NotSynthesisable:
                    neg = any(x.startswith("-{}") for x in txts)
                rep.ob("R4", "format_gbp:negative", neg, "negative amounts print as -£…" if neg else f"templates {txts} have no leading minus form",
                       hb.loc(), key="R4:format_gbp:negative")
                seps = any(c in F.bodies and any((op_const(a) or {}).get("int") == "44" for _, u in F.bodies[c].calls() for a in u["args"])
                           for c in F.callgraph().get(hb.id, ()))
                rep.ob("R4", "format_gbp:thousands", seps, "thousands separators are inserted" if seps else "no ',' separator insertion reachable from the GBP helper",
                       hb.loc(), key="R4:format_gbp:thousands")
    # money figures in the text formatter go through format_gbp
    plain = [b for b in F.bodies.values() if b.crate == "cgt_formatter_plain" and not F.is_derive(b)]
    uses = sum(1 for b in plain for _, t in b.calls() if t["callee"].endswith("cgt_format::format_gbp"))
    rep.ob("R4", "plain:uses-format_gbp", uses >= 10, f"{uses} money figures of the text report go through format_gbp" if uses >= 10 else
           f"only {uses} calls to format_gbp in the text formatter", "", key="R4:plain:format_gbp-uses")


QUANTITY_FIELDS = ("quantity", "amount", "ratio")


def exact_quantities(F, rep):
    """R5: in the derived serializers of the report model, share quantities and split ratios are written as the Decimal
    itself — never through a `serialize_with` helper (those round to pence) — so JSON shows each quantity exactly like
    the text and PDF reports do"""
    n = 0
    for b in F.bodies.values():
        if b.crate != "cgt_core" or not (b.mac or "").startswith("derive:serde_derive::Serialize") or not b.id.endswith("::serialize"):
            continue
        if "__SerializeWith" in b.id:
            continue
        for i, t in b.calls():
            if parse_callee(t["callee"])[2] != "serialize_field" or len(t["args"]) < 3:
                continue
            k = _const_through(b, t["args"][1])
            name = (k or {}).get("str")
            if name not in QUANTITY_FIELDS:
                continue
            vty = (t.get("aty") or ["", "", ""])[2]
            n += 1
            ok = "__SerializeWith" not in vty
            owner = b.id.split(" for ")[-1].split(">")[0].split("::")[-1]
            rep.ob("R5", f"{owner}.{name}:exact", ok, f"`{name}` is serialised as the exact Decimal" if ok else
                   f"{owner}.{name} is serialised through a serialize_with helper (money rounding): the JSON quantity differs from the text/PDF quantity",
                   b.loc(t["sp"]), key=f"R5:{owner}.{name}:rounded-quantity")
    rep.count("quantity_fields_serialised", n)
    if n < 4:
        rep.unresolved("R5", "quantity-fields", f"only {n} quantity/ratio fields found in derived serializers of the report model")


def same_named_figures(F, rep):
    """R6 (the same figure under the same name): a front-end that re-packages the report into its own structures (the MCP explain
    tool) fills a field that carries the NAME of a report-model field from that very field: `proceeds` from `disposal.proceeds`
    (net of fees, what every other front-end shows), not from `gross_proceeds`; `allowable_cost` from `allowable_cost`, … Decided
    on the aggregates of front-end ADTs: the report-model fields read by the term of field f, when f is itself a report-model
    field name, must include f."""
    model_fields = set()
    for b in F.bodies.values():
        if b.crate != "cgt_core":
            continue
        for i, si, s in b.assigns():
            rv = s["rv"]
            if rv["k"] == "agg" and rv["adt"] in ("cgt_core::models::Disposal", "cgt_core::models::Match", "cgt_core::models::TaxYearSummary"):
                model_fields.update(rv["fields"])
    if len(model_fields) < 8:
        rep.unresolved("R6", "report-model", f"only {len(model_fields)} report-model field names found")
        return
    n = 0
    for b in F.bodies.values():
        if b.crate not in ("cgt_mcp", "cgt_wasm") or not P.user_written(F, b):
            continue
        tb = None
        for i, si, s in b.assigns():
            rv = s["rv"]
            if rv["k"] != "agg" or not rv["adt"].startswith(("cgt_mcp::", "cgt_wasm::")) or not rv.get("fields"):
                continue
            tb = tb or Terms(F, b, inline_depth=1)
            for fname, op in zip(rv["fields"], rv["ops"]):
                if fname not in model_fields:
                    continue
                term = tb.operand(op)
                reads = {x[2] for x in subterms(term) if isinstance(x, tuple) and len(x) == 3 and x[0] == "field" and x[2] in model_fields}
                if not reads:
                    continue
                n += 1
                ok = fname in reads
                owner = rv["adt"].split("::")[-1]
                rep.ob("R6", f"{owner}.{fname}", ok, f"`{fname}` is taken from the report's `{fname}`" if ok else
                       f"{owner}.{fname} is filled from the report's {sorted(reads)}: the tool shows another figure under the name the other "
                       f"front-ends use for `{fname}`", b.loc(s["sp"]), key=f"R6:{owner}.{fname}")
    rep.count("front_end_fields_named_like_the_report", n)
    if n < 4:
        rep.unresolved("R6", "front-end-structs", f"only {n} front-end fields named like report-model fields found (MCP explain structures expected)")


REPORT_LISTS = ("tax_years", "disposals", "matches")
# `filter_map` is not in the list: it is the iterator spelling of `for x in list { if let Some(line) = render(x) { .. } }`, a
# per-element rendering decision which this rule does not judge in the loop form either (behaviour-preserving rewrite r12)
DROPPING = ("filter", "skip", "take", "take_while", "skip_while", "step_by")
LISTING = ("collect", "next", "for_each", "extend", "try_for_each", "fold", "try_fold")


def same_lists(F, rep):
    """R7 (the front-ends list the same tax years, disposals and legs): a presentation crate walks `tax_years`, `disposals` and
    `matches` of the report as they are — a stage that drops elements (filter, skip, take, …) in a chain that is then listed
    (collected, looped over) makes one front-end omit a year or a leg that the JSON report, which serialises the lists
    themselves, shows. Searching or counting chains (any / find / count / sum) are not listings, and neither is a filter whose
    predicate captures a value from its environment (a look-up by the caller's key)."""
    n = 0
    bad = []
    for b in F.bodies.values():
        if b.crate not in PRESENTATION_CRATES or not P.user_written(F, b):
            continue
        tb = None
        for i, t in b.calls():
            m = parse_callee(t["callee"])[2]
            if m not in LISTING or not t["args"]:
                continue
            tb = tb or Terms(F, b, inline_depth=0)
            recv = tb.operand(t["args"][0])
            walked = None
            dropped = None
            for x in subterms(recv):
                if isinstance(x, tuple) and len(x) == 3 and x[0] == "field" and x[2] in REPORT_LISTS:
                    walked = x[2]
            if walked is None:
                continue
            n += 1
            for x in subterms(recv):
                if isinstance(x, tuple) and x and x[0] == "call" and parse_callee(x[1])[2] in DROPPING and x[2] and \
                        any(isinstance(y, tuple) and len(y) == 3 and y[0] == "field" and y[2] in REPORT_LISTS for y in subterms(x[2][0])):
                    # a predicate that captures something from its environment (the ticker or date a caller asked for) is a
                    # query, not a presentation of the list; one that looks at the element alone decides what the reader sees
                    clo = x[2][1] if len(x[2]) > 1 else None
                    if isinstance(clo, tuple) and clo and clo[0] == "closure" and len(clo) > 2 and clo[2]:
                        continue
                    dropped = parse_callee(x[1])[2]
            if dropped:
                bad.append((b, t, walked, dropped))
    seen = set()
    for b, t, walked, dropped in bad:
        k = (b.short, walked)
        if k in seen:
            continue
        seen.add(k)
        rep.ob("R7", f"{b.short}:{walked}:listed-in-full", False,
               f"{b.short} lists `{walked}` through `.{dropped}(..)`: entries the JSON report shows are missing from this front-end",
               b.loc(t["sp"]), key=f"R7:{b.short}:{walked}:dropping-stage")
    rep.ob("R7", "report-lists:listed-in-full", not bad, f"{n} walks over tax_years / disposals / matches in presentation code, none through a dropping stage"
           if not bad else f"{len(bad)} listings of report lists drop elements", "", key="R7:report-lists")
    rep.count("report_list_walks", n)
    if n < 4:
        rep.unresolved("R7", "report-list-walks", f"only {n} walks over the report's lists found in presentation code")


def sibling_holdings_filter(F, rep):
    """R8 (the front-ends list the same holdings): the text and the PDF report both show the holdings that still have shares; the
    predicate each applies to `report.holdings` must be the same one — a formatter that also requires, say, a positive cost drops a
    holding the other one (and the JSON) shows (seeded change C17-s6)."""
    from mir import closure_summary
    preds = {}
    for b in F.bodies.values():
        if b.crate not in ("cgt_formatter_plain", "cgt_formatter_pdf") or not P.user_written(F, b):
            continue
        tb = None
        for i, t in b.calls():
            if parse_callee(t["callee"])[2] not in ("filter", "retain") or len(t["args"]) < 2:
                continue
            tb = tb or Terms(F, b, inline_depth=0)
            recv = tb.operand(t["args"][0])
            if not any(isinstance(x, tuple) and len(x) == 3 and x[0] == "field" and x[2] == "holdings" for x in subterms(recv)):
                continue
            clo = tb.operand(t["args"][1])
            if isinstance(clo, tuple) and clo and clo[0] == "closure" and clo[1] in F.bodies:
                cb = F.bodies[clo[1]]
                ct = Terms(F, cb, inline_depth=0)
                tests = set()
                for x in [ct.local(0)] + [ct.operand(cb.term(s_)["discr"]) for s_ in cb.reachable() if cb.term(s_)["k"] == "switch"]:
                    for y in subterms(x):
                        if isinstance(y, tuple) and y and y[0] == "cmp":
                            flds = sorted({z[2] for z in subterms(y) if isinstance(z, tuple) and len(z) == 3 and z[0] == "field" and isinstance(z[2], str)})
                            tests.add((y[1], tuple(flds)))
                preds.setdefault(b.crate, set()).update(tests)
                preds.setdefault(b.crate + ":site", b.loc(t["sp"]))
    a, c_ = preds.get("cgt_formatter_plain"), preds.get("cgt_formatter_pdf")
    if a is None or c_ is None:
        rep.note("R8: a holdings filter was not found in both formatters (nothing to compare)")
        return
    ok = a == c_
    rep.ob("R8", "holdings-filter:plain=pdf", ok, f"text and PDF keep the same holdings ({sorted(a)})" if ok else
           f"the text report keeps holdings under {sorted(a)}, the PDF under {sorted(c_)}: one of them omits a holding the other shows",
           preds.get("cgt_formatter_plain:site", ""), key="R8:holdings-filter:plain-vs-pdf")


NUMERIC_TY = re.compile(r"^&*(rust_decimal::decimal::Decimal|f32|f64|[iu](8|16|32|64|128|size))$")
PRESENTATION_CRATES = ("cgt_format", "cgt_formatter_plain", "cgt_formatter_pdf", "cgt_mcp", "cgt_tool", "cgt_wasm")


def clipped_text(F, rep=None, crates=PRESENTATION_CRATES, rule="R4"):
    """No presentation template gives a PRECISION to a text argument. On a number `{:.2}` rounds; on a string `{:.12}` / `{:<w$.w$}` CUTS
    the text after that many characters. A table cell that is clipped to its column shows `£1,234,567.8` where every other output of
    the same report shows £1,234,567.89 (seeded change C17-s9). Width alone only pads."""
    from flow import format_calls
    bad, n = [], 0
    for b in F.bodies.values():
        if b.crate not in crates or not P.user_written(F, b):
            continue
        for fc in format_calls(F, b):
            for p in fc["parts"] or []:
                if p[0] != "arg":
                    continue
                n += 1
                if "precision" in p[4] and not NUMERIC_TY.match(str(p[3]).replace("&'_ ", "&").replace(" ", "")):
                    bad.append((b, fc["site"], p[3]))
    if rep is not None:
        rep.ob(rule, "templates:no-precision-on-text", not bad, f"{n} template arguments in presentation code, no text argument carries a precision" if not bad else
               "; ".join(f"`{b.short}` formats a `{ty}` with a precision" for b, site, ty in bad[:3]) + ": the text (an already formatted figure) is cut to that "
               "many characters, so a long figure loses its last digits in this output only", bad[0][1] if bad else "", key=f"{rule}:templates:text-clipped")
        rep.count("presentation_template_args", n)
    return bad


def run(ctx, rep):
    F = ctx.F
    clipped_text(F, rep)
    # the same figures everywhere presuppose the same calculation everywhere: every front-end hands over all parsed lines
    import rules.c02 as _c02
    _c02.frontends_hand_over_everything(F, rep, "R12")
    sibling_holdings_filter(F, rep)
    exact_quantities(F, rep)
    same_named_figures(F, rep)
    same_lists(F, rep)
    n = rounding(F, rep)
    if n < 3:
        rep.unresolved("R1", "rounding-sites", f"only {n} rounding calls found in presentation code")
    floats(F, rep)
    direct_display(F, rep)
    formats(F, rep)
    import pdfrules
    pdfrules.run(ctx, rep)


def controls(pctx, rep):
    from core import Report
    F = pctx.F
    r = Report("ctl")
    rounding(F, r, bodies=[b for b in F.bodies.values() if b.short.startswith("round_")])
    ks = {v["key"] for v in r.violations}
    rep.control("R1:bare-round_dp", any("round_bare" in k for k in ks), "posctl::round_bare")
    rep.control("R1:away-ok", not any("round_away_ok" in k for k in ks), "posctl::round_away_ok must stay silent")
    rep.control("R1:rounded-twice", any("round_twice" in k and "rounded-twice" in k for k in ks), "posctl::round_twice")
    rep.control("R1:wrong-strategy", any("round_half_even_strategy" in k for k in ks), "posctl::round_half_even_strategy")
    cb = {b.short for b, site, ty in clipped_text(F, None, crates=("posctl",))}
    rep.control("R4:text-clipped", cb == {"fmt_text_clipped"}, f"posctl: text formatted with a precision in {sorted(cb)} (expected ['fmt_text_clipped'])")
    r2 = Report("ctl")
    floats(F, r2, bodies=[b for b in F.bodies.values() if b.short.startswith("float_")])
    rep.control("R2:to_f64", any("float_conv" in v["key"] for v in r2.violations), "posctl::float_conv")
    # the Typst reader and the template rules on a known snippet: a raw figure, a figure through the wrong formatter and a
    # both-ended trim must be reported, the well-formed twin must not
    import pdfrules, typst as T
    GOOD = ('#let fx(value, digits: 2) = str(calc.round(value, digits: digits))\n'
            '#let money(value) = {\n  let sign = if value < 0 { "-" } else { "" }\n  sign + "£" + fx(calc.abs(value), digits: 2)\n}\n'
            '#let qty(value) = fx(value, digits: 6)\n'
            '#for row in data.rows [ #money(row.total_gain) #qty(row.quantity) #if row.total_gain >= 0 [up] ]\n')
    BAD = GOOD.replace("#money(row.total_gain)", "#str(row.total_gain)").replace("#qty(row.quantity)", "#money(row.quantity)")
    table = {"total_gain": {"decimal"}, "quantity": {"decimal"}}

    def judge(src):
        tpl = pdfrules.Template.__new__(pdfrules.Template)
        tpl.src = src
        tpl.nodes = T.parse(src)
        tpl.fns = T.functions(tpl.nodes)
        tpl.values = {k: T.value_of(body) for k, (params, body) in tpl.fns.items()}
        tpl.roles = {}
        tpl._roles()
        tpl.currency_dicts = set()
        r = pdfrules.Render(tpl, table, None)
        for n in tpl.nodes:
            r.judge(n, {}, None, "document")
        return tpl, r
    try:
        tg, rg = judge(GOOD)
        tb_, rb = judge(BAD)
        ok = (not rg.bad and rg.n_fmt == 2 and tg.roles.get("MONEY") == ["money"] and tg.roles.get("QTY") == ["qty"]
              and len(rb.bad) == 2 and {w[2] for w in rb.bad} == {"money", "shares"})
        rep.control("R10:typst-reader", ok, f"template control: good twin {len(rg.bad)} reports / {rg.n_fmt} formatter calls, bad twin {[(w[1], w[3][:30]) for w in rb.bad]}")
    except Exception as e:
        rep.control("R10:typst-reader", False, f"Typst reader failed on the control snippet: {e!r}")
