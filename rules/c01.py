"""C01 — Same Day, then 30-day, then Section 104 (structural clauses)."""
from mir import Terms, parse_callee, show, op_place, op_const, place_proj, subterms, is_decimal_arith_assign
from flow import root_of_operand, is_slice_sort
from roles import Roles, RULES, agg_fields, guards_of, truth, is_agg
import panics as P

META = {
    "explanation": (
        "Roles are discovered structurally (leg producer for rule R = the function building Match{rule: R}; cascade = the "
        "function calling all three; day loop = its caller inside a loop). R1 (ORDER/MPT): in the cascade each leg producer "
        "is called at exactly one site, SameDay dominates BedAndBreakfast dominates Section104, and the Section104 call is on "
        "the true edge of `remaining > 0`. R2 (ORDER): within one day of the day loop the loops run in the order: add the day's "
        "acquisitions, run the cascade for the day's disposals, pool the unmatched acquisitions, apply splits. R3 (IVAL): the "
        "look-ahead compares num_days(candidate.date − sale.date) (minuend the candidate, subtrahend the sale) with constants; "
        "the set of values for which a candidate BUY is handled, obtained by intersecting the dominating branch conditions, "
        "is exactly [1, 30] (constants evaluated, any spelling of the comparisons). R4: the look-ahead walks the date-sorted "
        "slice forwards from the sale's index and the canonicalising sort is stable and ascending on date. R5 (PROV): legs are "
        "labelled Some(sale date) / Some(candidate date) / None. R6: the 30-day matched quantity depends on the prior-claim map "
        "read at the candidate's index and on the same-day reservation for (candidate date, ticker). R7: intervening SPLIT/UNSPLIT "
        "compound into the look-ahead's cumulative ratio (×= / ÷= by the variant's own ratio) and quantities are rescaled with it "
        "(shared with C10-R2/R3). R6 also requires that claims on a later acquisition are accumulated on its own entry (shared with C02-R3). Does not decide quantities, "
        "costs or the reservation state machine against the statute. R3 also: every other effect of a look-ahead candidate (a SPLIT/UNSPLIT handed to the ratio helper, …) lies behind the `days ≥ 1` test, so lines dated on the sale's own day act the same wherever they are written. R10: the transaction list is never thinned (dedup/retain/truncate/…) between the caller and the day loop (shared with C02-R10). R2 also: each phase of a day (add acquisitions, match disposals, pool, apply splits) runs once per line of that day — in a loop below the day loop, not on one remembered line. R4 also reads a `sort_by_key` canonical sort. R6 also: claims and cost offsets are read under the key they were booked under — a position in the whole transaction list (shared with C09-R5)."),
    "trusted_base": ["chrono: (a − b).num_days() is the signed day difference", "rustc MIR + resolution", "Vec::sort_by is stable"],
}

INF = 10 ** 9


def interval_of(cond, val, subject):
    """interval (lo, hi) of integer `subject` implied by switch condition `cond` taking truth `val`; None if unrelated"""
    if not (isinstance(cond, tuple) and cond and cond[0] == "bin" and cond[1] in ("Lt", "Le", "Gt", "Ge", "Eq", "Ne")):
        return None
    op, a, b = cond[1], cond[2], cond[3]
    flip = {"Lt": "Gt", "Gt": "Lt", "Le": "Ge", "Ge": "Le", "Eq": "Eq", "Ne": "Ne"}
    neg = {"Lt": "Ge", "Ge": "Lt", "Gt": "Le", "Le": "Gt", "Eq": "Ne", "Ne": "Eq"}
    if a == subject and b[0] == "int":
        k = b[1]
    elif b == subject and a[0] == "int":
        k = a[1]
        op = flip[op]
    else:
        return None
    if not val:
        op = neg[op]
    return {"Lt": (-INF, k - 1), "Le": (-INF, k), "Gt": (k + 1, INF), "Ge": (k, INF), "Eq": (k, k), "Ne": None}[op]


def cascade_order(R, rep):
    c = R.require("cascade")
    ids = {r: R.leg(r)[0].id for r in RULES}
    sites = {}
    for r in RULES:
        sites[r] = [(i, t) for i, t in c.calls() if t["callee"] == ids[r]]
        rep.ob("R1", f"cascade:{r}:one-call-site", len(sites[r]) == 1,
               f"{R.leg(r)[0].short} is called at exactly one site in {c.short}" if len(sites[r]) == 1 else
               f"{R.leg(r)[0].short} is called at {len(sites[r])} sites in {c.short}", c.loc(), key=f"R1:cascade:{r}:sites")
    if any(len(sites[r]) != 1 for r in RULES):
        return
    sd, bb, s104 = sites["SameDay"][0][0], sites["BedAndBreakfast"][0][0], sites["Section104"][0][0]
    ok1 = c.dominates(sd, bb) and sd != bb
    ok2 = c.dominates(bb, s104) and bb != s104
    rep.ob("R1", "cascade:SameDay≺30-day", ok1, "same-day matching dominates 30-day matching" if ok1 else
           "30-day matching can run without (or before) same-day matching", c.loc(sites["BedAndBreakfast"][0][1]["sp"]), key="R1:cascade:order:sd-bnb")
    rep.ob("R1", "cascade:30-day≺Section104", ok2, "30-day matching dominates pool matching" if ok2 else
           "Section 104 matching can run without (or before) 30-day matching", c.loc(sites["Section104"][0][1]["sp"]), key="R1:cascade:order:bnb-s104")
    # all three receive the same `remaining` (a &mut to one local)
    tb = R.terms(c, 0)
    roots = set()
    for r in RULES:
        i, t = sites[r][0]
        for a, ty in zip(t["args"], t.get("aty", [])):
            if ty == "&mut rust_decimal::decimal::Decimal":
                ro = root_of_operand(c, a)
                if ro:
                    roots.add(ro[0])
    rep.ob("R1", "cascade:shared-remaining", len(roots) == 1, "all three rules draw down one shared remaining quantity" if len(roots) == 1 else
           f"the leg producers receive {len(roots)} different remaining counters", c.loc(), key="R1:cascade:shared-remaining")
    # S104 on the true edge of remaining > 0
    ok3 = False
    for cond, val, s in guards_of(c, tb, s104):
        if isinstance(cond, tuple) and cond and cond[0] == "cmp" and cond[1] == "Gt" and cond[3] == ("const", "Decimal::ZERO") and truth(val):
            if len(roots) == 1 and _mentions_local(c, cond[2], next(iter(roots))):
                ok3 = True
    rep.ob("R1", "cascade:Section104-only-if-remaining", ok3, "the pool is consulted only when something remains after same-day and 30-day matching" if ok3 else
           "the Section 104 call is not guarded by `remaining > 0` on the shared counter", c.loc(sites["Section104"][0][1]["sp"]),
           key="R1:cascade:s104-guard")


def _mentions_local(b, term, l):
    name = b.local_name(l)
    return any(isinstance(x, tuple) and x and x[0] == "var" and x[1] == name for x in subterms(term))


def dayloop_order(R, rep):
    d = R.require("dayloop")
    c = R.require("cascade")
    F = R.F
    rg = R.region(d)
    pos = {}
    for it in rg.items:
        cal = it["term"]["callee"]
        tag = None
        if cal.endswith("AcquisitionLedger::add_acquisition"):
            tag = "add the day's acquisitions"
        elif cal == c.id:
            tag = "match the day's disposals"
        else:
            k = is_decimal_arith_assign(cal)
            if k and it["term"]["args"]:
                tgt = R._ref_target(it["body"], op_place(it["term"]["args"][0]))
                if tgt is None:
                    # the share count is handed to a helper as `&mut pool.quantity`: the compound assignment works on the helper's
                    # parameter — what it points to is read at the helper's call sites inside the day's region
                    from flow import root_of_operand
                    ib = it["body"]
                    r0 = root_of_operand(ib, it["term"]["args"][0])
                    if r0 and 1 <= r0[0] <= ib.argc and not r0[1]:
                        tg = {R._ref_target(it2["body"], op_place(it2["term"]["args"][r0[0] - 1])) for it2 in rg.items
                              if it2["term"]["callee"] == ib.id and len(it2["term"]["args"]) >= r0[0] and op_place(it2["term"]["args"][r0[0] - 1]) is not None}
                        if len(tg) == 1:
                            tgt = next(iter(tg))
                if tgt == ("cgt_core::models::Section104Holding", "quantity"):
                    if k == "AddAssign":
                        tag = "pool unmatched acquisitions"
                    elif k in ("MulAssign", "DivAssign"):
                        tag = "apply splits"
        if tag:
            pos.setdefault(tag, set()).add(it["root_bb"])
    order = ["add the day's acquisitions", "match the day's disposals", "pool unmatched acquisitions", "apply splits"]
    missing = [n for n in order if n not in pos]
    if missing:
        rep.unresolved("R2", "day-phases", f"day loop {d.short} (with its helpers) never reaches: {missing}")
        return
    outer = max((bl for h, bl in d.loops() if any(bb in bl for bb in pos["match the day's disposals"])), key=len, default=None)
    if outer is None:
        rep.unresolved("R2", "day-loop", "the cascade is not called inside a loop")
        return
    outer_h = [h for h, bl in d.loops() if bl == outer][0]

    def anchor(bb):
        """the block that stands for a phase: the header of the innermost loop strictly inside the day loop, else the block"""
        ls = [(h, bl) for h, bl in d.loops() if bb in bl and bl < outer]
        return min(ls, key=lambda x: len(x[1]))[0] if ls else bb

    anchors = {n: {anchor(bb) for bb in pos[n]} for n in order}
    for n1, n2 in zip(order, order[1:]):
        ok = True
        for a1 in anchors[n1]:
            for a2 in anchors[n2]:
                fwd = a1 != a2 and a2 in d.reach_from(a1, removed_blocks=(outer_h,))
                back = a1 in d.reach_from(a2, removed_blocks=(outer_h,))
                ok = ok and fwd and not back
        rep.ob("R2", f"dayloop:{n1} ≺ {n2}", ok, f"within one day: {n1}, then {n2}" if ok else
               f"day-loop order broken: `{n2}` does not strictly follow `{n1}` within one date", d.loc(), key=f"R2:dayloop:{n1}≺{n2}")


def every_line_of_day(R, rep, rule="R2", only=None):
    """each phase of a day is offered EVERY line of that day: the call that does the phase's work sits in a loop below the day loop
    (a loop of the day loop's own body, a loop of the helper it delegates to, or a closure handed to an internal iteration) — not
    on a single remembered line. A day scan that keeps "the day's split" in one slot applies only the last SPLIT/UNSPLIT written
    for that date: with two securities splitting on one day, one of them keeps its old share count (seeded change C09-s8)."""
    d = R.require("dayloop")
    c = R.require("cascade")
    rg = R.region(d)
    outer = None
    sites = {}
    for it in rg.items:
        cal = it["term"]["callee"]
        tag = None
        if cal.endswith("AcquisitionLedger::add_acquisition"):
            tag = "add the day's acquisitions"
        elif cal == c.id:
            tag = "match the day's disposals"
        else:
            k = is_decimal_arith_assign(cal)
            if k and it["term"]["args"]:
                tgt = R._ref_target(it["body"], op_place(it["term"]["args"][0]))
                if tgt == ("cgt_core::models::Section104Holding", "quantity"):
                    tag = "pool unmatched acquisitions" if k == "AddAssign" else "apply splits" if k in ("MulAssign", "DivAssign") else None
        if tag and (only is None or tag in only):
            sites.setdefault(tag, []).append(it)
    casc = [it["root_bb"] for it in sites.get("match the day's disposals", [])] or [it["root_bb"] for its in sites.values() for it in its]
    loops = d.loops()
    outer = max((bl for h, bl in loops if any(bb in bl for bb in casc)), key=len, default=None)
    if outer is None:
        rep.note(f"{rule}: the day loop has no loop of its own around its phases (internal iteration); per-line repetition is not judged")
        return
    for tag, its in sites.items():
        bad = None
        for it in its:
            cur, ok = it, False
            while cur is not None and not ok:
                body, bb = cur["body"], cur["bb"]
                if body.id == d.id:
                    ok = any(bb in bl and bl < outer for h, bl in loops)
                elif body.kind == "closure":
                    ok = True
                else:
                    ok = any(bb in bl for h, bl in body.loops())
                cur = (cur.get("ex") or {}).get("via")
            if not ok:
                bad = it
        rep.ob(rule, f"dayloop:{tag}:every-line", bad is None, f"`{tag}` runs once per line of the day" if bad is None else
               f"`{tag}` is done for ONE remembered line of the day, not in a loop over the day's lines: other lines of that date (another security's "
               "SPLIT, a second purchase) are silently left out", (bad or its[0])["body"].loc(((bad or its[0])["term"]).get("sp")), key=f"{rule}:dayloop:{tag}:every-line")


def window(R, rep):
    b, sites = R.leg("BedAndBreakfast")
    tb = R.terms(b, 0)
    F = R.F
    # WINDOW: local defined by num_days(Sub(NaiveDate, NaiveDate))
    win = None
    for i, t in b.calls():
        if parse_callee(t["callee"])[2] == "num_days":
            term = tb.call_term(t)
            win = (i, t, term)
    if win is None and sites:
        # the day difference may be computed inside the iterator chain that feeds the look-ahead loop
        for cond, val, s in guards_of(b, tb, sites[0][0]):
            for x in subterms(cond):
                if isinstance(x, tuple) and x and x[0] == "call" and parse_callee(x[1])[2] == "num_days" and win is None:
                    win = (sites[0][0], {"sp": None}, x)
    if win is None:
        rep.unresolved("R3", "WINDOW", f"no num_days() difference in {b.short}")
        return
    i, t, wterm = win
    diff = wterm[2][0] if wterm[0] == "call" else None
    minuend = subtrahend = None
    if isinstance(diff, tuple) and diff and diff[0] == "call" and parse_callee(diff[1])[2] == "sub":
        minuend, subtrahend = diff[2]
    cand_ok = minuend is not None and any(isinstance(x, tuple) and x and x[0] == "call" and parse_callee(x[1])[2] == "next" for x in subterms(minuend)) \
        and show(minuend).endswith(".date")
    sale_ok = subtrahend is not None and isinstance(subtrahend, tuple) and subtrahend[0] == "field" and subtrahend[2] == "date" \
        and isinstance(subtrahend[1], tuple) and subtrahend[1][0] == "param"
    rep.ob("R3", "window:days = candidate.date − sale.date", cand_ok and sale_ok,
           "day difference is (look-ahead candidate's date) − (sale's date)" if cand_ok and sale_ok else
           f"day difference is {show(minuend)[:50]} − {show(subtrahend)[:50]}: orientation/provenance wrong", b.loc(t["sp"]),
           key="R3:window:orientation")
    # block handling a candidate BUY: the leg construction site
    leg_bb = sites[0][0]
    lo, hi = -INF, INF
    used = []
    for cond, val, s in guards_of(b, tb, leg_bb):
        iv = interval_of(cond, truth(val), wterm)
        if iv is not None:
            lo, hi = max(lo, iv[0]), min(hi, iv[1])
            used.append(f"{show(cond)[-40:]}={'T' if truth(val) else 'F'}")
    const = next((c for p, c in F.consts.items() if c["ty"] == "i64" and "WINDOW" in p.upper() and "matcher" in p), None)
    rep.count("bnb_window_const", const["val"] if const else None)
    ok = (lo, hi) == (1, 30)
    rep.ob("R3", "window:[1,30]", ok,
           f"a candidate acquisition is considered exactly for day differences in [{lo}, {hi}] (from {used})" if ok else
           f"a candidate acquisition is considered for day differences in [{lo if lo > -INF else '-inf'}, {hi if hi < INF else '+inf'}] — the 30-day rule requires [1, 30] "
           f"(D+30 in, D+31 and ≤ D out); dominating conditions: {used}", b.loc(t["sp"]), key="R3:window:interval")
    # every OTHER effect of a candidate line (a SPLIT/UNSPLIT rescaling the look-ahead, anything handed to a helper) also lies
    # strictly after the sale's date: the loop starts at the line after the sale, so lines of the sale's own date are visited
    # or not depending on where they stand in the file — an effect applied before the `days > 0` test makes the result depend on
    # line order (seeded change C06-s7)
    n_eff = 0
    for j, u in b.calls():
        hb = F.bodies.get(u["callee"])
        if hb is None or hb.crate != b.crate or not b.in_loop(j) or hb.id.startswith("cgt_core::matcher::acquisition_ledger::") or j == leg_bb:
            continue
        args = [tb.operand(a) for a in u["args"]]
        cand = [a for a in args if "next(" in show(a, 0) and (any(isinstance(x, tuple) and len(x) == 3 and x[0] == "field" and x[2] in ("operation", "1", "date")
                                                                   for x in subterms(a)) or (isinstance(a, tuple) and a and a[0] == "some"))]
        # the premise (visited or not depending on position) holds only for an iterator positioned by the sale's index
        # (skip / slice from an index); a scan over ALL lines sees the sale's whole day whatever the line order
        cand = [a for a in cand if any(isinstance(x, tuple) and x and x[0] == "call" and parse_callee(x[1])[2] in ("skip", "index", "get", "split_at", "nth", "skip_while")
                                        for x in subterms(a))]
        if not cand:
            continue
        elo = -INF
        for cond, val, s_ in guards_of(b, tb, j):
            iv = interval_of(cond, truth(val), wterm)
            if iv is not None:
                elo = max(elo, iv[0])
        n_eff += 1
        okk = elo >= 1
        rep.ob("R3", f"window:effect:{hb.short.split('::')[-1]}@{j}", okk, "the candidate reaches this helper only for day differences ≥ 1" if okk else
               f"`{hb.short.split('::')[-1]}` receives candidates with day difference ≥ {elo if elo > -INF else '-inf'}: lines dated on the sale's own day take effect "
               "or not depending on whether they are written after or before the sale", b.loc(u["sp"]), key=f"R3:window:effect-before-window:{hb.short.split('::')[-1]}")
    rep.count("lookahead_candidate_effects", n_eff)
    # ticker guard dominates too (shared with C09)
    # R4 forwards from the sale index
    nexts = [(j, u) for j, u in b.calls() if parse_callee(u["callee"])[2] == "next" and b.in_loop(j)]
    fw = False
    why = "look-ahead iterator not found"
    for j, u in nexts:
        it = tb.operand(u["args"][0])
        aty = (u.get("aty") or [""])[0]
        calls = [parse_callee(x[1])[2] for x in subterms(it) if isinstance(x, tuple) and x and x[0] == "call"]
        if "Rev<" in aty or "rev" in calls:
            why = "the look-ahead walks the timeline backwards (rev): the LATEST acquisition in the window would be matched first"
            fw = False
            break
        if "skip" in calls and "enumerate" in calls:
            sk = [x for x in subterms(it) if isinstance(x, tuple) and x and x[0] == "call" and parse_callee(x[1])[2] == "skip"]
            arg = sk[0][2][1] if sk else None
            okk = isinstance(arg, tuple) and arg[0] == "bin" and arg[1] == "Add" and arg[3] == ("int", 1) and arg[2][0] == "param"
            fw = bool(okk)
            why = "look-ahead walks the sorted timeline forwards from sale index + 1 (earliest first)" if okk else f"look-ahead starts at {show(arg)[:40]}"
    rep.ob("R4", "lookahead:forwards-from-sale", fw, why, b.loc(), key="R4:lookahead:direction")
    # the slice it walks is the canonically sorted one: CANON sorts by date ascending with a stable sort
    canon = R.require("canon")
    import rules.c16 as c16
    ctb = R.terms(canon, 0)
    ok_sort = False
    whys = "no sort in the canonicaliser"
    for j, u in canon.calls():
        m = is_slice_sort(u["callee"])
        if not m:
            continue
        clo = c16._closure_of(canon, u["args"][1]) if len(u["args"]) > 1 else None
        keys, asc = [], True
        if clo in F.bodies:
            ct = Terms(F, F.bodies[clo], inline_depth=1)
            if m.endswith("by_key"):
                # key-extraction form: the closure's value is the key (a field of its parameter, or a tuple of them, first
                # component most significant); `Reverse(..)` turns the order round
                ret = ct.local(0)
                if any(isinstance(x, tuple) and x and x[0] == "adt" and "Reverse" in str(x[1]) for x in subterms(ret)) or \
                        any(isinstance(x, tuple) and x and x[0] == "call" and "Reverse" in str(x[1]) for x in subterms(ret)):
                    asc = False
                comps = list(ret[1]) if isinstance(ret, tuple) and ret and ret[0] == "tuple" and isinstance(ret[1], (list, tuple)) else [ret]
                for cpt in comps:
                    pr = c16._param_root(cpt)
                    if pr:
                        keys.append(".".join(x for x in pr[1] if not x.endswith("()")))
            for lhs, rhs in c16._cmp_orientation(ct.local(0)):
                lr, rr = c16._param_root(lhs), c16._param_root(rhs)
                if lr and rr:
                    keys.append(".".join(lr[1]))
                    asc = asc and lr[0] < rr[0]
        ok_sort = ("unstable" not in m) and keys[:1] == ["date"] and asc
        whys = f"{m} by {keys} ascending={asc}"
    rep.ob("R4", "canon:stable-ascending-date-sort", ok_sort, "transactions are sorted by date, ascending, with a stable sort before matching" if ok_sort else
           f"canonical sort is {whys}", canon.loc(), key="R4:canon:sort")


def labels(R, rep):
    for r in RULES:
        b, sites = R.leg(r)
        for bb, term, site in sites:
            ad = agg_fields(term).get("acquisition_date")
            if r == "Section104":
                ok = is_agg(ad) and ad[2] == "None"
                why = "pool legs carry no acquisition date"
            elif r == "SameDay":
                ok = is_agg(ad) and ad[2] == "Some" and _is_param_date(dict(ad[3])["0"])
                why = "same-day legs are labelled with the sale's own date"
            else:
                inner = dict(ad[3])["0"] if is_agg(ad) and ad[2] == "Some" else None
                ok = inner is not None and show(inner).endswith(".date") and any(
                    isinstance(x, tuple) and x and x[0] == "call" and parse_callee(x[1])[2] == "next" for x in subterms(inner))
                why = "30-day legs are labelled with the candidate acquisition's date"
            rep.ob("R5", f"{r}:acquisition_date", ok, why if ok else f"{r} leg's acquisition_date is {show(ad)[:60]}", site, key=f"R5:{r}:label")


def _is_param_date(t):
    return isinstance(t, tuple) and t and t[0] == "field" and t[2] == "date" and isinstance(t[1], tuple) and t[1][0] == "param"


def reservations(R, rep):
    b, sites = R.leg("BedAndBreakfast")
    for bb, term, site in sites:
        q = agg_fields(term).get("quantity")
        txt = show(q, 0)
        reads_claims = False
        reads_resv = False
        for x in subterms(q):
            if isinstance(x, tuple) and x and x[0] == "call":
                m = parse_callee(x[1])[2]
                if m == "get" and "HashMap" in x[1] and len(x[2]) == 2:
                    # keyed by the candidate's index (enumerate element .0)
                    if show(x[2][1]).endswith(".0") and "next(" in show(x[2][1]):
                        reads_claims = True
                if m == "entry" and "HashMap" in x[1] and len(x[2]) == 2:
                    k = x[2][1]
                    ks = show(k)
                    if ".date" in ks and ".ticker" in ks and "next(" in ks:
                        reads_resv = True
        rep.ob("R6", "30-day:quantity-depends-on-prior-claims", reads_claims,
               "matched quantity is net of shares already claimed from the candidate by earlier disposals (map read at the candidate's index)" if reads_claims else
               "the 30-day matched quantity no longer depends on earlier claims on the same acquisition: two disposals can claim the same shares", site,
               key="R6:bnb:prior-claims")
        rep.ob("R6", "30-day:quantity-depends-on-same-day-reservation", reads_resv,
               "matched quantity is net of the shares reserved for the candidate date's own disposals (keyed by candidate date and ticker)" if reads_resv else
               "the 30-day matched quantity no longer depends on the same-day reservation of the acquisition date: 30-day matching can take shares the same-day rule owns",
               site, key="R6:bnb:same-day-reservation")


def run(ctx, rep):
    R = Roles(ctx.F)
    rep.count("roles", {"legs": {r: R.leg(r)[0].short for r in RULES}, "cascade": R.require("cascade").short,
                        "dayloop": R.require("dayloop").short, "canon": R.require("canon").short})
    cascade_order(R, rep)
    dayloop_order(R, rep)
    every_line_of_day(R, rep, "R2")
    window(R, rep)
    labels(R, rep)
    reservations(R, rep)
    # the legs cover what was actually bought and sold: no line is dropped before matching (shared with C02-R10; `dedup` of two
    # identical same-day fills turns a same-day match of 80 into 50 + 30 from the pool — seeded change C01-s7)
    import rules.c02 as c02_
    c02_.every_line_counts(R, rep, "R10")
    # "rescaled across intervening splits": the look-ahead's ratio accumulator and the unit discipline (shared with C10-R2/R3)
    import rules.c10 as c10
    from core import Report
    r2 = Report("tmp")
    c10.ratio_ops(R, r2, None)
    c10.unit_discipline(R, r2)
    for o in r2.obligations:
        if o["instance"].startswith("30-day"):
            rep.ob("R7", o["instance"], o["ok"], o["detail"], o["site"], key="R7:" + o["instance"])
    # "…with acquisitions OF IT … rescaled across intervening splits" of that same security: candidate buys and ratio
    # updates of the look-ahead sit under the ticker guard (shared with C02-R6 / C09-R2)
    import rules.c02 as c02
    c02.same_security(R, rep, "R8")
    # "not already claimed by an earlier disposal": the claims a disposal makes on a later acquisition are ACCUMULATED on that
    # acquisition's own entry (shared with C02-R3); a claim that overwrites the earlier ones lets a third disposal match shares
    # that are no longer there (seeded change C01-s3)
    r3 = Report("tmp")
    c02.pairing(R, r3)
    for o in r3.obligations:
        if o["instance"].startswith("30-day:"):
            rep.ob("R6", o["instance"], o["ok"], o["detail"], o["site"], key="R6:" + o["instance"])
    # …and the claim is FOUND again when its acquisition is booked: claims and cost offsets are read under the key they were written
    # under — the position in the whole transaction list (shared with C09-R5). An index that counts only the day's BUY lines
    # (`filter(..).enumerate()`) misses the claim whenever another line precedes the purchase on its day: the claimed shares are
    # pooled as well and every later Section 104 leg is costed on shares that are gone (seeded change C01-s9)
    import rules.c09 as c09
    c09.shared_index_space(R, rep, "R6")
    # "each leg's allowable cost": a same-day leg is costed at the average of the shares that are actually available to it —
    # one weight per lot, the lot's availability — and every leg's cost is unit cost × the matched quantity (shared with
    # C03-R1/R4; seeded change C01-s5 averaged over everything bought that day)
    import rules.c03 as c03
    r5 = Report("tmp")
    c03.pair_costs(R, r5)
    c03.same_day_weights(R, r5)
    for o in r5.obligations:
        rep.ob("R9", o["instance"], o["ok"], o["detail"], o["site"], key="R9:" + o["instance"])
    for v in r5.violations:
        if not any(o["instance"] == v["instance"] for o in r5.obligations):
            rep.ob("R9", v["instance"], False, v["detail"], v["site"], key="R9:" + v["instance"])
    # "Same Day first": what the 30-day rule leaves on a later acquisition date for that date's own disposals is the TOTAL sold
    # that day — every sale line of the date and security, adjacent or not (shared with C06-R3; seeded change C01-s4)
    import rules.c06 as c06
    r4 = Report("tmp")
    c06.same_day_total(R, r4)
    for o in r4.obligations:
        rep.ob("R6", "same-day-reservation:" + o["instance"], o["ok"], o["detail"], o["site"], key="R6:same-day-reservation:" + o["instance"])


def controls(pctx, rep):
    """the iterator chain feeding a loop must be read as guards of the loop body"""
    F = pctx.F
    try:
        b = F.one("pipeline_guards")
        tb = Terms(F, b, inline_depth=0)
        site = next(i for i, t in b.calls() if parse_callee(t["callee"])[2] == "wrapping_add")
        gs = [(c[1], w[1]) for c, v, w in guards_of(b, tb, site) if isinstance(w, tuple) and w[0] == "pipeline" and isinstance(c, tuple) and c[0] in ("bin", "cmp")]
        rep.control("R3:pipeline", sorted(gs) == [("Eq", "filter"), ("Le", "take_while")],
                    f"posctl::pipeline_guards yields pipeline guards {sorted(gs)} (expected Eq/filter and Le/take_while)")
    except Exception as e:
        rep.control("R3:pipeline", False, f"pipeline extraction failed on posctl::pipeline_guards: {e}")
