"""C11 — capital returns and accumulations move cost exactly (structural clauses)."""
from mir import Terms, parse_callee, show, op_place, op_const, place_proj, subterms, is_decimal_arith_assign, mk_neg
from flow import root_of_operand, format_calls, template_text
from roles import Roles, RULES, POOL, LOT, agg_fields, guards_of, truth, is_agg
import panics as P

META = {
    "explanation": (
        "R1 (sign and amount): in the cost pre-pass the adjustment applied for a capital return is −(total_value − fees) and for "
        "an accumulation +total_value, each of the event's own fields. R2 (MPT): the capital-return adjustment is dominated by "
        "`net > remaining adjusted cost → Err`, the error text is built with the ticker and the date and cites S122. R3 (ORDER): "
        "within a date the adjustments precede the insertion of that date's acquisitions (only earlier acquisitions are "
        "adjusted). R4 (WHO): the lot's cost_offset is written only by the apportioning method, which is called only from the "
        "capital-return and accumulation arms; the apportionment is adjustment × held ÷ total held over lots with held > 0. "
        "R5 (WHO): the fields of Operation::Dividend are never read in the matcher module (cash dividends cannot change a "
        "disposal, leg or holding). Does not decide exactness of the apportionment or non-negativity per lot. R5 (dimension discipline): every addition, subtraction, accumulation and comparison of Decimals in the matcher and calculator whose two sides have a known dimension (shares / money / money per share / ratio, inferred from names, arithmetic and function returns) combines like with like. R6 (index space): an enumerate index handed to add_acquisition / used as a table key is a position in the whole transaction list — not taken after filter/filter_map/skip/… (shared with C09-R5). R7: the three places that price a share of a lot agree on (amount×price + fees + offset) ÷ amount (shared with C03-R2): no clamp or floor loses part of an adjustment."),
    "trusted_base": ["rust_decimal arithmetic", "rustc MIR + resolution"],
}


def adjustments(R, rep):
    F = R.F
    pre = R.require("prepass")
    rg = R.region(pre)
    writers = {w[0].parent or w[0].id for w in R.field_writes(LOT, "cost_offset") if w[2] != "construct"}
    calls = [it for it in rg.items if it["term"]["callee"] in writers and "AcquisitionLedger::" in it["term"]["callee"]]
    if not calls:
        rep.unresolved("R1", "APPORTION", "the pre-pass (with its helpers) does not call a method that writes lot.cost_offset")
        return None
    appo = calls[0]["term"]["callee"]
    seen = {}
    ledger_ids = tuple(x.id for x in F.bodies.values() if "acquisition_ledger::" in x.id)
    deep = {}
    def tb2(body):      # event carriers built by small helpers are seen through; ledger methods stay calls
        if body.id not in deep:
            deep[body.id] = Terms(F, body, inline_depth=2, stops=ledger_ids)
        return deep[body.id]
    for it in calls:
        adj = tb2(it["body"]).operand(it["term"]["args"][1])
        variants = {x[2] for x in subterms(adj) if isinstance(x, tuple) and len(x) == 3 and x[0] == "dc"}
        for v in variants:
            seen.setdefault(v, []).append((it, adj))
    cr = seen.get("CapReturn", [])
    ok = False
    why = f"capital-return adjustment sites: {len(cr)}"
    if len(cr) == 1:
        adj = cr[0][1]
        if isinstance(adj, tuple) and adj[0] == "+" and len(adj[1]) == 2:
            pos = [x for x in adj[1] if not (isinstance(x, tuple) and x[0] == "neg")]
            neg = [x[1] for x in adj[1] if isinstance(x, tuple) and x[0] == "neg"]
            ok = len(pos) == 1 and len(neg) == 1 and show(pos[0]).endswith("as CapReturn).fees") and show(neg[0]).endswith("as CapReturn).total_value")
        why = "capital return lowers cost by (total_value − fees)" if ok else f"capital-return adjustment is {show(adj)[:80]}, expected −(total_value − fees)"
    site = cr[0][0]["body"].loc(cr[0][0]["term"]["sp"]) if cr else pre.loc()
    rep.ob("R1", "capreturn:−(total−fees)", ok, why, site, key="R1:capreturn:amount")
    ac = seen.get("Accumulation", [])
    ok2 = len(ac) == 1 and show(ac[0][1]).endswith("as Accumulation).total_value") and not (isinstance(ac[0][1], tuple) and ac[0][1][0] in ("neg", "+"))
    rep.ob("R1", "accumulation:+total_value", ok2, "accumulation raises cost by total_value" if ok2 else
           f"accumulation adjustment is {[show(a[1])[:60] for a in ac]}, expected +total_value",
           ac[0][0]["body"].loc(ac[0][0]["term"]["sp"]) if ac else pre.loc(), key="R1:accumulation:amount")
    others = set(seen) - {"CapReturn", "Accumulation"}
    rep.ob("R1", "apportion:only-two-events", not others, "only capital returns and accumulations adjust cost" if not others else
           f"cost is also adjusted for {sorted(others)}", pre.loc(), key="R1:apportion:other-events")
    # R2 guard (in the body where the call lives)
    basis_fn = None
    if len(cr) == 1:
        it, adj = cr[0]
        hb, i, t, tb = it["body"], it["bb"], it["term"], tb2(it["body"])
        net = mk_neg(adj)
        ok3 = False
        gblock = None
        for cond, val, s in guards_of(hb, tb, i):
            if isinstance(cond, tuple) and cond[0] == "cmp":
                lhs, rhs = cond[2], cond[3]
                basis = lambda x: isinstance(x, tuple) and x[0] == "call" and "AcquisitionLedger::" in x[1] and "cost" in x[1]
                hit = (cond[1] == "Gt" and lhs == net and basis(rhs) and not truth(val)) or \
                      (cond[1] == "Le" and lhs == net and basis(rhs) and truth(val)) or \
                      (cond[1] == "Lt" and rhs == net and basis(lhs) and not truth(val)) or \
                      (cond[1] == "Ge" and rhs == net and basis(lhs) and truth(val))
                if hit:
                    ok3, gblock = True, s
                    bt = rhs if basis(rhs) else lhs
                    if bt[1] in F.bodies:
                        basis_fn = F.bodies[bt[1]]
        rep.ob("R2", "capreturn:guard", ok3,
               "the adjustment is applied only if the net return does not exceed the adjusted cost of the shares held" if ok3 else
               "the capital-return adjustment is not dominated by `net > total adjusted cost → Err`: a leg or holding can get negative allowable cost",
               hb.loc(t["sp"]), key="R2:capreturn:guard")
        if gblock is not None:
            sw = hb.term(gblock)
            tgts = [x for x in hb.succ(gblock) if not hb.edge_dominates((gblock, x), i)]
            arm = set()
            for err_t in tgts:
                arm |= {x for x in hb.reach_from(err_t) if hb.dominates(err_t, x)}
            txts, args = [], []
            for fc in format_calls(F, hb, tb):
                if fc["bb"] in arm and fc["parts"]:
                    txts.append(template_text(fc["parts"]))
                    args += [show(p[1]) for p in fc["parts"] if p[0] == "arg"]
            # …or built by a helper called on the refusing edge (`return Err(exceeds_cost(tx, net, basis))`)
            from mir import subst
            for x_ in arm:
                tx_ = hb.term(x_)
                eb = F.bodies.get(tx_.get("callee", "")) if tx_["k"] == "call" else None
                if eb is not None and eb.crate == hb.crate and "CgtError" in eb.ret:
                    eargs = [tb.operand(a) for a in tx_["args"]]
                    for fc in format_calls(F, eb, Terms(F, eb, inline_depth=0)):
                        if fc["parts"]:
                            txts.append(template_text(fc["parts"]))
                            args += [show(subst(p[1], eargs)) for p in fc["parts"] if p[0] == "arg"]
            txt = " ".join(txts)
            okm = "S122" in txt and any(a.endswith(".ticker") for a in args) and any(a.endswith(".date") for a in args)
            rep.ob("R2", "capreturn:error-text", okm, "the refusal names the ticker and date and cites TCGA92 s122" if okm else
                   f"error text `{txt[:80]}` with args {args[:4]} lacks ticker/date/S122", hb.loc(), key="R2:capreturn:error-text")
    # R2b: the lots whose cost makes up the guard's basis are the lots that receive the adjustment (held > 0 in both)
    if basis_fn is not None and appo in F.bodies:
        def held_pred(b):
            """positive-form comparison of held_for_adjustment(..) with ZERO under which the lot is counted / adjusted"""
            ops = set()
            for x in [b] + [F.bodies[c] for c in F.children(b.id)]:
                xt = Terms(F, x, inline_depth=0)
                # (a) guards dominating the effect (accumulation / cost_offset write)
                for j, u in x.calls():
                    k = is_decimal_arith_assign(u["callee"])
                    if k != "AddAssign":
                        continue
                    for cnd, val, sb in guards_of(x, xt, j):
                        if isinstance(cnd, tuple) and cnd and cnd[0] == "cmp" and cnd[3] == ("const", "Decimal::ZERO") and \
                                any(isinstance(z, tuple) and z and z[0] == "call" and "held" in z[1] for z in subterms(cnd[2])):
                            ops.add(cnd[1] if truth(val) else NEGOP[cnd[1]])
                # (c) `…map(|lot| (held(lot), lot)).filter(|(h, _)| *h > 0).for_each(..)` / `.filter(..).map(..).sum()`:
                #     the filter stages of the iterator chain that is consumed here, with mapped components resolved
                from roles import iterator_chain
                for j, u in x.calls():
                    if parse_callee(u["callee"])[2] in ("for_each", "sum", "fold", "try_for_each", "collect") and u["args"]:
                        res = iterator_chain(F, xt.operand(u["args"][0]))
                        if res is None:
                            continue
                        for cnd, kind, cid in res[2]:
                            if isinstance(cnd, tuple) and cnd and cnd[0] == "cmp" and cnd[3] == ("const", "Decimal::ZERO") and \
                                    any(isinstance(z, tuple) and z and z[0] == "call" and "held" in z[1] for z in subterms(cnd[2])):
                                ops.add(cnd[1])
                # (b) filter closures returning the comparison
                r0 = xt.local(0)
                if x.kind == "closure" and isinstance(r0, tuple) and r0 and r0[0] == "cmp" and r0[3] == ("const", "Decimal::ZERO") and \
                        any(isinstance(z, tuple) and z and z[0] == "call" and "held" in z[1] for z in subterms(r0[2])):
                    ops.add(r0[1])
            return ops
        pb, pa = held_pred(basis_fn), held_pred(F.bodies[appo])
        ok = pb == {"Gt"} and pa == {"Gt"}
        rep.ob("R2", "capreturn:basis-lots=adjusted-lots", ok,
               "the guard's basis counts exactly the lots with shares still held (> 0), the same lots that receive the adjustment" if ok else
               f"the guard's basis selects lots with held {sorted(pb)} 0 but the adjustment is spread over lots with held {sorted(pa)} 0: "
               "cost of fully-sold lots can absorb a return on paper and a held lot goes negative",
               basis_fn.loc(), key="R2:capreturn:basis-predicate")
        # R2c: "…that the expenditure remaining ON THE SHARES HELD cannot absorb": what each counted lot contributes to the basis
        # is the cost of its held shares (held × unit cost). A lot's WHOLE cost — including the part that left with shares sold
        # earlier — lets a return through that exceeds what is left (known finding on today's tree: BUY 10@100, BUY 5@100,
        # SELL 14, CAPRETURN 1 TOTAL 400 is accepted with £100 left on the one share held)
        import dims
        D = dims.Dims(F)
        weighted = None
        for x in [basis_fn] + [F.bodies[c_] for c_ in F.children(basis_fn.id)]:
            xt = Terms(F, x, inline_depth=0)
            r0 = xt.local(0)
            if x.kind == "closure" and "Decimal" in x.ret and not (isinstance(r0, tuple) and r0 and r0[0] == "cmp"):
                calls = [z for z in subterms(r0) if isinstance(z, tuple) and z and z[0] == "call"]
                has_q = any(D.ret_dim(z[1]) == dims.Q or "held" in z[1] or "available" in z[1] for z in calls if z[1] in F.bodies)
                weighted = has_q if weighted is None else (weighted and has_q)
            for j, u in x.calls():
                if is_decimal_arith_assign(u["callee"]) == "AddAssign" and x.id == basis_fn.id:
                    rhs = xt.operand(u["args"][1])
                    calls = [z for z in subterms(rhs) if isinstance(z, tuple) and z and z[0] == "call"]
                    has_q = any(D.ret_dim(z[1]) == dims.Q or "held" in z[1] or "available" in z[1] for z in calls if z[1] in F.bodies)
                    weighted = has_q if weighted is None else (weighted and has_q)
        if weighted is not None:
            rep.ob("R2", "capreturn:basis-is-cost-of-held-shares", weighted,
                   "each counted lot contributes the cost of the shares still held" if weighted else
                   f"`{basis_fn.short}` adds the WHOLE adjusted cost of every lot that still has a share: a capital return larger than the expenditure left "
                   "on the shares held is accepted as long as it fits the original cost of those lots", basis_fn.loc(), key="R2:capreturn:basis-whole-lot-cost")
    return appo


NEGOP = {"Gt": "Le", "Le": "Gt", "Lt": "Ge", "Ge": "Lt", "Eq": "Ne", "Ne": "Eq"}


def order_and_who(R, rep, appo):
    F = R.F
    pre = R.require("prepass")
    rg = R.region(pre)
    adds = {it["root_bb"] for it in rg.calls(lambda c: c.endswith("AcquisitionLedger::add_acquisition"))}
    adjs = {it["root_bb"] for it in rg.calls(lambda c: c == appo)}
    if adds and adjs:
        loops_with = [bl for h, bl in pre.loops() if any(x in bl for x in adds)]
        outer = max(loops_with, key=len) if loops_with else None
        if outer is None:
            rep.unresolved("R3", "prepass-loop", "acquisitions are not added inside a loop of the pre-pass")
        else:
            outer_h = [h for h, bl in pre.loops() if bl == outer][0]

            def anchor(bb):
                ls = [(h, bl) for h, bl in pre.loops() if bb in bl and bl < outer]
                return min(ls, key=lambda x: len(x[1]))[0] if ls else bb
            ok = True
            for x in adjs:
                for y in adds:
                    ha, hb = anchor(x), anchor(y)
                    ok = ok and ha != hb and hb in pre.reach_from(ha, removed_blocks=(outer_h,)) and ha not in pre.reach_from(hb, removed_blocks=(outer_h,))
            rep.ob("R3", "prepass:adjust≺add-buys", ok, "within a date, cost adjustments are applied before that date's acquisitions enter the ledger" if ok else
                   "the day's acquisitions are added before (or interleaved with) the cost adjustments: an event would also adjust shares bought the same day or later",
                   pre.loc(), key="R3:prepass:order")
    else:
        rep.unresolved("R3", "prepass-phases", "pre-pass lacks add_acquisition or the apportioning call")
    ws = [w for w in R.field_writes(LOT, "cost_offset") if w[2] != "construct"]
    writers = {w[0].parent or w[0].id for w in ws}
    rep.ob("R4", "cost_offset:writers", writers == {appo}, f"lot.cost_offset is written only by {appo.split('::')[-1]}" if writers == {appo} else
           f"lot.cost_offset is written by {sorted(x.split('::', 1)[-1] for x in writers)}", ws[0][3] if ws else "", key="R4:cost_offset:writers")
    callers = {(b.parent or b.id) for b, i, t in F.call_sites(lambda c: c == appo)}
    ok_callers = bool(callers) and callers <= set(rg.bodies)
    rep.ob("R4", "apportion:callers", ok_callers, "the apportioning method is called only from the cost pre-pass (and its helpers)" if ok_callers else
           f"apportioning is called from {sorted(x.split('::', 1)[-1] for x in callers)}", "", key="R4:apportion:callers")
    ab = F.bodies[appo]
    arg = R.region(ab, depth=1)
    for w in ws:
        rhs = arg.convs.get(w[0].id, lambda t_: t_)(w[4])    # a write inside a closure: captures → the method's own terms
        okf = isinstance(rhs, tuple) and rhs[0] == "*" and any(x == ("param", 1, ab.local_name(2)) for x in rhs[1]) and \
            any(isinstance(x, tuple) and x[0] == "/" for x in rhs[1])
        rep.ob("R4", "apportion:formula", okf, "each lot receives adjustment × (its held shares ÷ total held)" if okf else
               f"apportioned amount is {show(rhs)[:80]}", w[3], key="R4:apportion:formula")
    for w in R.field_writes(LOT, "cost_offset"):
        if w[2] == "construct":
            okc = isinstance(w[4], tuple) and w[4][0] == "param"
            rep.ob("R4", "lot-ctor:offset-unchanged", okc, "a new lot starts with the offset it is given" if okc else f"lot ctor sets cost_offset = {show(w[4])[:40]}",
                   w[3], key="R4:lot-ctor:offset")


def dividend_isolation(R, rep):
    F = R.F
    n = 0
    for b in R.bodies:
        for i, si, s in b.assigns():
            for pl in _places(s):
                for e in place_proj(pl):
                    if isinstance(e, dict) and e.get("adt") == "cgt_core::models::Operation" and e.get("v") == "Dividend" and "n" in e:
                        n += 1
                        rep.ob("R5", f"{b.short}:reads-Dividend.{e['n']}", False,
                               f"the matcher reads Operation::Dividend.{e['n']}: a cash dividend could change a disposal, leg or holding",
                               b.loc(s.get("sp")), key=f"R5:{b.short}:dividend-read")
    rep.ob("R5", "matcher:ignores-dividends", n == 0, f"no body of the matcher module ({len(R.bodies)} bodies) reads a field of Operation::Dividend" if n == 0 else
           f"{n} reads", "", key="R5:summary") if n == 0 else None
    # dividends are aggregated by the calculator only
    readers = set()
    for b in F.bodies.values():
        if b.crate != "cgt_core" or not P.user_written(F, b):
            continue
        for i, si, s in b.assigns():
            for pl in _places(s):
                for e in place_proj(pl):
                    if isinstance(e, dict) and e.get("adt") == "cgt_core::models::Operation" and e.get("v") == "Dividend" and "n" in e:
                        readers.add(b.short.split("::{")[0])
    rep.count("dividend_field_readers_core", sorted(readers))


def _places(s):
    out = []
    if "lhs" in s:
        out.append(s["lhs"])
    rv = s.get("rv", {})
    for key in ("op", "a", "b"):
        o = rv.get(key)
        p = op_place(o) if isinstance(o, dict) else None
        if p:
            out.append(p)
    if rv.get("k") in ("ref", "rawptr", "discr"):
        out.append(rv["p"])
    for o in rv.get("ops") or []:
        p = op_place(o)
        if p:
            out.append(p)
    return out


def dimension_discipline(F, rep, rule="R5"):
    """Shares, money, unit prices and ratios are all `Decimal`; adding, subtracting or comparing two of different dimension is the
    wrong-variable slip the type checker cannot see (`remaining = amount − consume_shares_on_date(..)` subtracts a COST from a
    share count: seeded change C11-s5). Dimensions are inferred by lib/dims.py from field and variable names and through
    arithmetic and function returns; a site is judged only when both sides are known."""
    import dims
    import panics as P_
    D = dims.Dims(F)
    bodies = [b for b in F.bodies.values() if b.crate == "cgt_core" and ("::matcher::" in b.id or "::calculator::" in b.id) and P_.user_written(F, b)]
    bad = D.conflicts(bodies)
    for b, i, k, d0, d1, t in bad:
        tb = Terms(F, b, inline_depth=0)
        rep.ob(rule, f"{b.short}:{k}:{dims.NAMES[d0]}/{dims.NAMES[d1]}", False,
               f"`{show(tb.operand(t['args'][0]))[:50]}` ({dims.NAMES[d0]}) and `{show(tb.operand(t['args'][1]))[:60]}` ({dims.NAMES[d1]}) are "
               f"combined by {k}: a number of shares and an amount of money cannot be added, subtracted or compared", b.loc(t["sp"]),
               key=f"{rule}:{b.short}:{k}:{dims.NAMES[d0]}/{dims.NAMES[d1]}")
    rep.ob(rule, "dimension-discipline", not bad, f"{D.judged} additions / subtractions / comparisons of Decimals with both dimensions known: all consistent"
           if not bad else f"{len(bad)} of {D.judged} judged sites mix dimensions", "", key=f"{rule}:dimension-discipline")
    rep.count("dimension_sites_judged", D.judged)
    if D.judged < 20:
        rep.unresolved(rule, "dimension-sites", f"only {D.judged} Decimal operations with both dimensions known (the inference vocabulary no longer fits the code)")


def controls(pctx, rep):
    import dims
    try:
        F = pctx.F
        b = F.one("dims_mixed")
        D = dims.Dims(F)
        bad = D.conflicts([b])
        rep.control("R5:dimensions", len(bad) == 1 and D.judged == 2, f"posctl::dims_mixed: {len(bad)} conflicts of {D.judged} judged sites (expected 1 of 2)")
    except Exception as e:
        rep.control("R5:dimensions", False, f"dimension engine failed on posctl::dims_mixed: {e}")


def run(ctx, rep):
    R = Roles(ctx.F)
    appo = adjustments(R, rep)
    if appo:
        order_and_who(R, rep, appo)
    dividend_isolation(R, rep)
    dimension_discipline(ctx.F, rep)
    # "by exactly its net amount": what the pre-pass apportioned to a lot reaches the lot unmodified (shared with C03-R3); a
    # scaled offset moves less (or more) than the event's amount (seeded changes C03-s3 / C11-s6)
    import rules.c03 as c03
    from core import Report as _Report
    r9 = _Report("tmp")
    c03.offsets_prov(R, r9)
    for o in r9.obligations:
        if o["instance"].startswith("add_acquisition:offset"):
            rep.ob("R1", o["instance"], o["ok"], o["detail"], o["site"], key="R1:" + o["instance"])
    # "in any currency": the event's value AND its fees reach the matcher in pounds at the line's own month's rate (shared with
    # C08-R1); a fee left in its own currency is netted off the GBP distribution as if it were pounds (seeded change C11-s4)
    # what the pre-pass apportions to a lot is filed under the lot's line index and read back under the line's position in the
    # whole list (shared with C09-R5): an index that counts only the day's purchases files the adjustment under another line, so
    # the event does not move the cost of the shares it was apportioned to (seeded change C11-s7)
    import rules.c09 as c09
    c09.shared_index_space(R, rep, "R6")
    # "moves … by exactly": the adjustment a lot received is part of every price later taken from that lot — the three places that
    # price a share of a lot agree on (amount×price + fees + offset) ÷ amount (shared with C03-R2); a floor at zero on one lot's
    # adjusted cost drops the part of a return that exceeded that lot's own cost (seeded change C11-s8)
    r7 = _Report("tmp")
    c03.sibling_unit_cost(R, r7)
    for o in r7.obligations:
        rep.ob("R7", o["instance"], o["ok"], o["detail"], o["site"], key="R7:" + o["instance"])
    import rules.c08 as c08
    from core import Report
    r2 = Report("tmp")
    c08.field_wise(ctx.F, r2)
    for o in r2.obligations:
        if o["instance"].split(".")[0] in ("CapReturn", "Accumulation"):
            rep.ob("R4", "gbp:" + o["instance"], o["ok"], o["detail"], o["site"], key="R4:gbp:" + o["instance"])
