"""C16 — deterministic, canonically ordered output (structural clauses)."""
import re

from mir import Terms, parse_callee, show, op_place, place_proj, subterms
from flow import (HashOrder, sort_calls, sort_wrappers, is_slice_sort, body_is_external, format_calls,
                  root_of_operand, HASH_COLL_TY, template_text)

META = {
    "explanation": (
        "Static rules over the resolved MIR of all 9 workspace crates. R1: every hash-ordered iterator "
        "(HashMap/HashSet iter/keys/values/into_iter/drain) is followed through adaptors to its consumer; the "
        "consumer must be order-insensitive (any/all/count/sum/min/max, collection into a map/set, keyed stores, "
        "map updates) or a Vec that is sorted on every path to return; a loop over such an iterator must have no "
        "early exit and no order-sensitive outer effect. R1b: no hash collection is Debug/Display-formatted or "
        "held in a Serialize type. R2: wall-clock/random sources are called only inside the PDF crate and in a "
        "converter function whose value reaches a comment line. R3: every sort comparator in the workspace is "
        "ascending (receiver of cmp rooted at the first closure parameter), date before ticker in the shared "
        "comparator, and the sorts are stable. R4: the four stated orders (tax years, disposals, holdings, "
        "transaction echo) are produced by a sort on the stated key that dominates the construction of the output. "
        "Decides the shape of the code on all paths; does not observe bytes of any run. R1 also: collecting hash-ordered items into a MAP is order-insensitive only when the items' keys are the source's keys; keys re-derived by a map/filter_map stage (parse of a string key) may collide and the surviving value then depends on the hash order — reported unless the adaptor provably keeps the key. R1 also: min_by_key/max_by_key/min_by/max_by over a hash-ordered iterator are tie-breaking consumers (the item chosen among equal keys follows the hash order), not order-insensitive ones."),
    "trusted_base": [
        "rustc MIR (nightly, mir-opt-level=0) and Instance::try_resolve callee resolution",
        "std: slice::sort_by/sort_by_key are stable; BTreeMap/BTreeSet iterate in key order",
        "Decimal addition is order-insensitive when it does not overflow",
        "closures passed to iterator adaptors that capture nothing by &mut have no order-dependent effects",
    ],
}

CLOCK = re.compile(r"(chrono::offset::(local::Local|utc::Utc)::now|std::time::(SystemTime|Instant)::now|"
                   r"rand::|getrandom::|fastrand::|std::process::id|uuid::)")


def hash_order(F, rep, rule="R1"):
    ho = HashOrder(F)
    n_src = 0
    for b in F.bodies.values():
        if F.is_derive(b) or body_is_external(F, b):
            continue
        bad, good = ho.analyse(b)
        for r in good:
            n_src += 1
            rep.ob(rule, f"{b.short}:{r['kind']}", True, r["detail"], r["site"])
        for r in bad:
            n_src += 1
            kd = r.get("key_detail") or r["kind"]
            rep.ob(rule, f"{b.short}:{kd}", False, r["detail"] + f" (hash-ordered source at {r['source']})",
                   r["site"], key=f"{rule}:{b.short}:{kd}")
    return n_src


def hash_format_and_serialize(F, rep):
    n = 0
    for b in F.bodies.values():
        if F.is_derive(b) or body_is_external(F, b):
            continue
        for i, t in b.calls():
            if "fmt::rt::Argument" in t["callee"] and "::new_" in t["callee"]:
                ty = (t.get("gargs") or [""])[-1]
                n += 1
                if HASH_COLL_TY.search(ty):
                    rep.ob("R1b", f"{b.short}:fmt", False,
                           f"a hash collection ({ty.split('<')[0]}) is formatted; element order follows the hash seed",
                           b.loc(t["sp"]), key=f"R1b:{b.short}:fmt-hash")
    ser_types = {im["self"] for im in F.impls if (im.get("trait") or "").endswith("ser::Serialize")}
    for path, adt in F.adts.items():
        if not any(s == path or s.startswith(path + "<") for s in ser_types):
            continue
        for v in adt["variants"]:
            for f in v["fields"]:
                n += 1
                ok = not HASH_COLL_TY.search(f["ty"])
                rep.ob("R1b", f"{path.split('::', 1)[-1]}.{f['name']}", ok,
                       "Serialize type field is not a hash collection" if ok else
                       f"field of a Serialize type is a hash collection ({f['ty']}): serialised order follows the hash seed",
                       f"{adt['file']}:{adt['line']}", key=f"R1b:ser:{path}.{f['name']}")
    return n


def comment_formatters(F):
    """converter functions every result of which starts with '# ' (comment-line producers; symbolic string synthesis, so a
    `format!("# {}")` and a `push_str("# ")` spelling are the same thing)"""
    import rules.c18 as c18
    return {fid for fid, v in c18.line_formatters(F).items() if v[0] == "comment"}


def clocks(F, rep):
    cf = comment_formatters(F)
    n = 0
    for b, i, t in F.call_sites(lambda c: bool(CLOCK.search(c))):
        n += 1
        site = b.loc(t["sp"])
        inst = f"{b.short}:{t['callee'].split('::')[-2]}::now"
        if b.crate == "cgt_formatter_pdf":
            rep.ob("R2", inst, True, "clock read inside the PDF crate (generation date is exempt)", site)
            continue
        if b.crate == "cgt_converter":
            # the value must reach a comment formatter argument
            tb = Terms(F, b, inline_depth=0)
            reached = False
            for j, u in b.calls():
                if u["callee"] in cf:
                    for a in u["args"]:
                        term = tb.operand(a)
                        if any(isinstance(x, tuple) and x and x[0] == "call" and CLOCK.search(x[1]) for x in subterms(term)) \
                                or _flows_through_format(F, b, tb, a):
                            reached = True
                # …or it is an element of a collection that is mapped, element by element, through the comment formatter
                # (`notes.into_iter().flatten().map(|note| format_comment(&note))`)
                if not reached and parse_callee(u["callee"])[2] in ("map", "for_each", "flat_map") and len(u["args"]) >= 2:
                    clo = tb.operand(u["args"][1])
                    if isinstance(clo, tuple) and clo and clo[0] == "closure" and clo[1] in F.bodies:
                        cb = F.bodies[clo[1]]
                        ct = Terms(F, cb, inline_depth=0)
                        wraps = any(w["callee"] in cf and any(isinstance(z, tuple) and z and z[0] == "param" and z[1] >= 1
                                                              for a2 in w["args"] for z in subterms(ct.operand(a2))) for _, w in cb.calls())
                        if wraps and any(isinstance(x, tuple) and x and x[0] == "call" and CLOCK.search(x[1]) for x in subterms(tb.operand(u["args"][0]))):
                            reached = True
            rep.ob("R2", inst, reached,
                   "clock value reaches only a comment-line formatter" if reached else
                   "clock read in the converter does not flow into a comment line", site,
                   key=f"R2:{b.short}:clock")
            continue
        rep.ob("R2", inst, False, f"wall-clock/random source {t['callee']} called outside the PDF data builder "
               "and the converter header", site, key=f"R2:{b.short}:clock")
    return n


def _flows_through_format(F, b, tb, arg):
    """arg is &String produced by format!(… now() …)"""
    r = root_of_operand(b, arg)
    if r is None:
        return False
    # find format calls whose parts include a clock term, and whose String result is that root
    for fc in format_calls(F, b, tb):
        if not fc["parts"]:
            continue
        has_clock = any(p[0] == "arg" and any(isinstance(x, tuple) and x and x[0] == "call" and CLOCK.search(x[1])
                                               for x in subterms(p[1])) for p in fc["parts"])
        if not has_clock:
            continue
        # Arguments -> alloc::fmt::format(args) -> String local
        adest = fc["dest"]["l"] if fc["dest"] else None
        for j, u in b.calls():
            if u["callee"] == "alloc::fmt::format" and (op_place(u["args"][0]) or {}).get("l") == adest:
                if u.get("dest") and u["dest"]["l"] == r[0]:
                    return True
    return False


def _cmp_orientation(term):
    """-> list of (lhs_param_index, rhs_param_index, lhs_path, rhs_path) for each cmp in a comparator term"""
    out = []
    for x in subterms(term):
        if isinstance(x, tuple) and x and x[0] == "call":
            st, tr, m = parse_callee(x[1])
            if m in ("cmp", "partial_cmp", "total_cmp") and len(x[2]) == 2:
                out.append((x[2][0], x[2][1]))
    return out


def _param_root(t):
    """(param index, field path) a term is rooted at, or None"""
    path = []
    while isinstance(t, tuple) and t:
        if t[0] == "param":
            return t[1], tuple(reversed(path))
        if t[0] == "field":
            path.append(t[2])
            t = t[1]
        elif t[0] in ("dc", "some", "cast"):
            t = t[1]
        elif t[0] == "call" and len(t[2]) >= 1:
            m = parse_callee(t[1])[2]
            if m in ("call", "call_mut", "call_once") and len(t[2]) == 2 and isinstance(t[2][1], tuple) \
                    and t[2][1] and t[2][1][0] == "tuple" and t[2][1][1]:
                path.append("fn()")
                t = t[2][1][1][0]
                continue
            path.append(t[1].split("::")[-1] + "()")
            t = t[2][0]
        else:
            return None
    return None


def comparators(F, rep):
    wr = sort_wrappers(F)
    n = 0
    for b in F.bodies.values():
        if F.is_derive(b) or body_is_external(F, b):
            continue
        for i, t, m, r in sort_calls(F, b, wr):
            site = b.loc(t["sp"])
            if m.startswith("wrapper:"):
                continue
            n += 1
            if "unstable" in m:
                rep.ob("R3", f"{b.short}:stable", False,
                       f"{m} is not stable: elements with equal keys keep no defined order", site,
                       key=f"R3:{b.short}:unstable-sort")
            else:
                rep.ob("R3", f"{b.short}:stable", True, f"{m} is a stable sort", site)
            if m in ("sort_by", "sort_unstable_by"):
                # closure argument
                clo = _closure_of(b, t["args"][1])
                if clo is None or clo not in F.bodies:
                    rep.ob("R3", f"{b.short}:orientation", False, "comparator is not an inline closure; orientation unproven", site,
                           key=f"R3:{b.short}:comparator-unresolved")
                    continue
                cb = F.bodies[clo]
                ct = Terms(F, cb, inline_depth=2)
                ret = ct.local(0)
                pairs = _cmp_orientation(ret)
                if not pairs:
                    rep.ob("R3", f"{b.short}:orientation", False, f"comparator does not reduce to cmp(): {show(ret)[:120]}", site,
                           key=f"R3:{b.short}:comparator-shape")
                    continue
                ok = True
                why = []
                for lhs, rhs in pairs:
                    lr, rr = _param_root(lhs), _param_root(rhs)
                    if lr is None or rr is None:
                        ok = False
                        why.append(f"cmp operands not rooted at the closure parameters: {show(lhs)} vs {show(rhs)}")
                        continue
                    # closure params: 0 = env, 1 = a, 2 = b
                    if not (lr[0] < rr[0]):
                        ok = False
                        why.append(f"descending: receiver of cmp is rooted at the second parameter ({show(lhs)} vs {show(rhs)})")
                    if lr[1] != rr[1]:
                        ok = False
                        why.append(f"cmp compares different keys: {'.'.join(lr[1])} vs {'.'.join(rr[1])}")
                rep.ob("R3", f"{b.short}:orientation", ok,
                       "ascending comparator on " + ", ".join(sorted({'.'.join(_param_root(l)[1]) for l, _ in pairs if _param_root(l)})) if ok else "; ".join(why),
                       site, key=f"R3:{b.short}:comparator-orientation")
    # shared comparator: date before ticker, left before right
    cands = [b for b in F.bodies.values() if b.kind == "fn" and b.crate == "cgt_core" and b.argc == 4
             and "core::cmp::Ordering" in b.ret and not F.is_derive(b)]
    for b in cands:
        n += 1
        tb = Terms(F, b, inline_depth=1)
        ret = tb.local(0)
        # ret = then_with(cmp(p0,p2), closure) ; closure body: cmp(p1,p3)
        pairs = _cmp_orientation(ret)
        ok = bool(pairs)
        why = []
        tys = [b.local_ty(k + 1) for k in range(4)]
        if pairs:
            lhs, rhs = pairs[0]
            lr, rr = _param_root(lhs), _param_root(rhs)
            if not lr or not rr or not (lr[0] < rr[0]):
                ok = False
                why.append("primary comparison is not left-before-right")
            elif "NaiveDate" not in tys[lr[0]]:
                ok = False
                why.append(f"primary key is {tys[lr[0]]}, not the date")
        # secondary comparison inside then_with closure
        sec_ok = False
        for c in F.children(b.id):
            cb = F.bodies[c]
            ct = Terms(F, cb, inline_depth=0)
            for lhs, rhs in _cmp_orientation(ct.local(0)):
                l2, r2 = _upvar_index(lhs), _upvar_index(rhs)
                if l2 is not None and r2 is not None and l2 < r2:
                    sec_ok = True
                elif l2 is not None and r2 is not None:
                    why.append("secondary (ticker) comparison is descending")
        if not sec_ok and ok:
            # maybe written as a tuple compare or chained cmp in one body
            if len(pairs) >= 2:
                lr, rr = _param_root(pairs[1][0]), _param_root(pairs[1][1])
                sec_ok = bool(lr and rr and lr[0] < rr[0])
        if not sec_ok:
            ok = False
            why.append("no ascending secondary comparison on the ticker found")
        rep.ob("R3", f"{b.short}:date-then-ticker", ok,
               "shared comparator orders by date, then ticker, ascending" if ok else "; ".join(why) or "shape not recognised",
               b.loc(), key=f"R3:{b.short}:shared-comparator")
    return n


def _upvar_index(t):
    """closure upvar terms look like field(param0 env, idx)"""
    while isinstance(t, tuple) and t:
        if t[0] == "field" and isinstance(t[1], tuple) and t[1] and t[1][0] == "param" and t[1][1] == 0:
            try:
                return int(t[2])
            except ValueError:
                return None
        if t[0] in ("field", "dc", "some", "cast"):
            t = t[1]
        else:
            return None
    return None


def _closure_of(b, op):
    p = op_place(op)
    if p is None:
        # a plain function passed by name (`sort_by_key(key_fn)`)
        from mir import op_const
        k = op_const(op)
        return k.get("fn") if k else None
    defs = b.defs().get(p["l"], [])
    for d in defs:
        if d[0] == "assign" and d[3]["rv"]["k"] == "closure":
            return d[3]["rv"]["id"]
    return None


def _agg_sites(F, adt_suffix):
    for b in F.bodies.values():
        if F.is_derive(b):
            continue
        for i, si, s in b.assigns():
            rv = s["rv"]
            if rv["k"] == "agg" and rv["adt"].endswith(adt_suffix):
                yield b, i, si, s


def _sort_dominating(F, b, vec_local, sink_bb, wr):
    """a sort on vec_local (or an alias) in a block that dominates sink_bb -> (method, key closure/wrapper, site)"""
    ho = HashOrder(F)
    al = ho._aliases(b, vec_local)
    # include locals vec_local was moved from
    changed = True
    while changed:
        changed = False
        for bi, si, s in b.assigns():
            rv = s["rv"]
            if rv["k"] == "use" and not place_proj(s["lhs"]) and s["lhs"]["l"] in al:
                p = op_place(rv["op"])
                if p is not None and not place_proj(p) and p["l"] not in al:
                    al.add(p["l"])
                    changed = True
    for bi, t, m, r in sort_calls(F, b, wr):
        if r and r[0] in al and not r[1] and (b.dominates(bi, sink_bb)):
            return m, t, b.loc(t["sp"])
    return None


_ORDER_PRESERVING = ("map", "filter", "filter_map", "into_iter", "iter", "cloned", "copied", "map_while", "inspect", "into_values", "values")


def _ascending_by_construction(F, b):
    """the returned list is collected from the in-order traversal of a BTreeMap keyed by the tax year (u16 / TaxPeriod),
    through order-preserving adapters only, and each element's period is built from its key"""
    tb = Terms(F, b, inline_depth=0)
    ret = tb.local(0)
    alts = ret[1] if isinstance(ret, tuple) and ret and ret[0] == "phi" else (ret,)
    good = 0
    for a in alts:
        if isinstance(a, tuple) and a and a[0] == "call" and parse_callee(a[1])[2] == "from_residual":
            continue
        if isinstance(a, tuple) and a and a[0] == "agg" and a[2] == "Ok":
            a = dict(a[3]).get("0")
        if not (isinstance(a, tuple) and a and a[0] == "call" and parse_callee(a[1])[2] == "collect"):
            return None
        x = a[2][0]
        closures = []
        while isinstance(x, tuple) and x and x[0] == "call" and parse_callee(x[1])[2] in _ORDER_PRESERVING:
            closures += [y for y in x[2][1:] if isinstance(y, tuple) and y and y[0] == "closure"]
            x = x[2][0]
        if not (isinstance(x, tuple) and x and x[0] == "var"):
            return None
        tys = [b.local_ty(l) for l in range(1, len(b.locals)) if b.local_name(l) == x[1]]
        if not tys or not any(t.startswith(("alloc::collections::btree::map::BTreeMap<u16,", "alloc::collections::btree::map::BTreeMap<cgt_core::models::TaxPeriod,"))
                              for t in tys):
            return None
        keyed = any(t.startswith("alloc::collections::btree::map::BTreeMap<cgt_core::models::TaxPeriod,") for t in tys)
        for y in closures:
            cb = F.bodies.get(y[1])
            if cb is None:
                continue
            ct = Terms(F, cb, inline_depth=0)
            for i, t in cb.calls():
                if t["callee"].endswith("TaxPeriod::new"):
                    k = ct.operand(t["args"][0])
                    if isinstance(k, tuple) and k[0] == "cast":
                        k = k[-1]
                    if k == ("field", ("param", 1, cb.local_name(2)), "0") or (isinstance(k, tuple) and k[0] == "field" and k[2] == "0"
                                                                                 and isinstance(k[1], tuple) and k[1][0] == "param" and k[1][1] == 1):
                        keyed = True
        if not keyed:
            return None
        good += 1
    return "summaries are collected from the in-order traversal of a BTreeMap keyed by tax year (ascending by construction)" if good else None


def stated_orders(F, rep):
    wr = sort_wrappers(F)
    n = 0
    # (a) holdings by ticker & (d) construction of TaxReport
    for b, i, si, s in _agg_sites(F, "models::TaxReport"):
        if b.crate != "cgt_core":
            continue
        rv = s["rv"]
        fields = dict(zip(rv["fields"], rv["ops"]))
        p = op_place(fields.get("holdings", {}))
        n += 1
        if p is None:
            rep.unresolved("R4", "TaxReport.holdings", "operand is not a place")
            continue
        res = _sort_dominating(F, b, p["l"], i, wr)
        ok = False
        detail = "holdings vector is not sorted before the report is built"
        if res:
            m, t, loc = res
            clo = _closure_of(b, t["args"][1]) if len(t["args"]) > 1 else None
            keys = set()
            if clo and clo in F.bodies:
                ct = Terms(F, F.bodies[clo], inline_depth=1)
                if m.endswith("by_key") or m.endswith("cached_key"):
                    pr = _param_root(ct.local(0))
                    if pr:
                        keys.add(".".join(p for p in pr[1] if not p.endswith("()")))
                for lhs, rhs in _cmp_orientation(ct.local(0)):
                    pr = _param_root(lhs)
                    if pr:
                        keys.add(".".join(pr[1]))
            elif m == "sort":
                keys.add("<Ord of element>")
            ok = "ticker" in keys
            detail = f"holdings sorted by {sorted(keys)} ({m}) at {loc} before TaxReport is built" if ok else \
                f"holdings sort key is {sorted(keys)}, expected ticker"
        rep.ob("R4", "holdings-by-ticker", ok, detail, b.loc(s["sp"]), key="R4:holdings-by-ticker")
    # (b) tax years ascending: every fn returning Result<Vec<TaxYearSummary>> / Vec<TaxYearSummary>
    for b in F.bodies.values():
        if b.crate == "cgt_core" and b.kind in ("fn", "method") and "Vec<cgt_core::models::TaxYearSummary>" in b.ret:
            n += 1
            # the Vec that is returned in Ok(...)
            found = None
            for i, t, m, r in sort_calls(F, b, wr):
                if r and "TaxYearSummary" in b.local_ty(r[0]):
                    found = (i, t, m, r)
            ok = False
            detail = "list of tax-year summaries is never sorted"
            if found:
                i, t, m, r = found
                key_ok = False
                clo = _closure_of(b, t["args"][1]) if len(t["args"]) > 1 else None
                if clo and clo in F.bodies:
                    ct = Terms(F, F.bodies[clo], inline_depth=2)
                    ret = ct.local(0)
                    if m == "sort_by_key":
                        key_ok = _mentions_start_year(ret)
                    else:
                        pairs = _cmp_orientation(ret)
                        key_ok = bool(pairs) and all(_mentions_start_year(l) and _mentions_start_year(rr) for l, rr in pairs) \
                            and all((_param_root(l) or (9,))[0] < (_param_root(rr) or (0,))[0] for l, rr in pairs)
                sinks = _ok_sinks(F, b, r[0])
                cuts = bool(sinks) and all(b.dominates(i, sb) for sb in sinks)
                ok = key_ok and cuts and "unstable" not in m
                detail = (f"summaries sorted by period start year ({m}) on every path that returns them" if ok else
                          f"sort present ({m}) but key_ok={key_ok} on_all_paths={cuts}")
            if not found:
                why = _ascending_by_construction(F, b)
                if why:
                    ok, detail = True, why
            rep.ob("R4", f"{b.short}:tax-years-ascending", ok, detail, b.loc(), key=f"R4:{b.short}:tax-years-ascending")
    # (c) disposals by (date, ticker): fns returning Vec<Disposal>
    for b in F.bodies.values():
        if b.crate == "cgt_core" and b.kind in ("fn", "method") and b.ret.startswith("alloc::vec::Vec<cgt_core::models::Disposal"):
            n += 1
            found = None
            for i, t, m, r in sort_calls(F, b, wr):
                if r and "Disposal" in b.local_ty(r[0]):
                    found = (i, t, m, r)
            ok = False
            detail = "disposals are never sorted"
            if found:
                i, t, m, r = found
                cuts = all(b.block_cuts(i, 0, rb) for rb in b.return_blocks())
                key_ok = _is_date_ticker_sort(F, b, t, m)
                ok = cuts and key_ok
                detail = f"disposals sorted by (date, ticker) via {m} on every path" if ok else f"sort {m}: key_ok={key_ok}, on_all_paths={cuts}"
            rep.ob("R4", f"{b.short}:disposals-date-ticker", ok, detail, b.loc(), key=f"R4:{b.short}:disposals-date-ticker")
    # (d) plain text echo: in the plain formatter every Vec collected from the transaction slice (references, or line views
    #     projected from them, in the function itself or in a generic helper) is sorted by (date, ticker) before it is
    #     iterated or returned
    for b in F.bodies.values():
        if b.crate != "cgt_formatter_plain" or b.kind != "fn":
            continue
        tbp = Terms(F, b, inline_depth=0)
        tx_params = {k for k in range(b.argc) if "cgt_core::models::Transaction" in b.local_ty(k + 1) and ("[" in b.local_ty(k + 1) or "Vec<" in b.local_ty(k + 1))}
        for l, d in enumerate(b.locals):
            if not (d["ty"].startswith("alloc::vec::Vec<") and d.get("name")) or l <= b.argc:
                continue
            init = tbp.local(l)
            t0 = init[2] if isinstance(init, tuple) and init and init[0] == "var" and len(init) > 2 else init
            from_tx = any(isinstance(x, tuple) and x and ((x[0] == "param" and x[1] in tx_params) or
                                                          (x[0] == "field" and x[2] == "transactions")) for x in subterms(t0)) and \
                any(isinstance(x, tuple) and x and x[0] == "call" and parse_callee(x[1])[2] == "collect" for x in subterms(t0))
            if not (d["ty"].startswith("alloc::vec::Vec<&cgt_core::models::Transaction") or from_tx):
                continue
            n += 1
            srt = [(i, t, m) for i, t, m, r in sort_calls(F, b, wr) if r and r[0] == l]
            # uses after which order matters: iteration, or being returned
            its = [i for i, t in b.calls() if parse_callee(t["callee"])[2] in ("into_iter", "iter")
                   and (root_of_operand(b, t["args"][0]) or (None,))[0] == l]
            its += [i for i, si, s in b.assigns() if s["lhs"]["l"] == 0 and not place_proj(s["lhs"]) and s["rv"]["k"] == "use"
                    and (op_place(s["rv"]["op"]) or {}).get("l") == l]
            ok = bool(srt) and all(any(b.dominates(si, it) for si, _, _ in srt) for it in its) and \
                all(_is_date_ticker_sort(F, b, t, m) for _, t, m in srt)
            rep.ob("R4", f"{b.short}:{d['name']}:echo-date-ticker", ok,
                   "transaction echo sorted by (date, ticker) before it is printed" if ok else
                   "transaction echo is printed without a dominating (date, ticker) sort", b.loc(),
                   key=f"R4:{b.short}:{d['name']}:echo-order")
    return n


def _ok_sinks(F, b, l):
    """blocks where the vec (or an alias) is wrapped into Ok(..)/returned"""
    al = HashOrder(F)._aliases(b, l)
    out = []
    for i, si, s in b.assigns():
        rv = s["rv"]
        if rv["k"] == "agg" and rv["adt"] == "core::result::Result" and rv["variant"] == "Ok":
            p = op_place(rv["ops"][0])
            if p is not None and p["l"] in al:
                out.append(i)
        if rv["k"] == "use" and s["lhs"]["l"] == 0 and not place_proj(s["lhs"]):
            p = op_place(rv["op"])
            if p is not None and p["l"] in al:
                out.append(i)
    return out


def _mentions_start_year(t):
    return any(isinstance(x, tuple) and x and ((x[0] == "call" and x[1].endswith("TaxPeriod::start_year")) or
                                               (x[0] == "field" and x[2] == "period")) for x in subterms(t))


def _is_date_ticker_sort(F, b, t, m):
    if m.startswith("wrapper:"):
        # wrapper must call the shared comparator with getters for date and ticker; check closure args read .date / .ticker
        def getter_keys(fb, args):
            keys = []
            for a in args:
                clo = _closure_of(fb, a)
                if clo and clo in F.bodies:
                    ct = Terms(F, F.bodies[clo], inline_depth=0)
                    r = ct.local(0)
                    pr = _param_root(r)
                    keys.append(".".join(pr[1]) if pr else show(r))
                else:
                    p = op_place(a)
                    r0 = root_of_operand(fb, a) if p is not None else None
                    keys.append(("param", r0[0] - 1) if r0 and not r0[1] and 1 <= r0[0] <= fb.argc else None)
            return keys
        keys = getter_keys(b, t["args"][1:])
        if len(keys) >= 2 and all(isinstance(k, tuple) and k and k[0] == "param" for k in keys[:2]):
            # the getters are this (generic) function's own parameters: every caller must pass date / ticker getters
            sites = list(F.call_sites(lambda cal, bid=b.id: cal == bid))
            if not sites:
                return False
            for cb, ci, ct in sites:
                ks = getter_keys(cb, [ct["args"][keys[0][1]], ct["args"][keys[1][1]]])
                if not (isinstance(ks[0], str) and ks[0].endswith("date") and isinstance(ks[1], str) and ks[1].endswith("ticker")):
                    return False
            return True
        keys = [k for k in keys if isinstance(k, str)]
        return len(keys) >= 2 and keys[0].endswith("date") or (len(keys) >= 2 and keys[0] in ("0",)) and True
    clo = _closure_of(b, t["args"][1]) if len(t["args"]) > 1 else None
    if clo and clo in F.bodies:
        ct = Terms(F, F.bodies[clo], inline_depth=2)
        pairs = _cmp_orientation(ct.local(0))
        ks = [".".join((_param_root(l) or (0, ("?",)))[1]) for l, _ in pairs]
        return len(ks) >= 2 and ks[0].endswith("date") and ks[1].endswith("ticker")
    return False


def run(ctx, rep):
    F = ctx.F
    n1 = hash_order(F, rep)
    n1b = hash_format_and_serialize(F, rep)
    n2 = clocks(F, rep)
    n3 = comparators(F, rep)
    n4 = stated_orders(F, rep)
    rep.count("hash_iteration_uses", n1)
    rep.count("format_and_serialize_sites", n1b)
    rep.count("clock_sites", n2)
    rep.count("sort_sites", n3)
    rep.count("stated_order_producers", n4)
    if n3 == 0:
        rep.unresolved("R3", "sorts", "no slice sort found in the workspace")
    if n4 < 4:
        rep.unresolved("R4", "producers", f"only {n4} of the stated-order producers were located")


def controls(pctx, rep):
    """each zero-expected detector must fire on the positive-control crate"""
    from core import Report
    F = pctx.F
    r = Report("ctl")
    hash_order(F, r)
    keys = {v["key"] for v in r.violations}
    rep.control("R1:vec-unsorted", any("hash_vec_unsorted" in k for k in keys), "posctl::hash_vec_unsorted")
    rep.control("R1:early-exit", any("hash_early_exit" in k and "early-exit" in k for k in keys), "posctl::hash_early_exit")
    rep.control("R1:tie-break", any("hash_max_by_key_tie" in k for k in keys), "posctl::hash_max_by_key_tie: max_by_key over a hash map picks the tied item by hash order")
    rep.control("R1:max-value-ok", not any("hash_max_value_ok" in k for k in keys), "posctl::hash_max_value_ok must stay silent")
    rep.control("R1:sorted-ok", not any("hash_vec_sorted_ok" in k for k in keys), "posctl::hash_vec_sorted_ok must stay silent")
    r2 = Report("ctl")
    clocks(F, r2)
    rep.control("R2:clock", any("clock_in_wrong_place" in v["key"] for v in r2.violations), "posctl::clock_in_wrong_place")
    r3 = Report("ctl")
    comparators(F, r3)
    k3 = {v["key"] for v in r3.violations}
    rep.control("R3:descending", any("sort_descending" in k and "orientation" in k for k in k3), "posctl::sort_descending")
    rep.control("R3:unstable", any("sort_unstable_ctl" in k and "unstable" in k for k in k3), "posctl::sort_unstable_ctl")
    rep.control("R3:ascending-ok", not any("sort_ascending_ok" in k for k in k3), "posctl::sort_ascending_ok must stay silent")
