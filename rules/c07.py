"""C07 — tax-year boundary and year slice (structural clauses)."""
import re
from mir import Terms, parse_callee, show, op_place, op_const, place_proj, subterms, calls_in
from flow import body_is_external, HashOrder
import panics as P

META = {
    "explanation": (
        "R1: every place that derives or tests the tax-year boundary (found by callee: NaiveDate::from_ymd_opt with "
        "constant month/day, comparisons on Datelike::month()/day()) is reduced to a comparison-only predicate over "
        "(month, day): the path condition of the block that computes `year − 1`, or the two bounds of a date-range "
        "filter. The extracted predicate is tabulated over the 12×31 calendar grid and must equal 'before 6 April' "
        "(range filters: lower bound 6 April Y, upper bound 5 April Y+1, no gap, no overlap). No cgt-tool code runs: "
        "only the extracted formula is evaluated. R2: the TaxPeriod tuple constructor is used only on the true edge "
        "of the [MIN_TAX_YEAR, MAX_TAX_YEAR] range test, whose evaluated constants are 1900 and 2100 (plus a "
        "compile-fail witness in the thorough tier). R3: the all-years list is sorted ascending by period start year. "
        "R4: the matcher receives the conversion of all transactions (no filter upstream); the year filter is applied "
        "to its results; holdings come from the unfiltered pools. R5: the single-year and all-years builders fill every "
        "TaxYearSummary field from the same producers. Does not decide equality of the sliced and the all-years report. R6: constant year-like ranges in the front-end crates contain 1900..=2100. R7 (filing keys): wherever library code files an element into a map keyed by the tax year (u16 key), the key is on every path the start year of TaxPeriod::from_date(<a date of the element>), directly or through a helper returning exactly that; a key chosen between that and a cached period is reported. R5 also: the summary builders never turn a year they cannot build into an absence (no workspace Result discarded by ok/unwrap_or/… or flattened away by flat_map/flatten; shared with C15-R7)."),
    "trusted_base": ["chrono NaiveDate ordering is calendar order; from_ymd_opt(y, m, d) denotes that date",
                     "rustc MIR + callee resolution"],
}


def _ymd_consts(t):
    """find from_ymd_opt(year_term, M, D) inside a term -> (year_term, M, D)"""
    for x in subterms(t):
        if isinstance(x, tuple) and x and x[0] == "call" and x[1].endswith("NaiveDate::from_ymd_opt") and len(x[2]) == 3:
            y, m, d = x[2]
            if m[0] == "int" and d[0] == "int":
                return (y, m[1], d[1])
    return None


def _is_md(t, which):
    """term is Datelike::month(x) / day(x)"""
    return isinstance(t, tuple) and t and t[0] == "call" and parse_callee(t[1])[2] == which and ("Datelike" in t[1] or "chrono" in t[1])


CMP = {"Lt": lambda a, b: a < b, "Le": lambda a, b: a <= b, "Gt": lambda a, b: a > b, "Ge": lambda a, b: a >= b,
       "Eq": lambda a, b: a == b, "Ne": lambda a, b: a != b}
FLIP = {"Lt": "Gt", "Gt": "Lt", "Le": "Ge", "Ge": "Le", "Eq": "Eq", "Ne": "Ne"}


def atom_of(cond):
    """-> callable (m, d) -> bool for a month/day/date comparison term, or None"""
    if not (isinstance(cond, tuple) and cond):
        return None
    if cond[0] == "bin" and cond[1] in CMP:
        op, a, b = cond[1], cond[2], cond[3]
        for which in ("month", "day"):
            if _is_md(a, which) and b[0] == "int":
                k = b[1]
                return (lambda m, d, op=op, k=k, which=which: CMP[op](m if which == "month" else d, k)), f"{which} {op} {k}"
            if _is_md(b, which) and a[0] == "int":
                k = a[1]
                return (lambda m, d, op=FLIP[op], k=k, which=which: CMP[op](m if which == "month" else d, k)), f"{which} {FLIP[op]} {k}"
    if cond[0] == "cmp" and cond[1] in CMP:
        op, a, b = cond[1], cond[2], cond[3]
        # lexicographic comparison of (month, day) with a constant pair: `(date.month(), date.day()) < (4, 6)`
        def md_pair(t):
            return isinstance(t, tuple) and t and t[0] == "tuple" and len(t[1]) == 2 and _is_md(t[1][0], "month") and _is_md(t[1][1], "day")

        def const_pair(t):
            return isinstance(t, tuple) and t and t[0] == "tuple" and len(t[1]) == 2 and all(isinstance(x, tuple) and x and x[0] == "int" for x in t[1])
        if md_pair(a) and const_pair(b):
            M, D = b[1][0][1], b[1][1][1]
            return (lambda m, d, op=op, M=M, D=D: CMP[op]((m, d), (M, D))), f"(month, day) {op} ({M}, {D})"
        if md_pair(b) and const_pair(a):
            M, D = a[1][0][1], a[1][1][1]
            return (lambda m, d, op=FLIP[op], M=M, D=D: CMP[op]((m, d), (M, D))), f"(month, day) {FLIP[op]} ({M}, {D})"
        ya, yb = _ymd_consts(a), _ymd_consts(b)
        if yb and not ya:
            _, M, D = yb
            return (lambda m, d, op=op, M=M, D=D: CMP[op]((m, d), (M, D))), f"date {op} ymd(y,{M},{D})"
        if ya and not yb:
            _, M, D = ya
            return (lambda m, d, op=FLIP[op], M=M, D=D: CMP[op]((m, d), (M, D))), f"date {FLIP[op]} ymd(y,{M},{D})"
    return None


def before_6_april(m, d):
    return m < 4 or (m == 4 and d < 6)


GRID = [(m, d) for m in range(1, 13) for d in range(1, 32)]


def _prev_year_blocks(b, tb):
    """blocks computing `year − 1` on a chrono year"""
    out = []
    for i, si, s in b.assigns():
        rv = s["rv"]
        if rv["k"] == "bin" and rv["op"] in ("SubWithOverflow", "Sub"):
            a = tb.operand(rv["a"])
            c = tb.operand(rv["b"])
            if c == ("int", 1) and any(isinstance(x, tuple) and x and x[0] == "call" and parse_callee(x[1])[2] == "year" for x in subterms(a)):
                out.append(i)
    return out


def _path_predicate(b, tb, target):
    """disjunction over CFG paths entry→target of the conjunction of month/day/date atoms on the way.
    returns (callable, description) or None if no atom is involved"""
    can_reach = {x for x in b.reachable() if target in b.reach_from(x)}
    paths = []
    limit = [0]

    def step_env(x, env):
        """bool locals assigned on the way (`let before = a || b;` is a φ of constants and comparisons in MIR)"""
        out = env
        for s in b.stmts(x):
            lhs = s.get("lhs")
            if not lhs or place_proj(lhs) or b.local_ty(lhs["l"]) != "bool":
                continue
            rv = s["rv"]
            v = None
            if rv["k"] == "use":
                k = op_const(rv["op"])
                p = op_place(rv["op"])
                if k is not None and (k.get("disp") in ("true", "false") or k.get("int") in ("0", "1")):
                    v = ("const", k.get("disp") == "true" or k.get("int") == "1")
                elif p is not None and not place_proj(p) and p["l"] in out:
                    v = out[p["l"]]
            elif rv["k"] == "bin":
                at = atom_of(tb.rvalue(rv))
                if at:
                    v = ("atom", at, True)
            elif rv["k"] == "un" and rv.get("op") == "Not":
                p = op_place(rv["a"])
                if p is not None and not place_proj(p) and p["l"] in out:
                    w = out[p["l"]]
                    v = ("const", not w[1]) if w[0] == "const" else ("atom", w[1], not w[2])
            if v is not None or lhs["l"] in out:
                out = dict(out)
                if v is None:
                    out.pop(lhs["l"], None)
                else:
                    out[lhs["l"]] = v
        return out

    def dfs(x, conds, seen, env=None):
        if limit[0] > 4000:
            return
        env = step_env(x, env or {})
        if x == target:
            limit[0] += 1
            paths.append(list(conds))
            return
        t = b.term(x)
        known = None
        if t["k"] == "switch":
            p = op_place(t["discr"])
            if p is not None and not place_proj(p) and p["l"] in env:
                known = env[p["l"]]
        for s in b.succ(x):
            if s not in can_reach or s in seen:
                continue
            nc = conds
            if t["k"] == "switch":
                # bool switch: target for value 0 is the false edge
                val = None
                for v, tgt in t["targets"]:
                    if tgt == s and v == "0":
                        val = False
                if val is None:
                    val = True
                if known is not None and known[0] == "const":
                    if known[1] != val:
                        continue          # this edge is not taken on the path walked so far
                elif known is not None:
                    nc = conds + [(known[1], val == known[2])]
                else:
                    cond = tb.operand(t["discr"])
                    at = atom_of(cond)
                    if at:
                        nc = conds + [(at, val)]
            dfs(s, nc, seen | {s}, env)

    dfs(0, [], {0})
    if limit[0] > 4000 or not paths:
        return None
    if not any(p for p in paths):
        return None
    descr = " ∨ ".join(sorted({" ∧ ".join((("" if v else "¬") + a[1]) for a, v in p) or "true" for p in paths}))

    def pred(m, d):
        return any(all(a[0](m, d) == v for a, v in p) for p in paths)
    return pred, descr


def year_sites(F, rep, rule="R1", only_crate=None):
    n = 0
    for b in F.bodies.values():
        if F.is_derive(b) or body_is_external(F, b):
            continue
        if only_crate and b.crate != only_crate:
            continue
        tb = None
        has_ymd = any(t["callee"].endswith("NaiveDate::from_ymd_opt") for _, t in b.calls())
        has_md = any(parse_callee(t["callee"])[2] in ("month", "day") and "Datelike" in t["callee"] for _, t in b.calls())
        has_rng = False
        if not has_ymd and b.crate == "cgt_core" and any(s_["rv"]["k"] == "closure" for _, _, s_ in b.assigns()) and \
                any(t["callee"] in F.bodies and any(u["callee"].endswith("NaiveDate::from_ymd_opt") for _, u in F.bodies[t["callee"]].calls())
                    for _, t in b.calls()):
            has_rng = True   # dates built by a helper and captured by a filter closure
        if not (has_ymd or has_md or has_rng):
            continue
        tb = Terms(F, b, inline_depth=0)
        # (i) derivation sites: a block computing year − 1
        pys = _prev_year_blocks(b, tb)
        for pb in pys:
            n += 1
            pp = _path_predicate(b, tb, pb)
            if pp is None:
                rep.ob(rule, f"{b.short}:boundary", False,
                       "the block computing `year − 1` is not guarded by a comparison on month/day or on 6 April of the same year",
                       b.loc(), key=f"{rule}:{b.short}:boundary")
                continue
            pred, descr = pp
            bad = [(m, d) for (m, d) in GRID if pred(m, d) != before_6_april(m, d)]
            rep.ob(rule, f"{b.short}:boundary", not bad,
                   f"`year − 1` is taken exactly when [{descr}] ≡ before 6 April (372 calendar cells tabulated)" if not bad else
                   f"tax-year boundary predicate [{descr}] differs from 'before 6 April' at (month, day) = {bad[:4]}…",
                   b.loc(), key=f"{rule}:{b.short}:boundary")
        # (ii) range-filter sites: two from_ymd_opt with constants and closures comparing against them
        if (has_ymd or has_rng) and not pys and only_crate is None:
            ymds = []
            for i, t in b.calls():
                if t["callee"].endswith("NaiveDate::from_ymd_opt"):
                    args = [tb.operand(a) for a in t["args"]]
                    if args[1][0] == "int" and args[2][0] == "int":
                        ymds.append((i, t, args))
            cmps = _closure_date_cmps(F, b, tb)
            if cmps:
                n += 1
                lo = [c for c in cmps if c[0] in ("Ge", "Gt")]
                hi = [c for c in cmps if c[0] in ("Le", "Lt")]
                ok = len(lo) == 1 and len(hi) == 1
                why = ""
                if ok:
                    (lop, ly, lm, ld), (hop, hy, hm, hd) = lo[0], hi[0]
                    # year terms: hi year must be lo year + 1
                    yr_ok = _is_plus_one(hy, ly)
                    # an exclusive upper bound `< ymd(Y+1, 4, 6)` is the same set as `<= ymd(Y+1, 4, 5)`
                    in_cur = lambda m, d: CMP[lop]((m, d), (lm, ld))
                    in_prev = lambda m, d: CMP[hop]((m, d), (hm, hd))
                    bad = [(m, d) for (m, d) in GRID if in_cur(m, d) == in_prev(m, d) or in_prev(m, d) != before_6_april(m, d)]
                    ok = yr_ok and not bad
                    why = (f"year filter keeps dates {lop} ymd(Y,{lm},{ld}) and {hop} ymd(Y+1,{hm},{hd}): every calendar day falls in exactly one year, split at 6 April"
                           if ok else f"year filter bounds {lop} ymd({show(ly)},{lm},{ld}) / {hop} ymd({show(hy)},{hm},{hd}) "
                           f"{'do not use consecutive years' if not yr_ok else 'leave a gap/overlap or differ from the 6 April split at ' + str(bad[:4])}")
                else:
                    why = f"range filter shape not recognised ({len(lo)} lower, {len(hi)} upper bounds)"
                rep.ob(rule, f"{b.short}:year-range", ok, why, b.loc(), key=f"{rule}:{b.short}:year-range")
            elif ymds:
                # accessors: constants must be (4,6) with start year or (4,5) with end year
                for i, t, args in ymds:
                    n += 1
                    md = (args[1][1], args[2][1])
                    ytxt = show(args[0])
                    ok = md == (4, 6) or md == (4, 5)
                    if md == (4, 5):
                        ok = "end_year" in ytxt or "Add 1" in ytxt
                    rep.ob(rule, f"{b.short}:ymd{md}", ok,
                           f"tax-year date constant {md} with year term {ytxt[:40]}" if ok else
                           f"tax-year date built as ymd({ytxt[:40]}, {md[0]}, {md[1]}) — expected 6 April of the start year or 5 April of the end year",
                           b.loc(t["sp"]), key=f"{rule}:{b.short}:ymd-const")
    return n


def _is_plus_one(hy, ly):
    if isinstance(hy, tuple) and hy and hy[0] == "bin" and hy[1] == "Add" and hy[3] == ("int", 1):
        return hy[2] == ly
    return False


def _project(t, depth=0):
    """resolve projections out of values built in sight: `.k` of a tuple / struct literal, and the success value of `expr?` where expr is (a phi
    containing) a literal `Ok(v)` — so that the two dates a helper returns as `Ok((start, end))?` are told apart"""
    if not (isinstance(t, tuple) and t) or depth > 12:
        return t
    if t[0] == "field" and len(t) == 3:
        x = _project(t[1], depth + 1)
        if isinstance(x, tuple) and x:
            if x[0] == "tuple" and str(t[2]).isdigit() and int(t[2]) < len(x[1]):
                return _project(x[1][int(t[2])], depth + 1)
            if x[0] == "agg" and len(x) > 3:
                for k, v in x[3]:
                    if k == t[2]:
                        return _project(v, depth + 1)
            if x[0] == "dc" and x[2] == "Continue" and t[2] == "0" and isinstance(x[1], tuple) and x[1] and x[1][0] == "call" and x[1][1].endswith("Try>::branch") and x[1][2]:
                src = _project(x[1][2][0], depth + 1)
                alts = src[1] if isinstance(src, tuple) and src and src[0] == "phi" else (src,)
                oks = [a for a in alts if isinstance(a, tuple) and a and a[0] == "agg" and a[1].endswith("result::Result") and a[2] == "Ok"]
                if len(oks) == 1:
                    for k, v in oks[0][3]:
                        if k == "0":
                            return _project(v, depth + 1)
        if x is not t[1]:
            return ("field", x, t[2])
    return t


def _closure_date_cmps(F, b, tb):
    """closures created in b that compare a date with captured from_ymd_opt values (directly, through a helper that
    builds the date, or through a Range/RangeInclusive::contains) -> list of (op, year_term, M, D) as `date op bound`"""
    out = []
    tbi = Terms(F, b, inline_depth=2)
    for i, si, s in b.assigns():
        rv = s["rv"]
        if rv["k"] != "closure":
            continue
        cb = F.bodies.get(rv["id"])
        if cb is None:
            continue
        caps = [_project(tbi.operand(o)) for o in rv["ops"]]
        if not any(_ymd_consts(c) for c in caps):
            continue
        ct = Terms(F, cb, inline_depth=0)

        def bound(t):
            u = _upvar(t)
            if u is not None and u < len(caps):
                return _ymd_consts(caps[u])
            return None
        terms = [ct.operand(cb.term(bi)["discr"]) for bi in cb.reachable() if cb.term(bi)["k"] == "switch"] + [ct.local(0)]
        for c in terms:
            for x in subterms(c):
                if not (isinstance(x, tuple) and x):
                    continue
                if x[0] == "cmp":
                    op, p, q = x[1], x[2], x[3]
                    bq, bp = bound(q), bound(p)
                    cand = None
                    if bq and not bp:
                        cand = (op,) + bq
                    elif bp and not bq:
                        cand = (FLIP[op],) + bp
                    if cand and cand not in out:
                        out.append(cand)
                if x[0] == "call" and parse_callee(x[1])[2] == "contains" and len(x[2]) == 2:
                    rng = x[2][0]
                    lo = hi = None
                    incl = True
                    if isinstance(rng, tuple) and rng and rng[0] == "call" and "RangeInclusive" in rng[1] and len(rng[2]) == 2:
                        lo, hi = bound(rng[2][0]), bound(rng[2][1])
                    elif isinstance(rng, tuple) and rng and rng[0] == "agg" and rng[1].endswith("ops::range::Range"):
                        fs = dict(rng[3])
                        lo, hi, incl = bound(fs.get("start")), bound(fs.get("end")), False
                    elif isinstance(rng, tuple) and rng and rng[0] == "agg" and rng[1].endswith("RangeInclusive"):
                        fs = dict(rng[3])
                        lo, hi = bound(fs.get("start")), bound(fs.get("end"))
                    if lo and hi:
                        for cand in (("Ge",) + lo, ("Le" if incl else "Lt",) + hi):
                            if cand not in out:
                                out.append(cand)
    return out


def _upvar(t):
    while isinstance(t, tuple) and t:
        if t[0] == "field" and isinstance(t[1], tuple) and t[1] and t[1][0] == "param" and t[1][1] == 0:
            try:
                return int(t[2])
            except ValueError:
                return None
        if t[0] in ("field", "dc", "some", "cast"):
            t = t[1]
        else:
            return None
    return None


def ctor_sites(F, rep, rule="R2"):
    lo = F.consts.get("cgt_core::models::MIN_TAX_YEAR", {}).get("val")
    hi = F.consts.get("cgt_core::models::MAX_TAX_YEAR", {}).get("val")
    n = 0
    for b in F.bodies.values():
        if F.is_derive(b):
            continue
        for i, si, s in b.assigns():
            rv = s["rv"]
            if rv["k"] == "agg" and rv["adt"] == "cgt_core::models::TaxPeriod":
                n += 1
                tb = Terms(F, b, inline_depth=0)
                val = tb.operand(rv["ops"][0])
                ok = False
                why = "TaxPeriod constructed without a dominating range check on the same value"
                rng = _interval_from_guards(b, tb, i, val)
                if rng is not None:
                    if rng == (1900, 2100):
                        ok = True
                        why = "constructed only where 1900 ≤ start_year ≤ 2100 holds (constants evaluated; interval implied by the dominating branch edges)"
                    else:
                        why = f"the dominating tests imply start_year ∈ [{rng[0]}, {rng[1]}], the property states 1900..=2100"
                rep.ob(rule, f"{b.short}:TaxPeriod-ctor", ok, why, b.loc(s["sp"]), key=f"{rule}:{b.short}:taxperiod-ctor")
    if n == 0:
        rep.unresolved(rule, "TaxPeriod-ctor", "no construction of TaxPeriod found")
    return n


def _interval_from_guards(b, tb, bb, val):
    """tightest [lo, hi] on the integer term `val` implied by the branch edges that dominate block bb; None = no test at all"""
    from roles import guards_of, truth
    lo = hi = None
    seen = False

    def tighten(op, k):
        nonlocal lo, hi, seen
        seen = True
        if op == "Ge":
            lo = k if lo is None else max(lo, k)
        elif op == "Gt":
            lo = k + 1 if lo is None else max(lo, k + 1)
        elif op == "Le":
            hi = k if hi is None else min(hi, k)
        elif op == "Lt":
            hi = k - 1 if hi is None else min(hi, k - 1)
    NEG = {"Ge": "Lt", "Gt": "Le", "Le": "Gt", "Lt": "Ge"}
    FLIPC = {"Ge": "Le", "Gt": "Lt", "Le": "Ge", "Lt": "Gt"}
    for cnd, v, s in guards_of(b, tb, bb):
        t = truth(v)
        r = _range_test(cnd, val)
        if r is not None:
            if t:
                tighten("Ge", r[0])
                tighten("Le", r[1])
            continue
        if isinstance(cnd, tuple) and cnd and cnd[0] in ("bin", "cmp") and cnd[1] in NEG:
            op, x, y = cnd[1], cnd[2], cnd[3]
            if x == val and isinstance(y, tuple) and y[0] == "int":
                tighten(op if t else NEG[op], y[1])
            elif y == val and isinstance(x, tuple) and x[0] == "int":
                op2 = FLIPC[op]
                tighten(op2 if t else NEG[op2], x[1])
    if not seen:
        return None
    return (lo, hi)


def _range_test(c, val):
    """cond term is RangeInclusive::new(lo, hi).contains(val) or lo <= val && val <= hi (single switch form)"""
    if isinstance(c, tuple) and c and c[0] == "call" and parse_callee(c[1])[2] == "contains" and len(c[2]) == 2:
        r, v = c[2]
        if v != val:
            return None
        if isinstance(r, tuple) and r and r[0] == "call" and "RangeInclusive" in r[1] and len(r[2]) == 2:
            a, b = r[2]
            if a[0] == "int" and b[0] == "int":
                return (a[1], b[1])
    return None


def provenance(F, rep):
    calc = [b for b in F.bodies.values() if b.id.endswith("calculator::calculate") and b.kind == "fn"]
    if len(calc) != 1:
        rep.unresolved("R4", "CALCULATE", f"{len(calc)} bodies named calculator::calculate")
        return
    b = calc[0]
    tb = Terms(F, b, inline_depth=0)
    proc = [(i, t) for i, t in b.calls() if t["callee"].endswith("Matcher::process")]
    if len(proc) != 1:
        rep.unresolved("R4", "process-call", f"{len(proc)} calls to Matcher::process in calculate")
        return
    i, t = proc[0]
    arg = tb.operand(t["args"][1])
    cs = calls_in(arg)
    conv = [c for c in cs if c.endswith("transactions_to_gbp")]
    filt = [c for c in cs if parse_callee(c)[2] in ("filter", "retain", "take_while", "skip_while", "filter_map", "take", "skip", "drain")]
    rooted = any(isinstance(x, tuple) and x and x[0] == "call" and x[1].endswith("transactions_to_gbp") and x[2][0] == ("param", 0, b.local_name(1))
                 for x in subterms(arg))
    rep.ob("R4", "calculate:matcher-gets-all", bool(conv) and rooted and not filt,
           "Matcher::process receives transactions_to_gbp(<all input transactions>) with no filter in between" if conv and rooted and not filt else
           f"the matcher's input is {show(arg)[:120]} — not the conversion of the whole input (filter calls: {filt})",
           b.loc(t["sp"]), key="R4:calculate:matcher-input")
    # the converter itself must not drop lines
    for cb in F.find("models::transactions_to_gbp"):
        ct = Terms(F, cb, inline_depth=0)
        r = ct.local(0)
        f2 = [c for c in calls_in(r) if parse_callee(c)[2] in ("filter", "retain", "take_while", "skip_while", "filter_map", "take", "skip")]
        rep.ob("R4", "transactions_to_gbp:no-filter", not f2,
               "conversion maps every transaction (no filtering adaptor)" if not f2 else f"conversion drops lines via {f2}", cb.loc(),
               key="R4:transactions_to_gbp:filter")
    # year filter applies to match results; holdings from the pools
    for bi, si, s in b.assigns():
        rv = s["rv"]
        if rv["k"] == "agg" and rv["adt"].endswith("models::TaxReport"):
            f = dict(zip(rv["fields"], rv["ops"]))
            h = tb.operand(f["holdings"])
            src_ok = any(isinstance(x, tuple) and x and x[0] == "call" and x[1].endswith("Matcher::process") for x in subterms(h))
            hf = [c for c in calls_in(h) if parse_callee(c)[2] in ("filter", "retain", "filter_map", "take", "skip")]
            rep.ob("R4", "calculate:holdings-from-pools", src_ok and not hf,
                   "holdings are collected from the pools returned by Matcher::process, unfiltered" if src_ok and not hf else
                   f"holdings are {show(h)[:120]}", b.loc(s["sp"]), key="R4:calculate:holdings")
    for j, u in b.calls():
        if u["callee"] in F.bodies and "TaxYearSummary" in F.bodies[u["callee"]].ret:
            args = [tb.operand(a) for a in u["args"]]
            ok = any(any(isinstance(x, tuple) and x and x[0] == "call" and x[1].endswith("Matcher::process") for x in subterms(a)) for a in args)
            rep.ob("R4", f"calculate:{u['callee'].split('::')[-1]}:from-full-results", ok,
                   "summary builder receives the match results of the whole history" if ok else
                   "summary builder is not fed from Matcher::process results", b.loc(u["sp"]),
                   key=f"R4:calculate:{u['callee'].split('::')[-1]}:input")


F_RET = {}


def sibling_builders(F, rep):
    F_RET.clear()
    F_RET.update({b.id: b.ret for b in F.bodies.values()})
    aggs = []
    for b in F.bodies.values():
        if F.is_derive(b) or b.crate != "cgt_core":
            continue
        for i, si, s in b.assigns():
            rv = s["rv"]
            if rv["k"] == "agg" and rv["adt"].endswith("models::TaxYearSummary"):
                tb = Terms(F, b, inline_depth=0)
                aggs.append((b, {n: tb.operand(o) for n, o in zip(rv["fields"], rv["ops"])}, s))
    if len(aggs) < 1:
        rep.unresolved("R5", "builders", "no construction of TaxYearSummary in cgt_core")
        return
    if len(aggs) == 1:
        # one shared assembler: the sibling comparison moves to its call sites — the single-year and the all-years path must
        # hand it values produced the same way (argument by argument, the period aside)
        sb, sfs, ss = aggs[0]
        period_param = sfs["period"][1] if isinstance(sfs.get("period"), tuple) and sfs["period"][0] == "param" else None
        sites = list(F.call_sites(lambda cal, sid=sb.id: cal == sid))
        sigs = []
        for cb, ci, ct in sites:
            ctb = Terms(F, cb, inline_depth=0)
            sigs.append((cb, ct, [None if k == period_param else _producer_sig(ctb.operand(a)) for k, a in enumerate(ct["args"])]))
        for cb, ct, sg in sigs[1:]:
            for k, (a, c2) in enumerate(zip(sigs[0][2], sg)):
                if a is None:
                    continue
                rep.ob("R5", f"{cb.short}~{sigs[0][0].short}:arg{k}", a == c2,
                       f"both paths hand the shared assembler argument {k} from {sorted(a) or 'plain values'}" if a == c2 else
                       f"argument {k} of {sb.short} is produced by {sorted(a)} in {sigs[0][0].short} but by {sorted(c2)} in {cb.short}",
                       cb.loc(ct["sp"]), key=f"R5:arg{k}:builders-differ")
        rep.note(f"R5: one shared summary assembler ({sb.short}) with {len(sites)} call sites")
    ref_b, ref, _ = aggs[0]
    for b, fs, s in aggs[1:]:
        for name in sorted(ref):
            if name == "period":
                continue
            a = _producer_sig(ref[name])
            c = _producer_sig(fs.get(name))
            rep.ob("R5", f"{b.short}~{ref_b.short}:{name}", a == c,
                   f"both builders fill `{name}` from {sorted(a) or 'plain arithmetic'}" if a == c else
                   f"`{name}` is produced by {sorted(a)} in {ref_b.short} but by {sorted(c)} in {b.short}",
                   b.loc(s["sp"]), key=f"R5:{name}:builders-differ")
    # exemption lookup keyed by the period's own start year, dividends by the same year
    for b, fs, s in aggs:
        ex = fs.get("exempt_amount")
        ok = any(isinstance(x, tuple) and x and x[0] == "call" and x[1].endswith("Config::get_exemption") for x in subterms(ex))
        rep.ob("R5", f"{b.short}:exemption-lookup", ok, "exempt_amount comes from Config::get_exemption" if ok else
               f"exempt_amount is {show(ex)[:80]}", b.loc(s["sp"]), key=f"R5:{b.short}:exemption-source")
        # the keys used for the exemption and the dividend aggregate denote the period stored in the same summary
        pd = fs.get("period")
        for fname, callee_m in (("exempt_amount", "get_exemption"), ("dividend_income", "get"), ("dividend_tax_paid", "get")):
            t = fs.get(fname)
            keys = [x[2][1] for x in subterms(t) if isinstance(x, tuple) and x and x[0] == "call"
                    and parse_callee(x[1])[2] == callee_m and len(x[2]) == 2]
            okk = bool(keys) and all(_same_year(k, pd) for k in keys)
            rep.ob("R5", f"{b.short}:{fname}:own-year", okk,
                   f"`{fname}` is looked up with the start year of the summary's own period" if okk else
                   f"`{fname}` is looked up with key {[show(k)[:50] for k in keys]} which is not the start year of the period stored in the same summary ({show(pd)[:60]})",
                   b.loc(s["sp"]), key=f"R5:{b.short}:{fname}:year-key")


def _strip(t):
    while isinstance(t, tuple) and t:
        if t[0] in ("some", "cast"):
            t = t[1]
        elif t[0] == "field" and t[2] == "0" and isinstance(t[1], tuple) and t[1] and t[1][0] == "dc":
            t = t[1][1]
        elif t[0] == "call" and parse_callee(t[1])[2] in ("branch", "map_err", "ok_or", "ok_or_else") and t[2]:
            t = t[2][0]
        else:
            return t
    return t


def _same_year(k, pd):
    k, pd = _strip(k), _strip(pd)
    # key = start_year(period)
    if isinstance(k, tuple) and k and k[0] == "call" and k[1].endswith("TaxPeriod::start_year"):
        return _strip(k[2][0]) == pd
    # period = TaxPeriod::new(key)
    if isinstance(pd, tuple) and pd and pd[0] == "call" and pd[1].endswith("TaxPeriod::new"):
        return _strip(pd[2][0]) == k
    return False


def _producer_sig(t):
    if t is None:
        return {"<missing>"}
    out = set()
    for c in calls_in(t):
        st, tr, m = parse_callee(c)
        if "TaxPeriod::" in c:
            continue  # how the year key is obtained is checked separately (same-year rule)
        if c.startswith("cgt_") or (st or "").startswith("cgt_"):
            # only producers of report content count; date/boundary helpers are covered by R1
            if "NaiveDate" in (F_RET.get(c) or "") or "TaxPeriod" in (F_RET.get(c) or ""):
                continue
            # how the year's legs are SELECTED differs between the two paths by design (date filter vs per-year grouping)
            # and is checked by R1/R4; only what is computed FROM them is compared
            if "matcher::MatchResult" in (F_RET.get(c) or "") and "TaxYearSummary" not in (F_RET.get(c) or "") and "Disposal" not in (F_RET.get(c) or ""):
                continue
            out.add(c.split("::", 1)[-1])
        elif m in ("get", "unwrap_or_default", "abs", "sum"):
            out.add(m)
    fs = {x[2] for x in subterms(t) if isinstance(x, tuple) and len(x) == 3 and x[0] == "field" and isinstance(x[2], str) and not x[2].isdigit()}
    out |= {"." + f for f in fs if f in ("income", "tax_paid")}
    if isinstance(t, tuple) and t and t[0] == "+":
        out.add("+/-")
    return out


def witnesses(rep):
    """thorough tier: compile_fail doctests (with compiling `no_run` twins) in /verif/witnesses, against /repo's cgt-core"""
    import os
    import re
    import subprocess
    import core
    wd = os.path.join(core.VERIF, "witnesses")
    env = dict(os.environ, CARGO_TARGET_DIR=os.path.join(core.CACHE, "target-witness"), CARGO_NET_OFFLINE="true")
    r = subprocess.run("cargo +nightly test --doc --offline", shell=True, cwd=wd, env=env, stdout=subprocess.PIPE, stderr=subprocess.STDOUT, text=True)
    out = r.stdout
    fails = re.findall(r"test (src/lib.rs - \(line \d+\) - compile fail) \.\.\. (\w+)", out)
    twins = re.findall(r"test (src/lib.rs - \(line \d+\) - compile) \.\.\. (\w+)", out)
    if len(fails) < 2 or len(twins) < 2:
        raise core.Broken("witness doctests did not run: " + out[-600:])
    for name, res in fails:
        rep.ob("R2-witness", name, res == "ok",
               "does not compile outside cgt_core (private constructor/field), with the expected error code" if res == "ok" else
               "a TaxPeriod can now be built/modified from outside cgt_core without the range check: this witness compiles", "witnesses/src/lib.rs",
               key="R2:witness:" + re.sub(r"\W+", "-", name))
    for name, res in twins:
        rep.ob("R2-witness", name + " (twin)", res == "ok", "compiling twin compiles" if res == "ok" else
               "the compiling twin no longer compiles: the witness above proves nothing", "witnesses/src/lib.rs", key="R2:witness-twin:" + re.sub(r"\W+", "-", name))


def frontend_year_ranges(F, rep):
    """R6 (every Y from 1900 to 2100 at every entry point): a constant range of year-like integers in a front-end crate — an
    argument-parser restriction such as `value_parser!(i32).range(..)`, a validation of a request's `year` — must contain the whole
    supported interval; `1900..2100` is one year short (seeded change C07-s5)."""
    n = 0
    for b in F.bodies.values():
        if b.crate not in ("cgt_tool", "cgt_mcp", "cgt_wasm"):
            continue
        for i, lo, hi, incl, sp in _const_int_ranges(b):
            if not (1000 <= lo <= 3000 and 1000 <= hi <= 3000):
                continue
            n += 1
            last = hi if incl else hi - 1
            ok = lo <= 1900 and last >= 2100
            rep.ob("R6", f"{b.short[-60:]}:{lo}..{'=' if incl else ''}{hi}", ok, f"year range {lo}..={last} contains 1900..=2100" if ok else
                   f"a front-end restricts years to {lo}..={last}: tax years {max(lo, 1900) if lo > 1900 else last + 1}… of the supported 1900–2100 are refused here "
                   "although the library reports them", b.loc(sp), key=f"R6:{b.short[-60:]}:year-range")
    rep.count("frontend_year_ranges", n)


def _const_int_ranges(b):
    if True:
        found = []
        for i, si, s in b.assigns():
            rv = s["rv"]
            if rv["k"] == "agg" and rv.get("adt", "").startswith("core::ops::range::Range") and len(rv["ops"]) == 2:
                ks = [op_const(o) for o in rv["ops"]]
                if all(k is not None and "int" in k for k in ks):
                    found.append((i, int(ks[0]["int"]), int(ks[1]["int"]), "Inclusive" in rv["adt"], s["sp"]))
        for i, t in b.calls():
            if t["callee"].startswith("core::ops::range::RangeInclusive") and t["callee"].endswith("::new") and len(t["args"]) == 2:
                ks = [op_const(a) for a in t["args"]]
                if all(k is not None and "int" in k for k in ks):
                    found.append((i, int(ks[0]["int"]), int(ks[1]["int"]), True, t["sp"]))
        return found


def filing_keys(F, rep):
    """R7 (each leg and each dividend is filed under the tax year of its OWN date): wherever library code files an element into a
    map keyed by the year (`entry` / `insert` on a map whose key type is u16), the key is, on every path, the start year of
    `TaxPeriod::from_date(<a date of the element>)` — directly or through a helper that returns exactly that. A key chosen between
    that and something else (a cached period reused while `date - start < 366 days`, seeded change C07-s7) files some elements under
    a year derived from ANOTHER element's date."""
    from mir import Terms, parse_callee, show, summary
    n = 0

    def strip(t):
        while isinstance(t, tuple) and t:
            if t[0] == "field" or t[0] == "dc":
                t = t[1]
            elif t[0] == "call" and len(t) == 3 and len(t[2]) == 1 and parse_callee(t[1])[2] in ("branch", "start_year", "clone", "unwrap_or_default", "into", "from", "deref"):
                t = t[2][0]
            elif t[0] == "some" and len(t) == 2:
                t = t[1]
            elif t[0] == "inl":
                t = t[2]
            else:
                break
        return t

    def derived(t, depth=0):
        """None if t is the year of from_date(date…), else a reason"""
        t = strip(t)
        if not (isinstance(t, tuple) and t):
            return f"{show(t)[:80]}"
        if t[0] == "phi":
            alts = [a for a in t[1]]
            rs = [derived(a, depth) for a in alts]
            # Try plumbing of one from_date call is a φ of from_residual(..)/new(..) — those carry no competing year
            rs = [r for a, r in zip(alts, rs) if r is not None and not (isinstance(strip(a), tuple) and strip(a)[0] == "call" and parse_callee(strip(a)[1])[2] in ("from_residual",))]
            if rs:
                return "one of several alternatives: " + "; ".join(rs)[:200]
            return None
        if t[0] == "call":
            m = parse_callee(t[1])
            if m[2] == "from_date" and "TaxPeriod" in t[1]:
                a = t[2][0] if t[2] else None
                fs = {x[2] for x in subterms(a) if isinstance(x, tuple) and len(x) == 3 and x[0] == "field"} if a is not None else set()
                if any("date" in f for f in fs) or (isinstance(a, tuple) and a and a[0] == "param"):
                    return None
                return f"from_date({show(a)[:60]}) — not a date of the element"
            if t[1] in F.bodies and depth < 2:
                sm = summary(F, t[1], 1)
                if sm is not None:
                    return derived(sm, depth + 1)
        return f"{show(t)[:100]} is not the year of TaxPeriod::from_date(<element date>)"

    for b in F.bodies.values():
        if b.crate != "cgt_core" or not P.user_written(F, b) or "::models::" in b.id:
            continue
        tb = None
        for i, t in b.calls():
            m = parse_callee(t["callee"])
            aty = t.get("aty") or []
            if m[2] not in ("entry", "insert") or len(aty) < 2 or not re.search(r"Map<u16, ", aty[0]) or len(t["args"]) < 2:
                continue
            if re.search(r"Map<u16, rust_decimal::decimal::Decimal[,>]", aty[0]):
                continue        # a table of per-year constants (the exemptions), not a grouping of dated elements
            tb = tb or Terms(F, b, inline_depth=0)
            k = tb.operand(t["args"][1])
            why = derived(k)
            n += 1
            rep.ob("R7", f"{b.short}:year-key@{i}", why is None, "filed under the start year of TaxPeriod::from_date(its own date)" if why is None else
                   f"`{b.short}` files an element under a year that is {why}: an element can land in a tax year its own date does not belong to",
                   b.loc(t["sp"]), key=f"R7:{b.short}:year-key")
    rep.count("year_keyed_filings", n)
    if n < 2:
        # not a floor: a grouping written without a year-keyed map (a tagged vector partitioned afterwards, refactoring r10) has
        # fewer such sites; the rule judges the filings it finds and says so
        rep.note(f"R7: only {n} filings into a year-keyed map found (legs and dividends are expected to be filed by year; other groupings are not judged)")


def controls(pctx, rep):
    """C07-R6 expects no restricting range on today's tree: the detector must still see one where there is one"""
    try:
        b = pctx.F.one("year_range_short")
        got = [(lo, hi, incl) for _, lo, hi, incl, _ in _const_int_ranges(b)]
        rep.control("R6:year-range", (1900, 2100, False) in got, f"posctl::year_range_short yields constant ranges {got} (expected 1900..2100)")
    except Exception as e:
        rep.control("R6:year-range", False, f"constant-range detector failed on posctl::year_range_short: {e}")


def run(ctx, rep):
    F = ctx.F
    if rep.tier == "thorough" and ctx.root == __import__("core").REPO:
        witnesses(rep)
    n = year_sites(F, rep)
    rep.count("year_boundary_sites", n)
    if n < 3:
        rep.unresolved("R1", "YEARSITE", f"only {n} tax-year boundary sites found (from_date, year filter, accessors expected)")
    ctor_sites(F, rep)
    import rules.c16 as c16
    from core import Report
    r = Report("tmp")
    c16.stated_orders(F, r)
    for o in r.obligations:
        if "tax-years-ascending" in o["instance"]:
            rep.ob("R3", o["instance"], o["ok"], o["detail"], o["site"], key="R3:" + o["instance"])
    provenance(F, rep)
    sibling_builders(F, rep)
    frontend_year_ranges(F, rep)
    filing_keys(F, rep)
    # "every disposal is reported in its tax year": the summary builders never turn a year (or a disposal) they cannot build into
    # an absence — no workspace `Result` is handed to ok/unwrap_or/… and none is flattened away by `flat_map`/`flatten` (Result is
    # IntoIterator). An all-years report that skips the years missing from the exemption table drops their disposals, while the
    # single-year report of the same year is an error: the year report is no longer the all-years slice (shared with C15-R7; seeded
    # change C07-s9)
    import rules.c15 as c15
    c15.errors_not_dropped(F, rep, "R5", scope=lambda b: b.id.startswith("cgt_core::calculator"))
