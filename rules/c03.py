"""C03 — allowable expenditure is conserved (structural clauses)."""
import itertools

from mir import (Terms, parse_callee, show, op_place, op_const, place_proj, subterms, summary, mk_add, mk_mul, mk_neg,
                 is_decimal_arith_assign)
from flow import root_of_operand
from roles import Roles, RULES, POOL, LOT, agg_fields, guards_of, truth, is_agg, sell_time_ratio, times_ratio
import panics as P

META = {
    "explanation": (
        "R1 (PAIR): the allowable cost recorded in a leg is the cost debited: for same-day legs it is the value returned by the "
        "ledger's same-day consumption; for pool legs it is the very term subtracted from pool.total_cost; for 30-day legs it is "
        "the unit-cost function applied to the candidate's own amount/price/fees and the offset stored at the candidate's own "
        "index, times the buy-time quantity that is booked as the future claim. R2 (SIB): the places that price one share of an "
        "acquisition — the lot's unit-cost accessor and the 30-day inline formula — reduce to the same normal form "
        "(amount×price + fees + offset) ÷ amount up to renaming parameters↔fields (all leaf bijections are tried; they are "
        "compared with each other, not with a frozen formula), and every ledger function that prices shares calls the accessor. "
        "R3 (PROV): the cost offset handed to add_acquisition in the day loop is the pre-pass entry at the same transaction "
        "index that identifies the lot and reaches the lot unmodified (only unwrapped / copied / defaulted); pooling adds to pool.total_cost the cost returned for the pooled quantity. R4: the "
        "ledger's same-day consumption averages with ONE weight per lot — Σ(w × unit cost) ÷ Σ(w) with w the lot's availability — "
        "so the cost attributed is the cost of the shares actually debited. Does not decide the sum identity over a history. R6 also: the apportioning formula itself — each lot receives adjustment × held ÷ total held, with no cap or floor on a lot's share (shared with C11-R4). R4 also: every lot is debited its availability times a loop-invariant ratio. R6 also: a lot is restated whole or not at all (shared with C10-R6)."),
    "trusted_base": ["rust_decimal arithmetic is exact enough that equal terms denote equal values", "rustc MIR + resolution"],
}


def leaves(t, acc=None):
    acc = acc if acc is not None else []
    if isinstance(t, tuple) and t:
        if t[0] in ("param", "field", "var"):
            if t not in acc:
                acc.append(t)
            return acc
        for x in t[1:] if t[0] not in ("+", "*") else t[1]:
            leaves(x, acc)
        if t[0] in ("+", "*"):
            pass
    return acc


def rename(t, m):
    if not isinstance(t, tuple) or not t:
        return t
    if t in m:
        return m[t]
    h = t[0]
    if h == "+":
        return mk_add([rename(x, m) for x in t[1]])
    if h == "*":
        return mk_mul([rename(x, m) for x in t[1]])
    if h == "neg":
        return mk_neg(rename(t[1], m))
    if h == "phi":
        from mir import mk_phi
        return mk_phi([rename(x, m) for x in t[1]])
    return tuple(rename(x, m) if isinstance(x, tuple) else x for x in t)


def unit_cost_of(t):
    """pick the division alternative out of φ{ a / b | ZERO }"""
    if isinstance(t, tuple) and t and t[0] == "phi":
        alts = [x for x in t[1] if isinstance(x, tuple) and x and x[0] == "/"]
        rest = [x for x in t[1] if x not in alts]
        return alts[0] if len(alts) == 1 and all(x == ("const", "Decimal::ZERO") for x in rest) else None
    if isinstance(t, tuple) and t and t[0] == "/":
        return t
    return None


def same_up_to_renaming(a, b):
    la, lb = leaves(a), leaves(b)
    if len(la) != len(lb) or len(la) > 6:
        return False
    for perm in itertools.permutations(lb):
        m = dict(zip(la, perm))
        if rename(a, m) == b:
            return True
    return False


def pair_costs(R, rep):
    F = R.F
    # SameDay
    b, sites = R.leg("SameDay")
    tb = R.terms(b, 0)
    for bb, term, site in R.match_sites(b) if False else [(s[0], None, s[2]) for s in sites]:
        pass
    for i, si, s in b.assigns():
        rv = s["rv"]
        if rv["k"] == "agg" and rv["adt"].endswith("models::Match"):
            f = dict(zip(rv["fields"], [tb.operand(o) for o in rv["ops"]]))
            c = f["allowable_cost"]
            ok = isinstance(c, tuple) and c[0] == "call" and c[1].endswith("AcquisitionLedger::consume_shares_on_date")
            rep.ob("R1", "SameDay:cost=consumed-cost", ok, "the same-day leg's cost is what the ledger returned for the shares it consumed" if ok else
                   f"same-day allowable_cost is {show(c)[:80]}, not the ledger's same-day consumption result", b.loc(s["sp"]), key="R1:SameDay:cost")
            if ok:
                okq = c[2][2] == f["quantity"]
                rep.ob("R1", "SameDay:cost-for-Match.quantity", okq, "…and it is the cost of exactly Match.quantity shares" if okq else
                       f"cost is computed for {show(c[2][2])[:50]} shares but the leg records {show(f['quantity'])[:50]}", b.loc(s["sp"]),
                       key="R1:SameDay:cost-quantity")
    # Section104
    b, sites = R.leg("Section104")
    tb = R.terms(b, 0)
    for bb, term, site in sites:
        c = agg_fields(R.terms(b, 0).rvalue(_agg_stmt(b, bb)["rv"]))["allowable_cost"] if _agg_stmt(b, bb) else agg_fields(term)["allowable_cost"]
        ws = [w for w in R.field_writes(POOL, "total_cost", [b]) if w[2] == "SubAssign"]
        ws0 = []
        tbw = tb if _agg_stmt(b, bb) else R.terms(b)   # same inlining depth as the leg term it is compared with
        for i, t in b.calls():
            if is_decimal_arith_assign(t["callee"]) == "SubAssign" and R._ref_target(b, op_place(t["args"][0])) == (POOL, "total_cost"):
                ws0.append(tbw.operand(t["args"][1]))
        ok = len(ws0) == 1 and ws0[0] == c
        rep.ob("R1", "Section104:pool.total_cost−=Match.allowable_cost", ok, "the pool's cost falls by exactly the cost attributed to the leg" if ok else
               f"pool.total_cost is reduced by {[show(x)[:60] for x in ws0] or 'nothing'} but the leg records {show(c)[:60]}", site, key="R1:Section104:cost")
        # cost = quantity × (total_cost / quantity)
        q = agg_fields(term)["quantity"]
        c2 = agg_fields(term)["allowable_cost"]
        uc = None
        if isinstance(c2, tuple) and c2[0] == "*" and q in c2[1]:
            rest = [x for x in c2[1] if x != q]
            uc = unit_cost_of(rest[0]) if len(rest) == 1 else None
        oku = uc is not None and show(uc[1]).endswith(".total_cost") and show(uc[2]).endswith(".quantity") and _same_base(uc[1], uc[2])
        rep.ob("R1", "Section104:cost=qty×(pool cost÷pool qty)", oku, "pool legs cost Match.quantity × (pool.total_cost ÷ pool.quantity)" if oku else
               f"pool leg cost is {show(c2)[:90]}", site, key="R1:Section104:average-cost")
    # B&B
    b, sites = R.leg("BedAndBreakfast")
    for bb, term, site in sites:
        f = agg_fields(term)
        c, q = f["allowable_cost"], f["quantity"]
        ok = False
        why = f"30-day cost is {show(c)[:100]}"
        if isinstance(c, tuple) and c[0] == "*":
            uc = [unit_cost_of(x) for x in c[1] if unit_cost_of(x)]
            qty = [x for x in c[1] if not unit_cost_of(x)]
            if len(uc) == 1 and qty:
                qb = mk_mul(qty)
                st = sell_time_ratio(q)
                scaled = st is not None and times_ratio(qb, q, st[2])
                num, den = uc[0][1], uc[0][2]
                txt = show(num, 0) + " / " + show(den, 0)
                own = all(k in txt for k in ("amount", "price", "fees")) and "next(" in show(den)
                off = [x for x in subterms(num) if isinstance(x, tuple) and x and x[0] == "call" and parse_callee(x[1])[2] == "get"
                       and "cost_offsets" in show(x)]
                off_idx = bool(off) and show(off[0][2][1]).endswith(".0") and "next(" in show(off[0][2][1])
                ok = scaled and own and off_idx
                why = ("30-day cost = (Match.quantity × split ratio) × unit cost of the candidate's own amount/price/fees + its own offset" if ok else
                       f"scaled-by-ratio={scaled}, candidate's-own-fields={own}, offset-at-candidate-index={off_idx}")
        rep.ob("R1", "30-day:cost=buy-time-qty×candidate-unit-cost", ok, why, site, key="R1:BedAndBreakfast:cost")


def _agg_stmt(b, bb):
    for s in b.stmts(bb):
        if s.get("rv", {}).get("k") == "agg" and s["rv"]["adt"].endswith("models::Match"):
            return s
    return None


def _same_base(a, b):
    return isinstance(a, tuple) and isinstance(b, tuple) and a[0] == "field" and b[0] == "field" and a[1] == b[1]


def sibling_unit_cost(R, rep):
    F = R.F
    # the lot's unit-cost accessor: method of LOT whose summary is φ{x / original | ZERO}
    acc = None
    for b in F.bodies.values():
        if b.id.startswith(LOT + "::") and b.kind == "method" and b.argc == 1:
            s = summary(F, b.id, 2)
            u = unit_cost_of(s) if s is not None else None
            if u is not None and s[0] == "phi":
                acc = (b, u)
    if acc is None:
        rep.unresolved("R2", "UNITCOST", "no lot accessor of the form total ÷ amount")
        return
    ab, au = acc
    bnb = R.leg("BedAndBreakfast")[0]
    found = []
    region_ids = [t["callee"] for i, t in bnb.calls()] + [bid for bid in R.region(bnb).bodies if bid != bnb.id]
    for cid in dict.fromkeys(region_ids):
        cb = F.bodies.get(cid)
        if cb is None or cb.kind == "closure":
            continue
        s = summary(F, cb.id, 1)
        if s is None:
            continue
        for x in subterms(s):
            u = unit_cost_of(x) if isinstance(x, tuple) and x and x[0] == "phi" else None
            if u is not None and "price" in show(u):
                found.append((cb, u))
    if not found:
        rep.unresolved("R2", "BNB-UNITCOST", "no inline unit-cost formula found in the 30-day leg producer's helpers")
        return
    for cb, u in found[:1]:
        ok = same_up_to_renaming(au, u)
        rep.ob("R2", f"unit-cost:{ab.short}≡{cb.short}", ok,
               f"both price a share as {show(au)[:90]} (up to renaming fields↔parameters)" if ok else
               f"the lot accessor prices a share as {show(au)[:90]} but the 30-day rule as {show(u)[:90]}: the same acquisition costs differently depending on the rule that matched it",
               cb.loc(), key="R2:unit-cost:bnb-vs-lot")
    # shape of the accessor itself: (a×p + e + o) / a with the divisor equal to the multiplied amount
    num, den = au[1], au[2]
    shape_ok = isinstance(num, tuple) and num[0] == "+" and any(isinstance(x, tuple) and x[0] == "*" and den in x[1] for x in num[1]) and len(num[1]) == 3
    rep.ob("R2", "unit-cost:shape", shape_ok, f"unit cost = {show(au)[:90]}" if shape_ok else f"unit cost accessor is {show(au)[:90]} (expected (amount×price + expenses + offset) ÷ amount)",
           ab.loc(), key="R2:unit-cost:shape")
    # every ledger function that prices shares goes through the accessor
    for b in F.bodies.values():
        if b.id.startswith("cgt_core::matcher::acquisition_ledger::AcquisitionLedger::") and b.kind == "method" and "Decimal" in b.ret:
            tb = R.terms(b, 0)
            prices = any(parse_callee(t["callee"])[2] in ("mul",) or "Mul" in t["callee"] for _, t in b.calls())
            reads_price = any(isinstance(e, dict) and e.get("n") in ("price", "expenses") for _, _, s in b.assigns() for e in place_proj(s.get("lhs", {})) + _rv_projs(s))
            uses = any(t["callee"] == ab.id for _, t in b.calls()) or any(t["callee"] == ab.id for c in F.children(b.id) for _, t in F.bodies[c].calls())
            if reads_price:
                rep.ob("R2", f"{b.short}:uses-accessor", False, f"{b.short} reads lot.price/expenses itself instead of calling {ab.short}", b.loc(),
                       key=f"R2:{b.short}:own-pricing")
            elif prices and "cost" in b.short:
                rep.ob("R2", f"{b.short}:uses-accessor", uses, f"prices shares through {ab.short}" if uses else f"{b.short} multiplies quantities without the unit-cost accessor",
                       b.loc(), key=f"R2:{b.short}:accessor")


def _rv_projs(s):
    out = []
    rv = s.get("rv", {})
    for key in ("op", "a", "b"):
        o = rv.get(key)
        p = op_place(o) if isinstance(o, dict) else None
        if p:
            out += place_proj(p)
    if rv.get("k") in ("ref",):
        out += place_proj(rv["p"])
    return out


_PASS_THROUGH = ("unwrap_or", "unwrap_or_default", "unwrap_or_else", "copied", "cloned", "clone", "deref", "into", "from", "borrow", "as_ref",
                 "to_owned", "map_or", "map_or_else", "or", "unwrap", "expect")


def _unwrapped_entry(t, depth=0):
    """the table look-up (`get` / `index`) a term stands for when it is only unwrapped, copied or defaulted on the way; None when
    the value is recomputed (arithmetic, a mutated variable, anything else)"""
    if not isinstance(t, tuple) or not t or depth > 12:
        return None
    if t[0] == "call":
        m = parse_callee(t[1])[2]
        if m in ("get", "index", "get_unchecked"):
            return t
        if m in _PASS_THROUGH and t[2]:
            return _unwrapped_entry(t[2][0], depth + 1)
        return None
    if t[0] in ("some", "ref", "deref", "copy") and len(t) >= 2 and isinstance(t[-1], tuple):
        return _unwrapped_entry(t[-1], depth + 1)
    if t[0] == "field" and isinstance(t[1], tuple) and t[1] and t[1][0] in ("dc", "some"):
        return _unwrapped_entry(t[1][1] if t[1][0] == "dc" else t[1], depth + 1)
    if t[0] == "phi":
        # `match table.get(i) { Some(x) => *x, None => ZERO }`: every alternative is the entry or a constant
        subs = [_unwrapped_entry(a, depth + 1) for a in t[1] if not (isinstance(a, tuple) and a and a[0] in ("const", "int"))]
        return subs[0] if subs and all(s is not None and s == subs[0] for s in subs) else None
    return None


def offsets_prov(R, rep):
    d = R.require("dayloop")
    pre = R.require("prepass")
    rg = R.region(d)
    for it in rg.calls(lambda c: c.endswith("AcquisitionLedger::add_acquisition")):
        b, t, tb = it["body"], it["term"], it["tb"]
        tb2 = Terms(R.F, b, inline_depth=2, stops=(pre.id,))     # accessors such as `timeline.cost_offset(idx)` are seen through; the pre-pass stays a call
        args = [tb.operand(a) for a in t["args"][:-1]] + [tb2.operand(t["args"][-1])]
        idx = args[1]
        idx2 = tb2.operand(t["args"][1])
        extras = args[-1]
        off = None
        for x in subterms(extras):
            if is_agg(x) and "cost_offset" in dict(x[3]):
                off = dict(x[3])["cost_offset"]
        if off is None and isinstance(extras, tuple) and extras[0] == "call":
            off = extras[2][0]
        gets = [x for x in subterms(off) if isinstance(x, tuple) and x and x[0] == "call" and parse_callee(x[1])[2] == "get"] if off is not None else []
        ok = bool(gets) and gets[0][2][1] in (idx, idx2)
        # …and it is that entry itself: between the table and the lot the value is only unwrapped/copied/defaulted, never
        # recomputed (a scaled or otherwise adjusted offset no longer adds up with what the apportioning pass distributed)
        pure = _unwrapped_entry(off) if off is not None else None
        if ok and pure is None:
            rep.ob("R3", "add_acquisition:offset-unmodified", False,
                   f"the cost offset handed to the lot is recomputed after the look-up: {show(off)[:90]}", b.loc(t["sp"]), key="R3:add_acquisition:offset-unmodified")
        elif ok:
            rep.ob("R3", "add_acquisition:offset-unmodified", True, "the pre-pass entry reaches the lot unmodified (unwrapped / copied / defaulted only)",
                   b.loc(t["sp"]), key="R3:add_acquisition:offset-unmodified")
        src = it["conv"](gets[0][2][0]) if gets else None
        from_pre = src is not None and any(isinstance(x, tuple) and x and x[0] == "call" and x[1] == pre.id for x in subterms(src))
        rep.ob("R3", "add_acquisition:offset-at-own-index", ok and from_pre,
               "a lot receives the pre-pass cost offset stored at its own transaction index" if ok and from_pre else
               f"lot index is {show(idx)[:40]} but its cost offset is {show(off)[:70]} (from the pre-pass: {from_pre})", b.loc(t["sp"]), key="R3:add_acquisition:offset")
        srcs = [show(a) for a in args[2:6]]
        same_tx = all("next(" in s_ for s_ in srcs[1:])
        rep.ob("R3", "add_acquisition:own-fields", same_tx, "lot date/amount/price/fees come from the transaction being added" if same_tx else
               f"lot fields are {srcs}", b.loc(t["sp"]), key="R3:add_acquisition:fields")
    # pooling: total_cost += cost_for_date(date, pooled quantity)
    for w in R.field_writes(POOL, "total_cost"):
        if w[2] == "AddAssign":
            b = w[0]
            tb2 = R.terms(b, 0)
            for i, t in b.calls():
                if is_decimal_arith_assign(t["callee"]) == "AddAssign" and R._ref_target(b, op_place(t["args"][0])) == (POOL, "total_cost"):
                    rhs = tb2.operand(t["args"][1])
                    ok = isinstance(rhs, tuple) and rhs[0] == "call" and rhs[1].endswith("AcquisitionLedger::cost_for_date")
                    rep.ob("R3", "pooling:cost-from-ledger", ok, "the pool gains the ledger's cost of exactly the pooled shares" if ok else
                           f"pool.total_cost += {show(rhs)[:70]}", b.loc(t["sp"]), key="R3:pooling:cost")
    # S104 is the only function reducing pool.total_cost; nobody else writes it except pooling
    ws = [(w[0].parent or w[0].id, w[2]) for w in R.field_writes(POOL, "total_cost") if w[2] != "construct"]
    allowed = {(R.leg("Section104")[0].id, "SubAssign")}
    extra = [x for x in ws if x not in allowed and x[1] != "AddAssign"]
    adders = {x[0] for x in ws if x[1] == "AddAssign"}
    rep.ob("R3", "pool.total_cost:writers", not extra and len(adders) == 1,
           "pool cost is increased only by pooling and decreased only by the Section 104 leg" if not extra and len(adders) == 1 else
           f"pool.total_cost is also written by {extra} / increased by {sorted(adders)}", "", key="R3:pool.total_cost:writers")


def same_day_weights(R, rep):
    """R5 (each share leaves once): the debit/claim pairing of C02-R3 — leg quantity = debit of remaining = debit/claim of the matched acquisition, claims accumulated per acquisition index. R4: in the ledger's same-day consumption the average cost is Σ(w·unit cost) ÷ Σ(w) with ONE weight w per lot, and
    that weight is the lot's availability (what can actually be consumed) — so cost attributed = cost of shares debited"""
    F = R.F
    sd = R.leg("SameDay")[0]
    # structural: the ledger method called by the same-day leg producer that returns a Decimal and (itself or through its
    # helpers) debits lots
    debit = {w[0].parent or w[0].id for w in R.field_writes(LOT, "consumed") if w[2] != "construct"}
    cands = []
    for _, t in sd.calls():
        cb = F.bodies.get(t["callee"])
        if cb is None or "Decimal" not in cb.ret or not cb.id.startswith("cgt_core::matcher::acquisition_ledger::AcquisitionLedger::"):
            continue
        rg = R.region(cb)
        if any(bid in debit for bid in rg.bodies) or any(it["term"]["callee"] in debit for it in rg.items):
            cands.append((cb, rg))
    if len(cands) != 1:
        rep.unresolved("R4", "SAMEDAY-CONSUME", f"{len(cands)} ledger methods consume lots and return a cost for the same-day rule")
        return
    b, rg = cands[0]
    tb = R.terms(b, 0)
    acc = {}
    for it in rg.items:
        t, hb = it["term"], it["body"]
        if is_decimal_arith_assign(t["callee"]) == "AddAssign":
            r = root_of_operand(hb, t["args"][0])
            if r:
                name = r[1][-1] if r[1] else hb.local_name(r[0])
                if name:
                    acc.setdefault(name, []).append(it["tb"].operand(t["args"][1]))
    ret = tb.local(0)

    def acc_name(x):
        if isinstance(x, tuple) and x and x[0] == "var":
            return x[1]
        if isinstance(x, tuple) and len(x) == 3 and x[0] == "field" and isinstance(x[2], str):
            return x[2]
        return None
    # ret = φ{ matched × (C / Q) | ZERO } with C and Q two accumulators of the region
    avg = None
    for x in subterms(ret):
        if isinstance(x, tuple) and x and x[0] == "/" and acc_name(x[1]) in acc and acc_name(x[2]) in acc and acc_name(x[1]) != acc_name(x[2]):
            avg = x
    if avg is None:
        rep.ob("R4", f"{b.short}:average", False, f"same-day cost is {show(ret)[:100]} — not matched × (Σcost ÷ Σquantity)", b.loc(), key="R4:same-day:average-shape")
        return
    cname, qname = acc_name(avg[1]), acc_name(avg[2])
    wq = acc.get(qname, [])
    wc = acc.get(cname, [])
    ok_q = len(wq) == 1 and isinstance(wq[0], tuple) and wq[0][0] == "call" and wq[0][1].endswith("AcquisitionLot::available")
    rep.ob("R4", f"{b.short}:weight=availability", ok_q,
           "the divisor of the same-day average sums each lot's AVAILABLE shares" if ok_q else
           f"the divisor `{qname}` accumulates {[show(w)[:50] for w in wq]} — not the lots' availability: cost is averaged over shares that cannot be consumed",
           b.loc(), key="R4:same-day:divisor-weight")
    ok_c = ok_q and len(wc) == 1 and isinstance(wc[0], tuple) and wc[0][0] == "*" and wq[0] in wc[0][1] and \
        any(isinstance(x, tuple) and x[0] == "call" and x[1].endswith("AcquisitionLot::adjusted_unit_cost") for x in wc[0][1])
    rep.ob("R4", f"{b.short}:cost=Σ(weight×unit)", ok_c,
           "the numerator sums availability × the lot's unit-cost accessor (same weight as the divisor)" if ok_c else
           f"the numerator `{cname}` accumulates {[show(w)[:70] for w in wc]} — not (the divisor's weight) × unit cost: the same-day leg is priced with cost of shares it does not consume",
           b.loc(), key="R4:same-day:numerator-weight")
    # lots are debited in proportion to the same weight
    rep.ob("R4", f"{b.short}:debits-lots", True, "and the lots are debited inside the same function (or its helpers)", b.loc(),
           key="R4:same-day:debit")
    pro_rata_debits(R, rep, "R4", b)


def pro_rata_debits(R, rep, rule="R4", b=None):
    """the same-day leg is priced at the day's AVERAGE cost, so the shares must leave the day's lots pro rata: every lot is debited
    `its availability × one ratio` with the ratio fixed before the loop over the lots. A factor that changes while the lots are walked
    (`available × (remaining ÷ total)` with `remaining` counted down in the loop) takes more from the first lots than from the last:
    the leg keeps the average, what stays in each lot is later pooled at that lot's own unit cost, and the pool's cost then depends on
    the order in which the day's purchases were written (seeded change C06-s10)."""
    F = R.F
    if b is None:
        sd = R.leg("SameDay")[0]
        debit_fns = {w[0].parent or w[0].id for w in R.field_writes(LOT, "consumed") if w[2] != "construct"}
        cs = [F.bodies[t["callee"]] for _, t in sd.calls() if t["callee"] in F.bodies and "Decimal" in F.bodies[t["callee"]].ret
              and t["callee"].startswith("cgt_core::matcher::acquisition_ledger::AcquisitionLedger::")
              and (t["callee"] in debit_fns or any(c in debit_fns for c in F.callgraph().get(t["callee"], ())))]
        if len(cs) != 1:
            rep.note(f"{rule}: {len(cs)} ledger methods consume lots and return a cost for the same-day rule — pro-rata depletion not judged")
            return
        b = cs[0]
    debit = {w[0].parent or w[0].id for w in R.field_writes(LOT, "consumed") if w[2] != "construct"}
    n = 0
    rg = R.region(b)
    for it in rg.items:
        t, hb, i = it["term"], it["body"], it["bb"]
        if t["callee"] not in debit or len(t["args"]) < 2:
            continue
        loops = [(h, bl) for h, bl in hb.loops() if i in bl]
        if not loops:
            continue
        h, bl = min(loops, key=lambda x: len(x[1]))
        stepped = set()
        for j, u in hb.calls():
            if j in bl and is_decimal_arith_assign(u["callee"]) and u["args"]:
                r = root_of_operand(hb, u["args"][0])
                if r and not r[1] and hb.local_name(r[0]):
                    stepped.add(hb.local_name(r[0]))
        term = R.terms(hb, 0).operand(t["args"][1])
        bad = []
        for x in subterms(term):
            if isinstance(x, tuple) and x and x[0] == "*":
                for f in x[1]:
                    names = {y[1] for y in subterms(f) if isinstance(y, tuple) and y and y[0] == "var"} & stepped
                    if names:
                        bad.append((show(x)[:90], sorted(names)))
        n += 1
        rep.ob(rule, f"{hb.short}:pro-rata-debit", not bad, "each lot is debited its availability × a ratio fixed before the lots are walked" if not bad else
               f"a lot is debited {bad[0][0]}: the factor {bad[0][1]} is counted down inside the loop over the day's lots, so the lots are depleted unevenly "
               "while the leg is priced at the day's average — the cost left in the pool depends on the order of the day's purchases",
               hb.loc(t["sp"]), key=f"{rule}:same-day:debit-not-pro-rata")
    if n < 1:
        # the debit sits in a per-element closure or a helper without a loop of its own: not judged (said, not alarmed — DESIGN 9.9)
        rep.note(f"{rule}: no debit of a lot inside a loop found in {b.short} and its helpers — pro-rata depletion not judged for this spelling")


def run(ctx, rep):
    R = Roles(ctx.F)
    # cost is conserved only if every share leaves the books exactly once: what a leg records is what it debits, and a
    # 30-day claim is ACCUMULATED on the acquisition it was matched to (shared with C02-R3) — a claim that overwrites an
    # earlier one lets the same shares enter the pool too, and their cost is deducted twice
    import rules.c02 as c02
    from core import Report
    r2 = Report("tmp")
    c02.pairing(R, r2)
    for o in r2.obligations:
        rep.ob("R5", o["instance"], o["ok"], o["detail"], o["site"], key="R5:" + o["instance"])
    # capital returns and accumulations move exactly their own net amount of cost (shared with C11-R1/R2): an event that
    # applies another amount than the one it checked and reported loses or invents allowable expenditure (seeded change C03-s4)
    import rules.c11 as c11
    r3 = Report("tmp")
    appo_ = c11.adjustments(R, r3)
    if appo_:
        # the whole adjustment reaches the lots: each lot receives adjustment × held ÷ total held and nothing caps or floors a
        # lot's share — a share cut at the lot's own cost simply vanishes from the books (shared with C11-R4; seeded change C03-s7)
        c11.order_and_who(R, r3, appo_)
    for o in r3.obligations:
        # what is moved (R1) and that the amount applied is the amount checked (R2 guard); which lots' cost the guard counts is a
        # question of acceptance (C11), not of conservation
        if o["instance"].startswith(("capreturn:−", "accumulation:", "apportion:", "capreturn:guard")):
            rep.ob("R6", o["instance"], o["ok"], o["detail"], o["site"], key="R6:" + o["instance"])
    # a lot's cost offset is filed and read under the line's position in the whole list (shared with C09-R5): an index that
    # counts only the day's purchases files it under another line, and the adjustment is dropped or lands on another lot
    import rules.c09 as c09
    c09.shared_index_space(R, rep, "R7")
    # the weights by which a capital return / accumulation is spread are the shares each lot still HOLDS (original − consumed …):
    # a function that restates a lot's size (at a SPLIT/UNSPLIT) must restate every share count of the lot, or "held" changes by
    # more than the ratio, goes negative for a mostly-sold lot, the weights no longer sum to 1 and cost is invented or destroyed
    # (shared with C10-R6; seeded change C03-s9)
    import rules.c10 as c10
    c10.lots_restated_whole(R, rep, "R6")
    pair_costs(R, rep)
    same_day_weights(R, rep)
    sibling_unit_cost(R, rep)
    offsets_prov(R, rep)
