"""C04 — report arithmetic is self-consistent (structural clauses)."""
from mir import (mk_field, Terms, parse_callee, show, op_place, op_const, place_proj, subterms, is_decimal_arith_assign, mk_add, mk_neg,
                 mk_mul, summary, expand_closures)
from flow import root_of_operand
from roles import Roles, RULES, POOL, agg_fields, guards_of, truth, is_agg
import panics as P

META = {
    "explanation": (
        "R1 (PAIR): in every leg built by the three leg producers gain_or_loss is exactly (the term stored in proceeds) − (the "
        "term stored in allowable_cost), and proceeds/gross_proceeds are the net and the gross of ONE proceeds computation. "
        "R2: that computation is gross = matched × price, fees = sale fees × (matched ÷ sale quantity), net = gross − fees, with "
        "matched = Match.quantity and price/fees/quantity those of the sale itself. R3: gains and losses are netted per disposal — "
        "the sign tests feeding total_gain/total_loss consume the sum over a disposal's legs, total_loss receives its absolute "
        "value, and every summary sets net_gain = total_gain − total_loss. R4 (SIB): every computation of taxable gain (model "
        "method, wasm) reduces to max(net_gain − exemption, 0); every year-level proceeds total is the sum of the disposals' "
        "gross_proceeds. R5: a disposal's quantity/gross_proceeds/proceeds are sums of its legs' quantity/gross_proceeds/proceeds. "
        "R6: dividend income += total_value and tax += tax_paid, keyed by the tax year of the line's own date. R7: no caller of "
        "the exemption lookup defaults a missing year. R7 also: values merged into Config.exemptions replace the entries already there (an override file wins). R8: the same-day merge adds quantities and fees and sets the price to "
        "(a₁p₁ + a₂p₂) ÷ (a₁ + a₂). Values are not computed; rounding to 10 dp in grouping is reported, not judged. R6 also: every tax-year summary takes its dividend figures from the aggregate filed under the year its own period is built from. R9: no call thins the list of transactions before matching (shared with C02-R10)."),
    "trusted_base": ["rust_decimal arithmetic", "copy propagation + helper summaries preserve values", "rustc MIR + resolution"],
}

ZERO = ("const", "Decimal::ZERO")
DEFAULTING = ("unwrap_or", "unwrap_or_default", "unwrap_or_else", "map_or", "map_or_else", "ok", "or", "or_else")


def nz(t):
    """non-zero alternative of φ{x | ZERO}"""
    if isinstance(t, tuple) and t and t[0] == "phi":
        alts = [x for x in t[1] if x != ZERO]
        if len(alts) == 1:
            return alts[0]
    return t


def leg_arithmetic(R, rep):
    F = R.F
    import mir
    for r in RULES:
        b, _ = R.leg(r)
        tb = R.terms(b, 2)
        found = False
        res = _match_results(R, b, tb)
        if not res:
            # a helper between the producer and the value builder may be too big for the default inlining budget
            old_limits = dict(mir.LIMITS)
            mir.LIMITS.update(blocks=200, size=6000)
            try:
                res = _match_results(R, b, Terms(R.F, b, inline_depth=3))
            finally:
                mir.LIMITS.update(old_limits)
        for i, t, term in res:
            found = True
            f = agg_fields(term)
            md = f.get("match_detail")
            if not is_agg(md):
                continue
            m = agg_fields(md)
            N, G, C, GL, Q = f["proceeds"], f["gross_proceeds"], m["allowable_cost"], m["gain_or_loss"], m["quantity"]
            ok = GL == mk_add([N, mk_neg(C)])
            rep.ob("R1", f"{r}:gain=proceeds−cost", ok, "gain_or_loss is (the recorded net proceeds) − (the recorded allowable cost)" if ok else
                   f"{r}: gain_or_loss is {show(GL)[:90]} but proceeds − allowable_cost is {show(mk_add([N, mk_neg(C)]))[:90]}", t, key=f"R1:{r}:gain")
            g, n = nz(G), nz(N)
            # net = gross − fees_part
            fees_part = None
            if isinstance(n, tuple) and n[0] == "+":
                rest = [x for x in n[1]]
                gi = [x for x in rest if x == g]
                if gi:
                    rest.remove(g)
                    if len(rest) == 1 and isinstance(rest[0], tuple) and rest[0][0] == "neg":
                        fees_part = rest[0][1]
            ok2 = fees_part is not None
            rep.ob("R1", f"{r}:proceeds=gross−fees-of-one-computation", ok2, "net proceeds are that same gross minus apportioned fees" if ok2 else
                   f"{r}: proceeds {show(n)[:80]} is not (gross_proceeds {show(g)[:50]}) − fees", t, key=f"R1:{r}:net-vs-gross")
            # R2 forms
            okg = isinstance(g, tuple) and g[0] == "*" and Q in g[1] and len(g[1]) == 2 and _is_sale_field(R, b, [x for x in g[1] if x != Q][0], "price")
            rep.ob("R2", f"{r}:gross=matched×price", okg, "gross proceeds = Match.quantity × the sale's price" if okg else
                   f"{r}: gross proceeds are {show(g)[:80]}, Match.quantity is {show(Q)[:40]}", t, key=f"R2:{r}:gross")
            okf = False
            whyf = f"fee share is {show(fees_part)[:80]}"
            if isinstance(fees_part, tuple) and fees_part[0] == "*" and len(fees_part[1]) == 2:
                fee = [x for x in fees_part[1] if not (isinstance(x, tuple) and x[0] == "/") and _is_sale_field(R, b, x, "fees")]
                prop = [x for x in fees_part[1] if isinstance(x, tuple) and x[0] == "/"]
                if fee and prop:
                    num, den = prop[0][1], prop[0][2]
                    den_ok = show(den).endswith("as Sell).amount") or _param_is_sale_amount(R, b, den) or _is_sale_field(R, b, den, "amount")
                    okf = num == Q and den_ok
                    whyf = "fees apportioned as sale fees × (Match.quantity ÷ sale quantity)" if okf else \
                        f"fee proportion is {show(num)[:40]} ÷ {show(den)[:40]}"
            rep.ob("R2", f"{r}:fees=sale_fees×matched÷sold", okf, whyf, t, key=f"R2:{r}:fees")
        if not found:
            rep.unresolved("R1", f"{r}:MatchResult", f"no MatchResult built in {b.short}")


def _match_results(R, b, tb):
    out = []
    for i, si, s in b.assigns():
        rv = s["rv"]
        if rv["k"] == "agg" and rv["adt"].endswith("matcher::MatchResult"):
            out.append((i, b.loc(s["sp"]), tb.rvalue(rv)))
    for i, t in b.calls():
        if t["callee"] in R.F.bodies:
            term = tb.call_term(t)
            if is_agg(term, "matcher::MatchResult"):
                out.append((i, b.loc(t["sp"]), term))
            elif not out or True:
                # wrapped (`Option<MatchResult>` from a helper, `Some(..)` / φ): take the leg values inside
                seen = {o[2] for o in out}
                for x in subterms(term):
                    if is_agg(x, "matcher::MatchResult") and x not in seen:
                        seen.add(x)
                        out.append((i, b.loc(t["sp"]), x))
    return out


def _is_sale_field(R, b, term, field, depth=0):
    """term denotes the `field` (amount / price / fees) of the sale being matched: literally `(tx.operation as Sell).field`,
    or a value rooted at parameters of b that every caller fills from the sale (a `SellTerms`-like carrier included)"""
    if show(term).endswith(f"as Sell).{field}"):
        return True
    # a field of a locally built carrier struct that is handed around by `&mut` (`look_ahead.sell_price`): its initial value
    # counts when nothing in the workspace ever assigns that field
    if isinstance(term, tuple) and len(term) == 3 and term[0] == "field" and isinstance(term[1], tuple) and term[1] and term[1][0] == "var" \
            and len(term[1]) > 2 and isinstance(term[1][2], tuple) and term[1][2] and term[1][2][0] == "agg":
        init = term[1][2]
        if not P._field_writes_anywhere(R.F, init[1], term[2]):
            iv = dict(init[3]).get(term[2])
            if iv is not None:
                return _is_sale_field(R, b, iv, field, depth)
    if depth >= 2 or not any(isinstance(x, tuple) and x and x[0] == "param" for x in subterms(term)):
        return False
    from mir import subst
    sites = [(cb, ct) for cb, ci, ct in R.F.call_sites(lambda c, bid=b.id: c == bid)]
    if not sites:
        return False
    for cb, ct in sites:
        args = [R.terms(cb, 2).operand(a) for a in ct["args"]]
        t2 = subst(term, args)
        alts = t2[1] if isinstance(t2, tuple) and t2 and t2[0] == "phi" else (t2,)
        if not all(_is_sale_field(R, cb, a, field, depth + 1) for a in alts):
            return False
    return True


def _param_is_sale_amount(R, b, den):
    """den is a parameter of the leg producer; every call site passes the sale's own amount"""
    if not (isinstance(den, tuple) and den and den[0] == "param"):
        return False
    ok = True
    n = 0
    for cb, i, t in R.F.call_sites(lambda c: c == b.id):
        n += 1
        a = R.terms(cb, 0).operand(t["args"][den[1]])
        ok = ok and show(a).endswith("as Sell).amount")
    return ok and n > 0


def netting(R, rep):
    F = R.F
    tot = [b for b in F.bodies.values() if b.crate == "cgt_core" and b.kind == "fn" and P.user_written(F, b)
           and b.ret.startswith("(rust_decimal::decimal::Decimal, rust_decimal::decimal::Decimal)") and "calculator" in b.id]
    if len(tot) != 1:
        # the totals function is the one that takes the disposals; a `fold` step function has the same return type
        tot = [b for b in tot if any("models::Disposal" in b.local_ty(k + 1) for k in range(b.argc))]
    if len(tot) != 1:
        rep.unresolved("R3", "TOTALS", f"{len(tot)} calculator functions return (Decimal, Decimal)")
        return
    b = tot[0]
    tb = Terms(F, b, inline_depth=1)
    adds = []
    for i, t in b.calls():
        if is_decimal_arith_assign(t["callee"]) == "AddAssign":
            r = root_of_operand(b, t["args"][0])
            adds.append((i, b.local_name(r[0]) if r else None, tb.operand(t["args"][1]), t))
    fold = _fold_accumulations(F, b, tb) if not adds else None
    def is_leg_sum(x):
        x = expand_closures(F, x)
        return isinstance(x, tuple) and x[0] == "call" and parse_callee(x[1])[2] == "sum" and "matches" in show(x, 0) and "gain_or_loss" in show(x, 0)
    if fold is not None:
        # `iter().map(net).fold((0, 0), step)`: the step function's tuple alternatives are the accumulations; component 0 is
        # the first returned total, component 1 the second (the return order is the fold's own tuple)
        adds = [(("fold", k), ("total_gain", "total_loss")[comp], added, {"sp": None}, guards) for k, (comp, added, guards) in enumerate(fold)]
    gain = [a for a in adds if is_leg_sum(a[2])]
    loss = [a for a in adds if isinstance(a[2], tuple) and a[2][0] == "call" and parse_callee(a[2][1])[2] == "abs" and is_leg_sum(a[2][2][0])]
    rep.ob("R3", "totals:gain+=disposal-net", len(gain) == 1, "total_gain accumulates the net result of a whole disposal (sum over its legs)" if len(gain) == 1 else
           f"gain accumulations: {[show(a[2])[:60] for a in adds]} — not the per-disposal sum of leg gains (netting per leg would inflate both totals)",
           b.loc(), key="R3:totals:gain")
    rep.ob("R3", "totals:loss+=|disposal-net|", len(loss) == 1, "total_loss accumulates |net| of a whole disposal" if len(loss) == 1 else
           f"loss accumulation is not abs(per-disposal sum): {[show(a[2])[:60] for a in adds]}", b.loc(), key="R3:totals:loss")
    for a, want_op, nm in ((gain, "Gt", "gain"), (loss, "Lt", "loss")):
        if len(a) != 1:
            continue
        ok = False
        gl = a[0][4] if fold is not None else guards_of(b, tb, a[0][0])
        for cond, val, s in gl:
            if isinstance(cond, tuple) and cond[0] == "cmp" and cond[1] == want_op and cond[3] == ZERO and truth(val) and is_leg_sum(cond[2]):
                ok = True
            # `match net.cmp(&ZERO) { Greater => …, Less => … }`
            if isinstance(cond, tuple) and cond[0] == "discr" and isinstance(cond[1], tuple) and cond[1][0] == "call" \
                    and cond[1][1].endswith("core::cmp::Ord>::cmp") and cond[1][2][1] == ZERO and is_leg_sum(cond[1][2][0]) \
                    and str(val) == ("1" if want_op == "Gt" else "-1"):
                ok = True
        rep.ob("R3", f"totals:{nm}-sign-test-on-disposal-net", ok, f"the {nm} branch tests the sign of the disposal's net result" if ok else
               f"the {nm} accumulation is not guarded by `net {want_op} 0` on the per-disposal sum", b.loc(a[0][3]["sp"]), key=f"R3:totals:{nm}-guard")
    # gain and loss go to different accumulators and are returned in (gain, loss) order
    ret = tb.local(0)
    if gain and loss:
        if fold is not None:
            ok = gain[0][1] == "total_gain" and loss[0][1] == "total_loss"   # gain feeds component 0, loss component 1
        else:
            ok = isinstance(ret, tuple) and ret[0] == "tuple" and show(ret[1][0]).endswith(gain[0][1] or "?") and show(ret[1][1]).endswith(loss[0][1] or "?")
        rep.ob("R3", "totals:returns-(gain,loss)", ok, "returns (total_gain, total_loss) in that order" if ok else f"returns {show(ret)[:60]}", b.loc(),
               key="R3:totals:return-order")
    # every TaxYearSummary: net_gain = total_gain − total_loss from this function
    for sb in F.bodies.values():
        if sb.crate != "cgt_core" or not P.user_written(F, sb):
            continue
        for i, si, s in sb.assigns():
            rv = s["rv"]
            if rv["k"] == "agg" and rv["adt"].endswith("models::TaxYearSummary"):
                stb = Terms(F, sb, inline_depth=0)
                f = {n: stb.operand(o) for n, o in zip(rv["fields"], rv["ops"])}
                ok = f["net_gain"] == mk_add([f["total_gain"], mk_neg(f["total_loss"])])
                g, l = f["total_gain"], f["total_loss"]
                # both totals are the two components of ONE call of the totals function — in this body, or handed in through
                # parameters / a carrier struct by every caller
                src = _from_call(F, sb, g, b.id, "0") and _from_call(F, sb, l, b.id, "1")
                rep.ob("R3", f"{sb.short}:net=gain−loss", ok and src, "net_gain = total_gain − total_loss of the per-disposal totals" if ok and src else
                       f"net_gain is {show(f['net_gain'])[:60]} (totals from calculate_totals: {src})", sb.loc(s["sp"]), key=f"R3:{sb.short}:net-gain")


def _from_call(F, body, term, callee, comp, depth=0):
    """term is component `comp` of a call of `callee` (seen through parameters: every caller must pass such a value)"""
    from mir import subst
    for x in subterms(term):
        if isinstance(x, tuple) and len(x) == 3 and x[0] == "field" and x[2] == comp and isinstance(x[1], tuple) and x[1] and x[1][0] == "call" and x[1][1] == callee:
            return True
    if depth >= 2 or not any(isinstance(x, tuple) and x and x[0] == "param" for x in subterms(term)):
        return False
    sites = list(F.call_sites(lambda cal, sid=body.id: cal == sid))
    if not sites:
        return False
    for cb, ci, ct in sites:
        args = [Terms(F, cb, inline_depth=1, stops=(callee,)).operand(a) for a in ct["args"]]
        if not _from_call(F, cb, subst(term, args), callee, comp, depth + 1):
            return False
    return True


def _fold_accumulations(F, b, tb):
    """b returns `<iter over its Disposal slice>.map(f).fold((ZERO, ZERO), step)`: -> [(component, added term, guards)] in b's
    terms (the mapped element substituted for the step's element parameter), or None when b has another shape"""
    from mir import subst, summary
    ret = tb.local(0)
    if not (isinstance(ret, tuple) and ret and ret[0] == "call" and parse_callee(ret[1])[2] == "fold" and len(ret[2]) == 3):
        return None
    recv, init, step = ret[2]
    if init != ("tuple", (ZERO, ZERO)):
        return None
    sid = step[1] if isinstance(step, tuple) and step and step[0] in ("fn", "closure") else None
    sb = F.bodies.get(sid)
    if sb is None:
        return None
    # the element handed to the step: identity over the slice, or f(element) for `.map(f)`
    elem = ("call", "core::option::Option::Some::0", (("call", "Iterator::next", (recv,)),))
    x = recv
    maps = []
    while isinstance(x, tuple) and x and x[0] == "call" and parse_callee(x[1])[2] in ("map", "iter", "into_iter", "copied", "cloned"):
        if parse_callee(x[1])[2] == "map":
            maps.append(x[2][1])
        x = x[2][0]
    if not (isinstance(x, tuple) and x and x[0] == "param"):
        return None
    el = ("some", ("call", "<core::slice::iter::Iter<'a, T> as core::iter::traits::iterator::Iterator>::next", (("var", "iter", x),)))
    for f in reversed(maps):
        fid = f[1] if isinstance(f, tuple) and f and f[0] in ("fn", "closure") else None
        if fid and f[0] == "fn":
            summ = summary(F, fid, 1)
            el = subst(summ, [el]) if summ is not None else None
        elif fid and f[0] == "closure":
            # a capture-free closure `|disposal| …`: parameter 0 is the (empty) environment, parameter 1 the element
            from mir import closure_summary
            summ = closure_summary(F, fid, 1)
            el = subst(summ, [("tuple", ()), el]) if summ is not None else None
        else:
            el = None
        if el is None:
            return None
    off = 1 if sb.kind == "closure" else 0      # closures take their environment first
    stb = Terms(F, sb, inline_depth=0)
    acc = stb.local(off + 1)
    out = []
    for i, si, s in sb.assigns():
        rv = s["rv"]
        if rv["k"] != "tuple" or len(rv["ops"]) != 2 or place_proj(s["lhs"]) or sb.local_ty(s["lhs"]["l"]) != sb.ret:
            continue
        comps = [stb.operand(o) for o in rv["ops"]]
        for comp in (0, 1):
            t = comps[comp]
            base = mk_field(acc, str(comp))
            if t == base:
                continue
            if isinstance(t, tuple) and t[0] == "+" and base in t[1]:
                rest = [y for y in t[1]]
                rest.remove(base)
                added = mk_add(rest)
                sub = lambda term: subst(term, [acc if k == off else (el if k == off + 1 else ("param", k, "?")) for k in range(off + 2)])
                guards = [(sub(cnd), v, sbk) for cnd, v, sbk in guards_of(sb, stb, i)]
                out.append((comp, sub(added), guards))
            else:
                return None
    return out or None


def taxable_and_proceeds(R, rep):
    F = R.F
    n = 0
    forms = []
    for b in F.bodies.values():
        if not b.crate.startswith("cgt_") or not P.user_written(F, b):
            continue
        tb = None
        for i, t in b.calls():
            st, tr, m = parse_callee(t["callee"])
            if m == "max" and "Decimal" in t["callee"]:
                tb = tb or Terms(F, b, inline_depth=0)
                a0, a1 = tb.operand(t["args"][0]), tb.operand(t["args"][1])
                if "net_gain" in show(a0) or "net_gain" in show(a1):
                    n += 1
                    d = a0 if a1 == ZERO else a1
                    z = a1 if a1 == ZERO else a0
                    ok = z == ZERO and isinstance(d, tuple) and d[0] == "+" and len(d[1]) == 2 and \
                        any(show(x).endswith("net_gain") for x in d[1]) and any(isinstance(x, tuple) and x[0] == "neg" for x in d[1])
                    sub = [x[1] for x in d[1] if isinstance(x, tuple) and x[0] == "neg"] if isinstance(d, tuple) and d[0] == "+" else []
                    ex_ok = bool(sub) and ("exempt" in show(sub[0]) or (isinstance(sub[0], tuple) and sub[0][0] == "param"))
                    rep.ob("R4", f"{b.short}:taxable=max(net−exemption,0)", ok and ex_ok, "taxable gain = max(net_gain − exemption, 0)" if ok and ex_ok else
                           f"taxable gain computed as max({show(a0)[:50]}, {show(a1)[:30]})", b.loc(t["sp"]), key=f"R4:{b.short}:taxable")
    if n < 2:
        rep.unresolved("R4", "taxable-sites", f"{n} computations of taxable gain found (model method and wasm expected)")
    # callers of the model method pass the same summary's exempt_amount
    for cb, i, t in F.call_sites(lambda c: c.endswith("TaxYearSummary::taxable_gain")):
        if not P.user_written(F, cb):
            continue
        ctb = Terms(F, cb, inline_depth=0)
        s0, ex = ctb.operand(t["args"][0]), ctb.operand(t["args"][1])
        ok = ex == ("field", s0, "exempt_amount")
        rep.ob("R4", f"{cb.short}:taxable(exempt_amount-of-same-year)", ok, "taxable gain uses the exemption stored in the same year summary" if ok else
               f"taxable_gain called with {show(ex)[:50]}", cb.loc(t["sp"]), key=f"R4:{cb.short}:taxable-arg")
    # year-level proceeds = Σ disposals' gross_proceeds
    m = 0
    for b in F.bodies.values():
        if not b.crate.startswith("cgt_") or not P.user_written(F, b):
            continue
        for i, t in b.calls():
            if parse_callee(t["callee"])[2] == "sum" and "Decimal" in " ".join(t.get("gargs") or []):
                tb = Terms(F, b, inline_depth=0)
                term = expand_closures(F, tb.call_term(t))
                txt = show(term, 0)
                if "disposals" in txt and "matches" not in txt:
                    m += 1
                    ok = "gross_proceeds" in txt
                    rep.ob("R4", f"{b.short}:year-proceeds=Σgross", ok, "year proceeds total sums the disposals' gross proceeds (SA108 box 21)" if ok else
                           f"a per-year total over disposals sums {txt[-60:]}", b.loc(t["sp"]), key=f"R4:{b.short}:year-proceeds")
    if m < 2:
        rep.unresolved("R4", "proceeds-sites", f"{m} year-level proceeds totals found")


def grouping_fields(R, rep):
    F = R.F
    n = 0
    for b in F.bodies.values():
        if b.crate != "cgt_core" or not P.user_written(F, b):
            continue
        for i, si, s in b.assigns():
            rv = s["rv"]
            if rv["k"] == "agg" and rv["adt"].endswith("models::Disposal"):
                n += 1
                tb = Terms(F, b, inline_depth=1)    # generic helpers such as `sum_over(&legs, |m| m.x)` are seen through
                f = {k: expand_closures(F, tb.operand(o)) for k, o in zip(rv["fields"], rv["ops"])}
                for name, leg_field in (("quantity", "quantity"), ("gross_proceeds", "gross_proceeds"), ("proceeds", "proceeds")):
                    t = f[name]
                    sums = [x for x in subterms(t) if isinstance(x, tuple) and x and x[0] == "call" and parse_callee(x[1])[2] == "sum"]
                    ok = len(sums) == 1 and _closure_reads(sums[0], leg_field, exclusive=("gross_proceeds", "proceeds", "quantity", "allowable_cost", "gain_or_loss"))
                    rounded = [x for x in subterms(t) if isinstance(x, tuple) and x and x[0] == "call" and parse_callee(x[1])[2].startswith("round")]
                    rep.ob("R5", f"Disposal.{name}=Σlegs.{leg_field}", ok, f"sum of the legs' {leg_field}" + (f" (rounded: {show(rounded[0][2][1]) if rounded and len(rounded[0][2]) > 1 else ''} dp)" if rounded else "") if ok else
                           f"Disposal.{name} is {show(t)[:90]}", b.loc(s["sp"]), key=f"R5:Disposal.{name}")
                # legs are the matches of the same group
                mt = show(f["matches"], 0)
                rep.ob("R5", "Disposal.matches=group-legs", "match_detail" in mt, "matches are the group's own legs" if "match_detail" in mt else f"matches = {mt[:60]}",
                       b.loc(s["sp"]), key="R5:Disposal.matches")
    if n != 1:
        rep.unresolved("R5", "Disposal-ctor", f"{n} constructions of Disposal in cgt_core")


def _closure_reads(sum_term, field, exclusive):
    reads = {x[2] for x in subterms(sum_term) if isinstance(x, tuple) and len(x) == 3 and x[0] == "field" and x[2] in exclusive}
    return reads == {field}


def dividends(R, rep):
    F = R.F
    bs = [b for b in F.bodies.values() if b.crate == "cgt_core" and P.user_written(F, b) and b.kind == "fn" and "DividendAggregate" in b.ret]
    if len(bs) != 1:
        rep.unresolved("R6", "DIVAGG", f"{len(bs)} functions return dividend aggregates")
        return
    b = bs[0]
    tb = Terms(F, b, inline_depth=0)
    seen = {}
    for i, t in b.calls():
        if is_decimal_arith_assign(t["callee"]) == "AddAssign":
            tgt = R._ref_target(b, op_place(t["args"][0]))
            rhs = tb.operand(t["args"][1])
            seen[tgt[1] if tgt else "?"] = (rhs, t)
    for fld, src in (("income", "total_value"), ("tax_paid", "tax_paid")):
        rhs = seen.get(fld, (None, None))[0]
        ok = rhs is not None and show(rhs).endswith(f"as Dividend).{src}")
        rep.ob("R6", f"dividends:{fld}+={src}", ok, f"{fld} accumulates the line's {src}" if ok else f"{fld} += {show(rhs)[:60]}", b.loc(), key=f"R6:dividends:{fld}")
    for i, t in b.calls():
        if parse_callee(t["callee"])[2] == "entry" and "HashMap" in t["callee"]:
            k = tb.operand(t["args"][1])
            ok = any(isinstance(x, tuple) and x and x[0] == "call" and x[1].endswith("TaxPeriod::from_date") and show(x[2][0]).endswith(".date") for x in subterms(k)) \
                and any(isinstance(x, tuple) and x and x[0] == "call" and x[1].endswith("TaxPeriod::start_year") for x in subterms(k))
            rep.ob("R6", "dividends:keyed-by-own-tax-year", ok, "a dividend is booked to the tax year of its own date" if ok else
                   f"dividend aggregate keyed by {show(k)[:70]}", b.loc(t["sp"]), key="R6:dividends:key")
    # only Dividend lines are aggregated
    vs = set()
    for i, si, s in b.assigns():
        for pl in [s.get("lhs")] + [op_place(s["rv"].get("op")) if isinstance(s["rv"].get("op"), dict) else None]:
            if pl:
                for e in place_proj(pl):
                    if isinstance(e, dict) and e.get("adt") == "cgt_core::models::Operation" and "v" in e:
                        vs.add(e["v"])
    rep.ob("R6", "dividends:only-Dividend-lines", vs <= {"Dividend"}, "only DIVIDEND lines feed the dividend totals" if vs <= {"Dividend"} else
           f"dividend totals also read {sorted(vs - {'Dividend'})}", b.loc(), key="R6:dividends:variants")


def summary_reads_own_year(R, rep, rule="R6"):
    """every tax-year summary takes its dividend figures from the aggregate filed under ITS OWN tax year: in each function that builds a
    `TaxYearSummary` (helpers and carriers followed back to the caller's terms; a local closure's parameters replaced by the arguments of each
    of its call sites) the key of the look-up that feeds `dividend_income` / `dividend_tax_paid` names the same year as the summary's `period`
    — it is the value `period` is built from, or `period.start_year()`. A streaming rewrite that closes year Y when the first leg of year Z
    arrives and hands over Z's dividends gives Y the figures of a later year — and which one depends on whether later disposals exist
    (seeded change C12-s8)."""
    F = R.F
    SUM = "cgt_core::models::TaxYearSummary"
    cands = [b for b in F.bodies.values() if b.crate == "cgt_core" and b.kind in ("fn", "method") and "TaxYearSummary" in b.ret and P.user_written(F, b)]
    called = set()
    for b in cands:
        for i, t in b.calls():
            if t["callee"] != b.id:
                called.add(t["callee"])
    for cb in F.bodies.values():
        if cb.kind == "closure" and cb.parent in {b.id for b in cands}:
            for i, t in cb.calls():
                called.add(t["callee"])
    roots = [b for b in cands if b.id not in called] or cands
    count = [0]

    def strip(t):
        while isinstance(t, tuple) and t and t[0] in ("ref", "deref", "copied", "some") and len(t) > 1 and isinstance(t[1], tuple):
            t = t[1]
        return t

    def call_site_substitutions(terms):
        """[(substitution, tag)]: identity, or one substitution per call site of the local closure whose parameters occur in `terms`"""
        cps = {x[1] for t0 in terms for x in subterms(t0) if isinstance(x, tuple) and x and x[0] == "cparam"}
        if len(cps) != 1:
            return [(lambda t: t, "")]
        cid = next(iter(cps))
        pb = F.bodies.get(F.bodies[cid].parent) if cid in F.bodies else None
        if pb is None:
            return [(lambda t: t, "")]
        ptb = R.terms(pb, 0)
        out = []
        for j, u in pb.calls():
            # the driver resolves `Fn::call(&closure, (args,))` to the closure body itself
            direct = u["callee"] == cid
            via_trait = parse_callee(u["callee"])[2] in ("call", "call_mut", "call_once") and cid in " ".join(u.get("aty") or [])
            if not (direct or via_trait) or len(u["args"]) != 2:
                continue
            at = ptb.operand(u["args"][1])
            if not (isinstance(at, tuple) and at and at[0] == "tuple"):
                continue
            argl = list(at[1])

            def make_sub(argl):
                def sub(t):
                    if isinstance(t, tuple):
                        if t and t[0] == "cparam" and t[1] == cid and isinstance(t[2], int) and 1 <= t[2] <= len(argl):
                            return argl[t[2] - 1]
                        return tuple(sub(x) for x in t)
                    if isinstance(t, list):
                        return [sub(x) for x in t]
                    return t
                return sub
            out.append((make_sub(argl), "@call:" + pb.loc(u["sp"]).rsplit(":", 2)[-2]))
        return out or [(lambda t: t, "")]

    def judge(b, hb, st, name, per, dv, tag):
        count[0] += 1
        per_sub = list(subterms(per))
        gets = [x for x in subterms(dv) if isinstance(x, tuple) and x and x[0] == "call" and parse_callee(x[1])[2] == "get"
                and ("HashMap" in x[1] or "BTreeMap" in x[1]) and len(x[2]) == 2]
        ok, why = False, f"`{name}` is {show(dv)[:90]}: not traceable to a look-up of the dividend aggregates"
        if isinstance(dv, tuple) and dv and dv[0] == "const":
            why = f"`{name}` is a constant: the year's dividends are not read"
        for g in gets:
            k = strip(g[2][1])
            # the year the period is built from: the argument of `TaxPeriod::new(..)` where the period is constructed from a year —
            # not just any value occurring in the period's term (a closure capture of another year also occurs there)
            news = [x for x in per_sub if isinstance(x, tuple) and x and x[0] == "call" and x[1].endswith("TaxPeriod::new") and x[2]]
            if news:
                same = any(k == strip(x[2][0]) for x in news)
            else:
                same = any(k == x for x in per_sub)
            if not same and isinstance(k, tuple) and k and k[0] == "call" and parse_callee(k[1])[2] == "start_year" and k[2]:
                # `aggregates.get(&period.start_year())` with that very period
                same = strip(k[2][0]) == strip(per)
            ok = same
            why = (f"`{name}` is read under the year the summary's own period is built from" if same else
                   f"`{name}` is read under {show(k)[:60]} but the summary's period is built from {show(per)[:70]}: the summary of one tax year carries "
                   "another year's dividends")
        rep.ob(rule, f"{b.short}:{name}:own-year{tag}", ok, why, hb.loc(st["sp"]), key=f"{rule}:{b.short}:{name}:own-year")

    for b in roots:
        rg = R.region(b)
        for ex in rg.expansions:
            hb = ex["body"]
            for i, si, st in hb.assigns():
                rv = st["rv"]
                if rv["k"] != "agg" or rv["adt"] != SUM:
                    continue
                f = rv["fields"]
                names = [nm for nm in ("dividend_income", "dividend_tax_paid") if nm in f]
                per0 = ex["conv"](ex["tb"].operand(rv["ops"][f.index("period")]))
                dvs = {nm: ex["conv"](ex["tb"].operand(rv["ops"][f.index(nm)])) for nm in names}
                for vsub, tag in call_site_substitutions([per0] + list(dvs.values())):
                    for nm in names:
                        judge(b, hb, st, nm, vsub(per0), vsub(dvs[nm]), tag)
    if not count[0]:
        rep.unresolved(rule, "summary-dividends", "no construction of a TaxYearSummary with dividend fields found")


def exemption(R, rep):
    F = R.F
    n = 0
    for b, i, t in F.call_sites(lambda c: c.endswith("Config::get_exemption")):
        if not P.user_written(F, b):
            continue
        n += 1
        res = t["dest"]["l"]
        users = []
        for j, u in b.calls():
            if any((op_place(a) or {}).get("l") == res for a in u["args"]):
                users.append(parse_callee(u["callee"])[2])
        ok = users == ["branch"]
        rep.ob("R7", f"{b.short}:exemption-propagates", ok, "a missing exemption year is propagated with `?`" if ok else
               f"the exemption lookup result is consumed by {users}: an unconfigured year could be treated as 0", b.loc(t["sp"]),
               key=f"R7:{b.short}:exemption-default")
    if n < 1:
        rep.unresolved("R7", "exemption-callers", f"{n} callers of Config::get_exemption")
    # every tax-year summary takes its exemption from that lookup for the summary's own period
    m = 0
    for sb in F.bodies.values():
        if sb.crate != "cgt_core" or not P.user_written(F, sb):
            continue
        for i, si, s in sb.assigns():
            rv = s["rv"]
            if rv["k"] == "agg" and rv["adt"].endswith("models::TaxYearSummary"):
                m += 1
                stb = Terms(F, sb, inline_depth=0)
                f = {nm: stb.operand(o) for nm, o in zip(rv["fields"], rv["ops"])}
                calls = [x for x in subterms(f["exempt_amount"]) if isinstance(x, tuple) and x and x[0] == "call" and x[1].endswith("Config::get_exemption")]
                ok = len(calls) == 1
                rep.ob("R7", f"{sb.short}:summary-exemption-from-config", ok, "the summary's exempt_amount is the configuration lookup's result" if ok else
                       f"exempt_amount is {show(f['exempt_amount'])[:70]}", sb.loc(s["sp"]), key=f"R7:{sb.short}:exemption-source")
    if m < 1:
        rep.unresolved("R7", "summary-builders", "no construction of TaxYearSummary found")
    for b in F.bodies.values():
        if b.id.endswith("Config::get_exemption"):
            tb = Terms(F, b, inline_depth=0)
            r = tb.local(0)
            has_ok_or = any(isinstance(x, tuple) and x and x[0] == "call" and parse_callee(x[1])[2] in ("ok_or", "ok_or_else") for x in subterms(r))
            alts = r[1] if isinstance(r, tuple) and r and r[0] == "phi" else (r,)
            errs = [a for a in alts if isinstance(a, tuple) and a and a[0] == "agg" and a[2] == "Err"]
            oks = [a for a in alts if isinstance(a, tuple) and a and a[0] == "agg" and a[2] == "Ok"]
            none_is_err = bool(errs) and bool(oks) and len(errs) + len(oks) == len(alts) and all(
                any(isinstance(x, tuple) and x and x[0] == "call" and parse_callee(x[1])[2] == "get" for x in subterms(a)) for a in oks)
            ok = (has_ok_or or none_is_err) and \
                not any(isinstance(x, tuple) and x and x[0] == "call" and parse_callee(x[1])[2] in DEFAULTING for x in subterms(r))
            rep.ob("R7", "get_exemption:ok_or", ok, "an unknown year is an error inside the lookup" if ok else f"lookup returns {show(r)[:60]}", b.loc(),
                   key="R7:get_exemption:shape")


def override_precedence(R, rep):
    """R7 (the configured amount): a value from an override file replaces the embedded one. Wherever library code outside the
    parser of one file writes into a Config's exemptions table, the write must be of the overriding kind (`extend`, `insert`);
    `entry(k).or_insert(v)` keeps the embedded amount and silently ignores the user's configuration for that year."""
    F = R.F
    n = 0
    for b in F.bodies.values():
        if b.crate != "cgt_core" or not P.user_written(F, b):
            continue
        tb = None
        for i, t in b.calls():
            m = parse_callee(t["callee"])[2]
            if m not in ("extend", "insert", "or_insert", "or_insert_with", "or_insert_with_key", "try_insert", "entry") or not t["args"]:
                continue
            tb = tb or Terms(F, b, inline_depth=0)
            recv = tb.operand(t["args"][0])
            on_table = any(isinstance(x, tuple) and len(x) == 3 and x[0] == "field" and x[2] == "exemptions" for x in subterms(recv))
            if not on_table:
                continue
            if m == "entry":
                continue      # judged at the or_insert that consumes it
            n += 1
            ok = m in ("extend", "insert")
            rep.ob("R7", f"{b.short}:override-replaces:{m}", ok,
                   "values merged into the exemptions table replace the entries already there" if ok else
                   f"`{m}` keeps the entry already in the exemptions table: an override file cannot change an embedded year's exemption",
                   b.loc(t["sp"]), key=f"R7:{b.short}:override-precedence")
    if n < 1:
        rep.unresolved("R7", "override-merge", "no merge into Config.exemptions found (override files are expected to be merged over the embedded table)")


def merge_values(R, rep):
    c = R.require("canon")
    tb = R.terms(c, 0)
    # per merge arm (Buy/Buy, Sell/Sell): amount += next.amount ; fees += next.fees ; price = total / amount
    adds = [(i, t, tb.operand(t["args"][1])) for i, t in c.calls() if is_decimal_arith_assign(t["callee"]) == "AddAssign"]
    by_variant = {}
    for i, t, rhs in adds:
        v = [x[2] for x in subterms(rhs) if isinstance(x, tuple) and len(x) == 3 and x[0] == "dc"]
        fld = [x[2] for x in subterms(rhs) if isinstance(x, tuple) and len(x) == 3 and x[0] == "field" and isinstance(x[2], str) and x[2] in ("amount", "fees", "price")]
        tgt = R._ref_target(c, op_place(t["args"][0]))
        by_variant.setdefault(v[0] if v else "?", []).append((fld[0] if fld else "?", tgt, c.loc(t["sp"])))
    for v in ("Buy", "Sell"):
        got = by_variant.get(v, [])
        flds = sorted(f for f, _, _ in got)
        ok = flds == ["amount", "fees"] and all(tg and tg[1] == f for f, tg, _ in got)
        rep.ob("R8", f"merge:{v}:amount+=,fees+=", ok, f"merging two {v.upper()} fills adds quantities and fees" if ok else
               f"{v} merge accumulates {[(f, tg[1] if tg else None) for f, tg, _ in got]}", got[0][2] if got else c.loc(), key=f"R8:merge:{v}:sums")
    # price assignment
    n = 0
    for i, si, s in c.assigns():
        lf = None
        for e in reversed(place_proj(s["lhs"])):
            if isinstance(e, dict) and "n" in e:
                lf = e
                break
        if s["lhs"].get("p") and place_proj(s["lhs"])[0] == "deref" and s["rv"]["k"] == "use":
            val = tb.operand(s["rv"]["op"])
            if isinstance(val, tuple) and val[0] == "/" and isinstance(val[1], tuple) and val[1][0] == "+" and len(val[1][1]) == 2:
                n += 1
                prods = val[1][1]
                okp = all(isinstance(p, tuple) and p[0] == "*" and len(p[1]) == 2 for p in prods)
                # divisor is the (already updated) merged amount reference = same place that received +=
                den = val[2]
                # divisor: the accumulated (current) amount, not the incoming fill's
                okd = isinstance(den, tuple) and show(den).endswith(".amount") and "next(" not in show(den) and \
                    any(isinstance(x, tuple) and x and x[0] == "var" for x in subterms(den))
                rep.ob("R8", f"merge:price@{c.loc(s['sp']).rsplit(':', 2)[-2]}", okp and okd, "merged price = (a₁p₁ + a₂p₂) ÷ merged quantity" if okp and okd else
                       f"merged price is {show(val)[:90]}", c.loc(s["sp"]), key="R8:merge:price")
    if n < 2:
        rep.unresolved("R8", "merge-price", f"{n} weighted-average price assignments found (Buy and Sell expected)")


def run(ctx, rep):
    R = Roles(ctx.F)
    leg_arithmetic(R, rep)
    netting(R, rep)
    taxable_and_proceeds(R, rep)
    grouping_fields(R, rep)
    # a disposal is ALL legs of one (date, security): the grouping key (shared with C06-R3)
    import rules.c06 as c06
    from core import Report
    r2 = Report("tmp")
    c06.grouping(R, r2)
    for o in r2.obligations:
        if o["instance"].startswith("group:key"):
            rep.ob("R5", o["instance"], o["ok"], o["detail"], o["site"], key="R5:" + o["instance"])
    for v in r2.violations:
        if v["instance"] == "GROUP":
            rep.ob("R5", "group:function", False, v["detail"], v["site"], key="R5:group:function")
    dividends(R, rep)
    summary_reads_own_year(R, rep, "R6")
    exemption(R, rep)
    override_precedence(R, rep)
    merge_values(R, rep)
    # "a disposal's quantity and proceeds equal the day's sales": every sale line reaches the matcher — nothing thins the list of
    # transactions (shared with C02-R10); `dedup()` after the sort drops the second of two identical fills, the disposal then shows
    # 15 shares where 25 were sold (seeded change C04-s8)
    import rules.c02 as c02
    c02.every_line_counts(R, rep, "R9")
