"""C08 — FX at the HMRC rate of the line's own month, or fail (structural clauses)."""
from mir import Terms, parse_callee, show, op_place, op_const, place_proj, subterms, calls_in
from flow import root_of_operand, body_is_external
import panics as P

META = {
    "explanation": (
        "R1 (field-wise conversion): the function that turns Operation<CurrencyAmount> into Operation<Decimal> matches "
        "exhaustively; for every variant, every money-typed field (type parameter M in the ADT) reaches the same-named field "
        "of the same output variant through the converter called with that same input field, the transaction's date parameter "
        "and the cache parameter; quantities and ratios are copied unchanged. R2: the cache lookup receives the amount's own "
        "currency and year()/month() of the date parameter, and the cache builds its key from those parameters in that order. "
        "R3: the converted value is amount ÷ rate (orientation). R4: a GBP amount is returned untouched. R5: the Option from "
        "the lookup and the Option<&FxCache> are consumed only by ok_or-style conversion to Err carrying the currency code and "
        "the date's year/month; nothing defaults. R6 (loader): bundled entries are inserted before folder entries; every "
        "in-workspace call of the rates parser passes Some(expected period) derived from the file name; insertion is keyed by "
        "the entry's own key; RateKey derives Eq and Hash with no manual impl. R7 (rates parser): pushing an entry is dominated "
        "by the period check (year and month) and by the `rate <= 0 → Err` guard. R8 (wiring): every front-end passes Some(cache); "
        "the CLI builds the cache from the folder exactly when --fx-folder is given. Does not compare with a pre-converted ledger. R8: the front-end's folder scan hands every .xml file to the loader (only iteration, error propagation and the extension test guard the construction of a RateFile). R6 also: what the loader parsed from a supplied file enters the cache under nothing but the iteration and error propagation (and the extension test of the bundled directory); any further condition on the insertion is reported. R9: where cgt-money looks a currency code up in the ISO table (rates parser, cache, loader) the code is case-folded first, so a supplied rate is never skipped for its spelling. R9 also: the DSL consumers build GBP for every amount written without a code, also for a FEES/TAX amount after a foreign-currency price (shared with C13-R6)."),
    "trusted_base": ["HashMap::insert replaces the value of an equal key; derived Eq/Hash compare all fields",
                     "chrono Datelike::year/month", "rustc MIR + resolution"],
}

DEFAULTING = ("unwrap_or", "unwrap_or_default", "unwrap_or_else", "map_or", "map_or_else", "or", "or_else", "unwrap_or_else")


def _strip(t):
    """value inside Ok-branch wrappers: (branch(x) as Continue).0 -> x ; some(x) -> x"""
    while isinstance(t, tuple) and t:
        if t[0] == "field" and t[2] == "0" and isinstance(t[1], tuple) and t[1] and t[1][0] == "dc" and t[1][2] in ("Continue", "Ok", "Some"):
            inner = t[1][1]
            if isinstance(inner, tuple) and inner and inner[0] == "call" and parse_callee(inner[1])[2] == "branch":
                t = inner[2][0]
            else:
                t = inner
        elif t[0] == "some":
            t = t[1]
        else:
            return t
    return t


def money_fields(F):
    a = F.adts.get("cgt_core::models::Operation")
    out = {}
    if a:
        for v in a["variants"]:
            out[v["name"]] = {f["name"]: (f["ty"] == "M") for f in v["fields"]}
    return out


def field_wise(F, rep):
    """Decided from the transaction-level entry (`Transaction → Result<GbpTransaction>`) with helpers, closures and generic
    mappers inlined (depth 3): whatever the decomposition, the GBP transaction's operation must be, variant by variant, the
    same-named field converted with the transaction's own date and the cache parameter (money fields) or copied (others)."""
    from panics import reachable
    ents = [b for b in F.bodies.values() if b.crate == "cgt_core" and b.kind == "method" and P.user_written(F, b) and b.argc >= 2
            and "Result<cgt_core::models::Transaction<rust_decimal::decimal::Decimal>" in b.ret.replace("GbpTransaction", "Transaction<rust_decimal::decimal::Decimal>")
            and "models::Transaction" in b.local_ty(1) and any("FxCache" in b.local_ty(k + 1) for k in range(b.argc))]
    if len(ents) != 1:
        ents = [b for b in F.bodies.values() if b.crate == "cgt_core" and b.kind == "method" and P.user_written(F, b) and b.argc >= 2
                and "models::Transaction" in b.local_ty(1) and any("FxCache" in b.local_ty(k + 1) for k in range(b.argc))
                and "Transaction" in b.ret and "Result" in b.ret]
    if len(ents) != 1:
        rep.unresolved("R1", "OPCONV", f"{len(ents)} methods Transaction → Result<GbpTransaction>")
        return None
    b = ents[0]
    import mir
    old_limits = dict(mir.LIMITS)
    mir.LIMITS.update(blocks=600, size=20000)     # the per-variant dispatcher is one big function
    # inlining stops at the amount converter(s): cgt_core functions taking a CurrencyAmount and returning Result<Decimal, _>
    stops = tuple(x.id for x in F.bodies.values() if x.crate == "cgt_core" and x.kind in ("fn", "method") and P.user_written(F, x)
                  and "Result<rust_decimal::decimal::Decimal" in x.ret and any("CurrencyAmount" in x.local_ty(k + 1) and "Operation" not in x.local_ty(k + 1) for k in range(x.argc)))
    try:
        tb = Terms(F, b, inline_depth=4, stops=stops)
        ret = tb.local(0)
    finally:
        mir.LIMITS.update(old_limits)
    mf = money_fields(F)
    self_p = ("param", 0, b.local_name(1))
    cache_param = next((("param", k, b.local_name(k + 1)) for k in range(b.argc) if "FxCache" in b.local_ty(k + 1)), None)
    own_date = ("field", self_p, "date")
    # exhaustive switch on the operation somewhere below the entry
    exh = False
    reach, _ = reachable(F, [b.id])
    for rid in reach:
        hb = F.bodies[rid]
        if hb.crate != "cgt_core" or not P.user_written(F, hb):
            continue
        for i, t in hb.terms_of_kind("switch"):
            if len(t["targets"]) == len(mf) and hb.term(t["otherwise"])["k"] == "unreachable":
                exh = True
    rep.ob("R1", "to_gbp:exhaustive", exh, "every Operation variant has its own conversion arm" if exh else
           "the conversion match has a default arm or misses variants", b.loc(), key="R1:to_gbp:exhaustive")
    gbp = [x for x in subterms(ret) if isinstance(x, tuple) and x and x[0] == "agg" and "Transaction" in x[1] and "operation" in dict(x[3])]
    if not gbp:
        rep.unresolved("R1", "GBPTX", "the entry does not build the GBP transaction visibly (depth 3)")
        return None
    f = dict(gbp[0][3])
    okd = f.get("date") == own_date
    rep.ob("R1", f"{b.short}:own-date", okd, "the GBP transaction keeps the transaction's own date" if okd else
           f"GBP transaction date is {show(f.get('date'))[:40]}", b.loc(), key=f"R1:{b.short}:own-date")
    seen = set()
    conv_fn = None
    for agg in [x for x in subterms(f["operation"]) if isinstance(x, tuple) and x and x[0] == "agg" and x[1] == "cgt_core::models::Operation"]:
        v = agg[2]
        if v in seen:
            continue
        seen.add(v)
        src_of = lambda fname: ("field", ("dc", ("field", self_p, "operation"), v), fname)
        for fname, ft in agg[3]:
            term = _strip(ft)
            is_money = mf.get(v, {}).get(fname, False)
            if is_money:
                ok = False
                why = f"money field {v}.{fname} is {show(term)[:80]} — not a conversion of the same field"
                if isinstance(term, tuple) and term and term[0] == "call" and len(term[2]) >= 2:
                    conv_fn = term[1]
                    flat = []
                    for a_ in term[2]:      # a carrier struct (`GbpConversion { date, fx_cache }`) counts by its fields
                        flat += [ft2 for _, ft2 in a_[3]] if isinstance(a_, tuple) and a_ and a_[0] == "agg" else [a_]
                    srcs = [x for x in flat if x == src_of(fname)]
                    src = srcs[0] if srcs else next((x for x in flat if isinstance(x, tuple) and x and x[0] == "field"), flat[0])
                    rest = [x for x in flat if x is not src]
                    src_ok = src == src_of(fname)
                    date_ok = own_date in rest
                    cache_ok = cache_param in rest
                    ok = src_ok and date_ok and cache_ok
                    why = (f"{v}.{fname} = convert(self.operation.{fname}, self.date, cache)" if ok else
                           f"{v}.{fname} is converted from {show(src)[:50]} with ({', '.join(show(x)[:20] for x in rest)})"
                           + ("" if src_ok else " — a different field") + ("" if date_ok else " — not the transaction's date")
                           + ("" if cache_ok else " — not the cache parameter"))
                rep.ob("R1", f"{v}.{fname}", ok, why, b.loc(), key=f"R1:{v}.{fname}")
            else:
                ok = term == src_of(fname)
                rep.ob("R1", f"{v}.{fname}", ok, f"{v}.{fname} copied unchanged" if ok else
                       f"non-money field {v}.{fname} is {show(term)[:80]} instead of an unchanged copy", b.loc(), key=f"R1:{v}.{fname}")
    for v in mf:
        if v not in seen:
            rep.ob("R1", f"{v}:built", False, f"no Operation::{v} is built by the conversion", b.loc(), key=f"R1:{v}:missing")
    return conv_fn


_RC = {}


def _R(F):
    from roles import Roles
    r = getattr(F, "_roles_c08", None)
    if r is None:
        r = F._roles_c08 = Roles(F)
    return r


def _none_edges_return_err(F, b):
    """some `match opt { None => return Err(..), Some(x) => … }` / `let Some(x) = opt else { return Err(..) }`: a switch on
    the discriminant of an Option whose None edge reaches only blocks that build Result::Err and never Result::Ok"""
    tb = Terms(F, b, inline_depth=0)
    for s in b.reachable():
        sw = b.term(s)
        if sw["k"] != "switch":
            continue
        p = op_place(sw["discr"])
        cnd = tb.operand(sw["discr"])
        if not (isinstance(cnd, tuple) and cnd and cnd[0] == "discr"):
            continue
        ty = _discr_ty(b, s)
        if ty is not None and not ty.startswith("core::option::Option<"):
            continue
        if ty is None and not ({v for v, _ in sw["targets"]} <= {"0", "1"}):
            continue        # a projected place (`self.cache`): accept only two-variant shapes
        none_t = [x[1] for x in sw["targets"] if x[0] == "0"]
        if not none_t and [x for x in sw["targets"] if x[0] == "1"]:
            none_t = [sw["otherwise"]]
        if not none_t:
            continue
        region = b.reach_from(none_t[0], removed_blocks=(s,))
        errs = oks = 0
        for r in region:
            for st in b.stmts(r):
                rv = st.get("rv", {})
                if rv.get("k") == "agg" and rv.get("adt") == "core::result::Result":
                    if rv.get("variant") == "Err":
                        errs += 1
                    else:
                        oks += 1
            t = b.term(r)
            if t["k"] == "call" and (t["callee"].endswith("::to_gbp") or "ops::arith" in t["callee"]):
                oks += 1
        if errs and not oks:
            return True
    return False


def _discr_ty(b, s):
    """type of the place whose discriminant is switched on in block s"""
    sw = b.term(s)
    p = op_place(sw["discr"])
    if p is None:
        return None
    for st in reversed(b.stmts(s)):
        if st.get("lhs", {}).get("l") == p["l"] and st.get("rv", {}).get("k") == "discr":
            q = st["rv"]["p"]
            ty = b.local_ty(q["l"])
            if place_proj(q):
                return None if any(isinstance(e, dict) for e in place_proj(q)) else _strip_refty(ty)
            return _strip_refty(ty)
    return None


def _strip_refty(ty):
    while ty.startswith("&"):
        ty = ty[1:].lstrip()
        if ty.startswith("mut "):
            ty = ty[4:]
        if ty.startswith("'"):
            ty = ty.split(" ", 1)[1] if " " in ty else ty
    return ty


def converter(F, rep, conv_fn):
    # FXCONV: body calling FxCache::get and a Decimal division
    fx = [b for b in F.bodies.values() if P.user_written(F, b) and any(t["callee"].endswith("FxCache::get") for _, t in b.calls())
          and b.crate in ("cgt_money", "cgt_core")]
    if len(fx) != 1:
        rep.unresolved("R2", "FXCONV", f"{len(fx)} library functions call FxCache::get")
        return
    b = fx[0]
    tb = Terms(F, b, inline_depth=0)
    ret = tb.local(0)
    date_param = next((("param", k, b.local_name(k + 1)) for k in range(b.argc) if "NaiveDate" in b.local_ty(k + 1)), None)
    for i, t in b.calls():
        if t["callee"].endswith("FxCache::get"):
            a = [tb.operand(x) for x in t["args"]]
            ok_c = a[1] == ("field", ("param", 0, "self"), "currency")
            ok_y = isinstance(a[2], tuple) and a[2][0] == "call" and parse_callee(a[2][1])[2] == "year" and a[2][2][0] == date_param
            ok_m = isinstance(a[3], tuple) and a[3][0] == "call" and parse_callee(a[3][1])[2] == "month" and a[3][2][0] == date_param
            rep.ob("R2", "lookup:currency", ok_c, "rate looked up for the amount's own currency" if ok_c else f"rate looked up for {show(a[1])[:40]}",
                   b.loc(t["sp"]), key="R2:lookup:currency")
            rep.ob("R2", "lookup:year", ok_y, "year(date) of the date parameter" if ok_y else f"year key is {show(a[2])[:40]}", b.loc(t["sp"]), key="R2:lookup:year")
            rep.ob("R2", "lookup:month", ok_m, "month(date) of the date parameter" if ok_m else f"month key is {show(a[3])[:40]}", b.loc(t["sp"]), key="R2:lookup:month")
    # orientation and GBP pass-through
    oks = [x for x in subterms(ret) if isinstance(x, tuple) and x and x[0] == "agg" and x[1] == "core::result::Result" and x[2] == "Ok"]
    vals = [dict(x[3])["0"] for x in oks]
    div = [v for v in vals if isinstance(v, tuple) and v and v[0] == "/"]
    ok3 = len(div) == 1 and div[0][1] == ("field", ("param", 0, "self"), "amount") and "rate" in show(div[0][2])
    rep.ob("R3", "convert:amount÷rate", ok3, "converted value is amount ÷ rate_per_gbp" if ok3 else
           f"converted value is {[show(v)[:60] for v in vals]} — expected amount ÷ rate", b.loc(), key="R3:convert:orientation")
    passthru = [v for v in vals if v == ("field", ("param", 0, "self"), "amount")]
    gbp_guard = False
    for s in b.reachable():
        sw = b.term(s)
        if sw["k"] == "switch":
            c = tb.operand(sw["discr"])
            if "is_gbp" in show(c) or "GBP" in show(c):
                gbp_guard = True
    rep.ob("R4", "convert:gbp-untouched", bool(passthru) and gbp_guard, "a GBP amount is returned unchanged" if passthru and gbp_guard else
           "no early return of the unchanged amount under an is-GBP test", b.loc(), key="R4:convert:gbp")
    # R5 no defaults
    for bb in [b] + ([F.bodies[conv_fn]] if conv_fn in F.bodies else []):
        dfl = [t["callee"] for _, t in bb.calls() if parse_callee(t["callee"])[2] in DEFAULTING]
        rep.ob("R5", f"{bb.short}:no-default", not dfl, "missing cache / missing rate is never defaulted" if not dfl else
               f"a missing value is defaulted via {dfl} (an amount could silently be treated as GBP)", bb.loc(), key=f"R5:{bb.short}:defaulting")
        okors = [t for _, t in bb.calls() if parse_callee(t["callee"])[2] in ("ok_or", "ok_or_else")]
        none_err = _none_edges_return_err(F, bb)
        ok_none = bool(okors) or none_err
        rep.ob("R5", f"{bb.short}:ok_or", ok_none, "an absent Option (cache / rate) is turned into Err (ok_or, or a None arm that only returns Err)" if ok_none else
               "no ok_or on the lookup result and no None arm returning Err", bb.loc(), key=f"R5:{bb.short}:ok_or")
        from roles import Roles, Region
        rg = Region(_R(F), bb, depth=1)
        for hb in rg.bodies.values():
            btb = Terms(F, hb, inline_depth=0)
            for i, si, s in hb.assigns():
                rv = s["rv"]
                if rv["k"] == "agg" and rv["variant"] in ("MissingFxRate", "MissingRate"):
                    f = dict(zip(rv["fields"], [rg.convs[hb.id](btb.operand(o)) for o in rv["ops"]]))
                    txt = {k: show(v) for k, v in f.items()}
                    ok = "code" in txt.get("currency", "") and "year(" in txt.get("year", "") and "month(" in txt.get("month", "")
                    rep.ob("R5", f"{bb.short}:error-names-currency-month", ok, "error carries the currency code and the date's year/month" if ok else
                           f"error fields are {txt}", hb.loc(s["sp"]), key=f"R5:{bb.short}:error-fields")
    # GBP short-circuit also in the core wrapper
    if conv_fn in F.bodies:
        cb = F.bodies[conv_fn]
        ctb = Terms(F, cb, inline_depth=0)
        r = ctb.local(0)
        pas = any(isinstance(x, tuple) and x and x[0] == "agg" and x[2] == "Ok" and dict(x[3]).get("0") == ("field", ("param", 0, cb.local_name(1)), "amount")
                  for x in subterms(r))
        calls_conv = any(t["callee"] == b.id for _, t in cb.calls())
        rep.ob("R4", f"{cb.short}:wrapper", calls_conv, "the core wrapper delegates to the shared converter" if calls_conv else
               "the core wrapper does not call CurrencyAmount::to_gbp", cb.loc(), key=f"R4:{cb.short}:delegates")
    # cache key construction
    for gb in F.bodies.values():
        if gb.id.endswith("FxCache::get"):
            gt = Terms(F, gb, inline_depth=1)
            r = gt.local(0)
            keys = [x for x in subterms(r) if isinstance(x, tuple) and x and x[0] == "agg" and x[1].endswith("RateKey")]
            want = {"code": ("param", 1, gb.local_name(2)), "year": ("param", 2, gb.local_name(3)), "month": ("param", 3, gb.local_name(4))}
            # EVERY key the lookup builds is the requested one, and the table is consulted once: a second lookup under another
            # key (the previous month, the same month of another year, a default currency) converts at a rate that is not the
            # line's own month's instead of failing (seeded change C08-s4)
            wrong = [k_ for k_ in keys if dict(k_[3]) != want]
            region_gets = [(hb, t) for hb in [gb] + [F.bodies[cid] for cid in F.children(gb.id)] for _, t in hb.calls()
                           if parse_callee(t["callee"])[2] in ("get", "get_key_value", "range", "iter", "values", "find") and ("HashMap" in t["callee"] or "BTreeMap" in t["callee"])]
            ok = bool(keys) and not wrong and len(region_gets) == 1
            rep.ob("R2", "cache:key-from-params", ok, "cache key = (currency, year, month) parameters in order; one lookup" if ok else
                   (f"the cache also looks up {show(wrong[0])[:90]}" if wrong else
                    f"the cache consults its table {len(region_gets)} times" if keys else "cache key is ?"), gb.loc(), key="R2:cache:key")


def loader(F, rep):
    # RateKey derives
    rk = [im for im in F.impls if im["self"].endswith("types::RateKey")]
    for tr in ("core::hash::Hash", "core::cmp::PartialEq", "core::cmp::Eq"):
        ims = [im for im in rk if im.get("trait") == tr]
        ok = len(ims) == 1 and ims[0]["derived"]
        rep.ob("R6", f"RateKey:{tr.split('::')[-1]}", ok, "derived over all fields" if ok else f"{len(ims)} impls, derived={[i['derived'] for i in ims]}",
               "crates/cgt-money/src/types.rs", key=f"R6:RateKey:{tr.split('::')[-1]}")
    a = F.adts.get("cgt_money::types::RateKey")
    if a:
        names = [f["name"] for f in a["variants"][0]["fields"]]
        rep.ob("R6", "RateKey:fields", set(names) == {"code", "year", "month"}, f"key fields {names}", f"{a['file']}:{a['line']}", key="R6:RateKey:fields")
    # insert keyed by the entry's own key
    for b in F.bodies.values():
        if b.id.endswith("FxCache::insert"):
            tb = Terms(F, b, inline_depth=2)      # `let (key, entry) = keyed(entry)` is seen through
            ok = False
            for i, t in b.calls():
                if parse_callee(t["callee"])[2] == "insert" and "HashMap" in t["callee"]:
                    k = tb.operand(t["args"][1])
                    v = tb.operand(t["args"][2])
                    ok = k == ("field", v, "key") and v[0] == "param"
            rep.ob("R6", "FxCache::insert:own-key", ok, "entries are stored under their own key" if ok else "insert does not key the entry by entry.key",
                   b.loc(), key="R6:insert:own-key")
    # parser call sites pass Some(expected from file name)
    n = 0

    def sources(b, term, depth=0):
        """[(body, term)] — the term with parameters of b replaced by what each caller passes (two levels)"""
        ps = sorted({x[1] for x in subterms(term) if isinstance(x, tuple) and x and x[0] == "param"})
        sites = [(cb, ct) for cb, ci, ct in F.call_sites(lambda cal, bid=b.id: cal == bid) if P.user_written(F, cb)]
        if not ps or depth >= 2 or not sites:
            return [(b, term)]
        out = []
        from mir import subst
        for cb, ct in sites:
            ctb = Terms(F, cb, inline_depth=0)
            out += sources(cb, subst(term, [ctb.operand(a) for a in ct["args"]]), depth + 1)
        return out
    for b, i, t in F.call_sites(lambda c: c.endswith("parser::parse_monthly_rates")):
        if not P.user_written(F, b):
            continue
        tb = Terms(F, b, inline_depth=0)
        for sb, exp in sources(b, tb.operand(t["args"][2])):
            n += 1
            # Some(period) where the period is computed from the file's own path / name: by a function of the loader module or
            # a std path accessor, or read from a `name` / `path` field — not a constant and not None
            def path_like(x):
                if not isinstance(x, tuple) or not x:
                    return False
                if x[0] == "call":
                    return x[1].startswith("cgt_money::loader::") or parse_callee(x[1])[2] in ("file_name", "file_stem", "to_string_lossy", "to_str")
                return x[0] == "field" and x[2] in ("name", "path", "file_name")
            ok = isinstance(exp, tuple) and exp and ((exp[0] == "agg" and exp[2] == "Some") or exp[0] == "some") and any(path_like(x) for x in subterms(exp))
            rep.ob("R6", f"{sb.short}:expected-period", ok, "rates file is parsed with Some(period from its file name)" if ok else
                   f"rates parser called with expected period {show(exp)[:60]} (a mislabelled file would be accepted)", b.loc(t["sp"]),
                   key=f"R6:{sb.short}:expected-period")
    if n < 2:
        rep.unresolved("R6", "parser-callers", f"{n} call sites of parse_monthly_rates")
    # bundled before folder
    for b in F.bodies.values():
        if b.crate == "cgt_money" and P.user_written(F, b) and b.kind == "fn" and "FxCache" in b.ret and b.loops():
            ext = [(i, t) for i, t in b.calls() if t["callee"].endswith("FxCache::extend")]
            bund = [(i, t) for i, t in b.calls() if t["callee"].endswith("load_bundled_dir")]
            if len(ext) >= 2 and bund:
                loop_blocks = set().union(*[bl for h, bl in b.loops()])
                first = [e for e in ext if e[0] not in loop_blocks]
                inloop = [e for e in ext if e[0] in loop_blocks]
                tb = Terms(F, b, inline_depth=0)
                ok = bool(first) and bool(inloop) and all(b.dominates(first[0][0], e[0]) for e in inloop) and \
                    "load_bundled_dir" in show(tb.operand(first[0][1]["args"][1]))
                rep.ob("R6", f"{b.short}:bundled-first", ok, "bundled rates are inserted before any folder file" if ok else
                       "bundled rates are not inserted strictly before the folder entries (a bundled rate could overwrite an override)", b.loc(),
                       key=f"R6:{b.short}:bundled-first")


def rates_parser(F, rep):
    bs = [b for b in F.bodies.values() if b.id.endswith("parser::parse_monthly_rates")]
    if len(bs) != 1:
        rep.unresolved("R7", "RATEPARSER", f"{len(bs)} bodies")
        return
    b = bs[0]
    tb = Terms(F, b, inline_depth=0)
    pushes = [(i, t) for i, t in b.calls() if parse_callee(t["callee"])[2] == "push" and "RateEntry" in " ".join(t.get("aty") or [])]
    hb2 = None
    if not pushes:
        # third spelling: the period is checked here and the row loop, with its pushes, lives in a same-crate helper called afterwards
        # (small edit sm-u3): the call stands for the pushes in this function, the row rules are decided in the helper
        hs = [(i, t) for i, t in b.calls() if t["callee"] in F.bodies and F.bodies[t["callee"]].crate == "cgt_money" and P.user_written(F, F.bodies[t["callee"]])
              and any(parse_callee(u["callee"])[2] == "push" and "RateEntry" in " ".join(u.get("aty") or []) for _, u in F.bodies[t["callee"]].calls())]
        if len({t["callee"] for _, t in hs}) == 1:
            hb2 = F.bodies[hs[0][1]["callee"]]
            pushes = hs
    if not pushes:
        # second spelling: the rows go through an iterator pipeline and the entry is built in a method (refactoring r25)
        if not _rates_parser_by_constructors(F, rep, b, tb):
            rep.unresolved("R7", "push", "no push of a RateEntry")
        return

    def core(b, tb, pushes, rows):
        # period check: on the Some(expected) edge, year and month are compared and a mismatch leaves without pushing
        yr = mo = pos = False
        some_targets = []
        for s in b.reachable():
            sw = b.term(s)
            if sw["k"] == "switch":
                c = tb.operand(sw["discr"])
                if isinstance(c, tuple) and c and c[0] == "discr" and isinstance(c[1], tuple) and c[1] and c[1][0] == "param" \
                        and "Option" in b.local_ty(c[1][1] + 1):
                    some_targets += [x for v, x in sw["targets"] if v == "1"]
        # the period comparison may live in a helper called on the Some(expected) edge whose error is propagated with `?`
        from mir import subst
        for hi, ht_ in b.calls():
            hb = F.bodies.get(ht_["callee"])
            if hb is None or hb.crate != b.crate or not P.user_written(F, hb) or "Result" not in hb.ret:
                continue
            if not (some_targets and all(b.block_cuts(hi, st, p[0]) for st in some_targets for p in pushes)):
                continue
            # `?` on the helper's result: the Break arm must not reach a push
            brk_ok = False
            for s2 in b.reach_from(ht_["target"]) if ht_.get("target") is not None else ():
                sw2 = b.term(s2)
                if sw2["k"] == "switch":
                    c2 = tb.operand(sw2["discr"])
                    if isinstance(c2, tuple) and c2 and c2[0] == "discr" and any(isinstance(x, tuple) and x and x[0] == "call" and x[1] == hb.id for x in subterms(c2)):
                        brk = [x for v, x in sw2["targets"] if v == "1"]
                        brk_ok = bool(brk) and all(p[0] not in b.reach_from(brk[0]) for p in pushes)
                        break
            if not brk_ok:
                continue
            htb = Terms(F, hb, inline_depth=0)
            hargs = [tb.operand(a) for a in ht_["args"]]
            for s2 in hb.reachable():
                sw2 = hb.term(s2)
                if sw2["k"] != "switch":
                    continue
                c2 = subst(htb.operand(sw2["discr"]), hargs)
                if isinstance(c2, tuple) and c2 and c2[0] in ("bin", "cmp") and c2[1] in ("Ne", "Eq") and "parse_period" in show(c2, 0):
                    lhs, rhs = show(c2[2]), show(c2[3])
                    comp = "year" if lhs.endswith(".0") and rhs.endswith(".0") else ("month" if lhs.endswith(".1") and rhs.endswith(".1") else None)
                    if comp is None:
                        continue
                    mismatch = sw2["otherwise"] if c2[1] == "Ne" else [x for v, x in sw2["targets"] if v == "0"][0]
                    ok_blocks = {bi for bi, si, st in hb.assigns() if st["rv"]["k"] == "agg" and st["rv"].get("adt") == "core::result::Result" and st["rv"].get("variant") == "Ok"}
                    if not (ok_blocks & hb.reach_from(mismatch)):
                        if comp == "year":
                            yr = True
                        else:
                            mo = True
        for s in b.reachable():
            sw = b.term(s)
            if sw["k"] != "switch":
                continue
            c = tb.operand(sw["discr"])
            txt = show(c)
            if isinstance(c, tuple) and c and c[0] in ("bin", "cmp") and c[1] in ("Ne", "Eq") and "parse_period" in txt:
                lhs, rhs = show(c[2]), show(c[3])
                comp = None
                if lhs.endswith(".0") and rhs.endswith(".0"):
                    comp = "year"
                if lhs.endswith(".1") and rhs.endswith(".1"):
                    comp = "month"
                if comp is None:
                    continue
                mismatch = sw["otherwise"] if c[1] == "Ne" else [x for v, x in sw["targets"] if v == "0"][0]
                leaves = all(p[0] not in b.reach_from(mismatch) for p in pushes)
                cuts = bool(some_targets) and all(b.block_cuts(s, st, p[0]) for st in some_targets for p in pushes)
                if leaves and cuts:
                    if comp == "year":
                        yr = True
                    else:
                        mo = True
            if isinstance(c, tuple) and c and c[0] in ("bin", "cmp") and c[1] in ("Le", "Gt") and c[3] == ("const", "Decimal::ZERO"):
                # `rate <= 0` must leave without pushing (or, equivalently, pushes sit on the true edge of `rate > 0`);
                # `rate < 0` alone would let a zero rate through (division by zero later)
                true_t = sw["otherwise"]
                false_t = [x for v, x in sw["targets"] if v == "0"]
                reject = true_t if c[1] == "Le" else (false_t[0] if false_t else None)
                if reject is not None:
                    arm = {x for x in b.reach_from(reject) if b.dominates(reject, x)}
                    dominates_push = all(b.dominates(s, p[0]) for p in pushes)
                    if dominates_push and all(p[0] not in arm for p in pushes):
                        pos = True
                        # …and EVERY row is judged: before the test only the iteration, the recognition of the currency code and
                        # the parse of the number may send a row another way; a row skipped for any other reason (a currency seen
                        # before) is a non-positive rate the file is not rejected for (seeded change C08-s6)
                        from roles import guards_of
                        skipped = []
                        for cond, val, where in guards_of(b, tb, s):
                            txt2 = show(cond)
                            if isinstance(cond, tuple) and cond and cond[0] == "discr" and any(k in txt2 for k in ("next(", "from_code(", "branch(", "from_str(")):
                                continue
                            if isinstance(cond, tuple) and cond and cond[0] == "discr" and isinstance(cond[1], tuple) and cond[1] and cond[1][0] == "param":
                                continue
                            if "parse_period" in txt2 or "expected" in txt2:
                                continue
                            skipped.append(txt2[:70])
                        rows and rep.ob("R7", "rate:every-row-judged", not skipped, "every row with a recognised currency reaches the non-positive test" if not skipped else
                               f"rows are skipped before the non-positive test under {skipped[:2]}: a file with a zero or negative rate in such a row is accepted",
                               b.loc(sw["sp"]), key="R7:rate:every-row-judged")
        return yr, mo, pos

    if hb2 is None:
        yr, mo, pos = core(b, tb, pushes, True)
    else:
        yr, mo, _ = core(b, tb, pushes, False)
        htb2 = Terms(F, hb2, inline_depth=0)
        _, _, pos = core(hb2, htb2, [(i, t) for i, t in hb2.calls() if parse_callee(t["callee"])[2] == "push" and "RateEntry" in " ".join(t.get("aty") or [])], True)
    rep.ob("R7", "period:year-checked", yr, "period year is compared with the expected year before any entry is pushed" if yr else
           "no dominating comparison of the file's year with the expected year", b.loc(), key="R7:period:year")
    rep.ob("R7", "period:month-checked", mo, "period month is compared with the expected month before any entry is pushed" if mo else
           "no dominating comparison of the file's month with the expected month", b.loc(), key="R7:period:month")
    rep.ob("R7", "rate:positive", pos, "entries are pushed only after `rate <= 0 → Err`" if pos else
           "pushing an entry is not guarded by a non-positive-rate rejection", b.loc(), key="R7:rate:positive")


def _rates_parser_by_constructors(F, rep, b, tb):
    """R7 without a `push`: (a) every construction of a RateEntry takes a rate that passed `> 0` — at the construction itself, or,
    when the rate is a field of a carrier handed in (`Quote.rate_per_gbp`), at every construction of that carrier; (b) before the
    rows are collected the parser calls, with `?`, a same-crate helper on its expected-period parameter that compares BOTH components
    with the parsed period and returns Err on a mismatch. Returns False when this spelling is not present either."""
    from roles import guards_of
    mod = [x for x in F.bodies.values() if x.crate == b.crate and "::parser::" in x.id and P.user_written(F, x)]

    def aggs(suffix_or_pred):
        for x in mod:
            xt = None
            for i, si, st in x.assigns():
                rv = st["rv"]
                if rv["k"] == "agg" and rv.get("fields") and suffix_or_pred(rv["adt"]):
                    xt = xt or Terms(F, x, inline_depth=0)
                    yield x, xt, i, st, dict(zip(rv["fields"], rv["ops"]))

    def zero(t):
        return t == ("const", "Decimal::ZERO") or show(t).endswith("ZERO")

    def positive(x, xt, blk, term):
        for cond, val, w in guards_of(x, xt, blk):
            if isinstance(cond, tuple) and cond and cond[0] in ("cmp", "bin") and len(cond) == 4:
                op, l, r = cond[1], cond[2], cond[3]
                tv = val != "0"
                if l == term and zero(r) and ((op == "Gt" and tv) or (op == "Le" and not tv)):
                    return True
                if r == term and zero(l) and ((op == "Lt" and tv) or (op == "Ge" and not tv)):
                    return True
        return False
    entries = list(aggs(lambda a: a.endswith("::RateEntry")))
    if not entries:
        return False
    pos = True
    for x, xt, blk, st, flds in entries:
        rf = next((f for f in flds if "rate" in f), None)
        if rf is None:
            pos = False
            continue
        tr = xt.operand(flds[rf])
        if positive(x, xt, blk, tr):
            continue
        ok = False
        if isinstance(tr, tuple) and tr and tr[0] == "field" and isinstance(tr[1], tuple) and tr[1] and tr[1][0] == "param":
            pty = x.local_ty(tr[1][1] + 1).replace("&", "").strip()
            sites = [(y, yt, i2, yt.operand(f2[tr[2]])) for y, yt, i2, st2, f2 in aggs(lambda a, pty=pty: a == pty or pty.endswith(a)) if tr[2] in f2]
            ok = bool(sites) and all(positive(y, yt, i2, t2) for y, yt, i2, t2 in sites)
        pos = pos and ok
    # (b)
    yr = mo = False
    exp = [k for k in range(b.argc) if "Option<(i32, u32)>" in b.local_ty(k + 1)]
    sinks = [i for i, t in b.calls() if parse_callee(t["callee"])[2] in ("collect", "extend", "from_iter", "try_fold", "try_for_each", "for_each", "push")]
    for i, t in b.calls():
        hb = F.bodies.get(t["callee"])
        if hb is None or hb.crate != b.crate or "Result" not in hb.ret:
            continue
        args = [tb.operand(a) for a in t["args"]]
        if not any(isinstance(a, tuple) and a and a[0] == "param" and a[1] in exp for a in args):
            continue
        ct = tb.call_term(t)
        propagated = any(parse_callee(u["callee"])[2] == "from_residual" and any(x == ct for x in subterms(tb.operand(u["args"][0]))) for _, u in b.calls())
        if not propagated or not sinks or not all(b.dominates(i, sk) for sk in sinks):
            continue
        htb = Terms(F, hb, inline_depth=0)
        ok_blocks = {bi for bi, si, st in hb.assigns() if st["rv"]["k"] == "agg" and st["rv"].get("adt") == "core::result::Result" and st["rv"].get("variant") == "Ok"}
        for s_, sw in hb.terms_of_kind("switch"):
            c = htb.operand(sw["discr"])
            if not (isinstance(c, tuple) and c and c[0] in ("cmp", "bin") and c[1] in ("Ne", "Eq") and len(c) == 4):
                continue
            mismatch = sw["otherwise"] if c[1] == "Ne" else next((x for v, x in sw["targets"] if v == "0"), None)
            if mismatch is None or (ok_blocks & hb.reach_from(mismatch)):
                continue
            pairs = []
            if all(isinstance(z, tuple) and z and z[0] == "tuple" and len(z[1]) == 2 for z in (c[2], c[3])):
                pairs = list(zip(c[2][1], c[3][1]))
            else:
                pairs = [(c[2], c[3])]
            for l, r in pairs:
                ls, rs = show(l), show(r)
                e, o = (ls, rs) if "expected" in ls or ls.endswith((".0", ".1")) and "some(" in ls else (rs, ls)
                if e.endswith(".0") and ("year" in o or o.endswith(".0")):
                    yr = True
                if e.endswith(".1") and ("month" in o or o.endswith(".1")):
                    mo = True
    rep.ob("R7", "period:year-checked", yr, "period year is compared with the expected year before the rows are collected" if yr else
           "no dominating comparison of the file's year with the expected year", b.loc(), key="R7:period:year")
    rep.ob("R7", "period:month-checked", mo, "period month is compared with the expected month before the rows are collected" if mo else
           "no dominating comparison of the file's month with the expected month", b.loc(), key="R7:period:month")
    rep.ob("R7", "rate:positive", pos, "every rates entry is built from a rate that passed `> 0`" if pos else
           "an entry can be built from a rate that was not tested to be positive", b.loc(), key="R7:rate:positive")
    rep.note("R7: rates parser read in its constructor spelling (no push); the every-row-judged clause is not evaluated in this spelling")
    return True


def wiring(F, rep):
    n = 0
    for b, i, t in F.call_sites(lambda c: c.endswith("calculator::calculate")):
        if not P.user_written(F, b) or b.crate == "cgt_core":
            continue
        n += 1
        tb = Terms(F, b, inline_depth=0)
        fx = tb.operand(t["args"][2])
        none = isinstance(fx, tuple) and fx and fx[0] == "agg" and fx[2] == "None"
        rep.ob("R8", f"{b.short}:cache-passed", not none, "front-end passes an FX cache to calculate()" if not none else
               "front-end passes None as FX cache: every foreign amount fails (or, worse, a fallback is needed)", b.loc(t["sp"]),
               key=f"R8:{b.short}:cache-none")
    if n < 3:
        rep.unresolved("R8", "frontends", f"{n} front-end call sites of calculate()")
    # the CLI function that chooses the cache: the one calling both loaders (main itself or a helper of it)
    cands = [b for b in F.bodies.values() if b.crate == "cgt_tool" and P.user_written(F, b)
             and any(t["callee"].endswith("load_cache_with_overrides") for _, t in b.calls())
             and any(t["callee"].endswith("load_default_cache") for _, t in b.calls())]
    if len(cands) != 1:
        rep.unresolved("R8", "cli", f"{len(cands)} CLI functions call both cache loaders")
        return
    main = cands[0]
    tb = Terms(F, main, inline_depth=0)
    ov = [(i, t) for i, t in main.calls() if t["callee"].endswith("load_cache_with_overrides")]
    df = [(i, t) for i, t in main.calls() if t["callee"].endswith("load_default_cache")]
    ok = False
    why = "CLI does not choose between the default cache and the folder cache on --fx-folder"
    for s in main.reachable():
        sw = main.term(s)
        if sw["k"] != "switch":
            continue
        c = tb.operand(sw["discr"])
        if isinstance(c, tuple) and c and c[0] == "discr" and ("fx_folder" in show(c) or "PathBuf" in (_discr_ty(main, s) or "")):
            some_t = [x for v, x in sw["targets"] if v == "1"]
            none_t = [x for v, x in sw["targets"] if v == "0"] or ([sw["otherwise"]] if main.term(sw["otherwise"])["k"] != "unreachable" else [])
            if some_t and none_t and ov and df:
                a = ov[0][0] in main.reach_from(some_t[0]) and main.edge_dominates((s, some_t[0]), ov[0][0])
                d_ = df[0][0] in main.reach_from(none_t[0]) and main.edge_dominates((s, none_t[0]), df[0][0])
                folder_arg = "read_fx_folder" in show(tb.operand(ov[0][1]["args"][0]))
                if a and d_ and folder_arg:
                    ok = True
                    why = "folder rates are loaded exactly when --fx-folder is given, bundled rates otherwise"
                elif not ok:
                    why = f"override-on-Some={a}, default-on-None={d_}, folder read={folder_arg}"
    rep.ob("R8", "cli:fx-folder", ok, why, main.loc(), key="R8:cli:fx-folder")


def folder_scan(F, rep):
    """R9 (a rate supplied in the user's folder replaces the bundled one): the front-end's directory scan hands EVERY `.xml` file
    to the loader. Between `read_dir` and the construction of a `RateFile`, the only conditions are the iteration, error
    propagation and the test of the extension; a further filter on the file's name or stem silently leaves supplied rates out and
    the bundled ones in force (seeded change C08-s5) — rejecting a mislabelled file is the loader's job (R6/R7), with an error."""
    from roles import guards_of
    n = 0

    def scans(x):
        root = F.bodies[x.parent] if x.kind == "closure" and x.parent in F.bodies else x
        fam = [root] + [F.bodies[y] for y in F.children(root.id)]
        return any(parse_callee(t["callee"])[2] == "read_dir" for y in fam for _, t in y.calls())

    def benign(cond):
        txt = show(cond)
        if isinstance(cond, tuple) and cond and cond[0] == "discr" and any(k in txt for k in ("next(", "branch(", "read_dir", "metadata", "read_to_string")):
            return True
        names = {parse_callee(x[1])[2] for x in subterms(cond) if isinstance(x, tuple) and x and x[0] == "call"}
        if "extension" in names and not (names & {"file_stem", "file_name", "split_once", "parse", "starts_with", "len", "chars", "contains"}):
            return True
        return bool(names) and names <= {"is_file", "is_dir", "file_type", "metadata", "path"}
    for b in F.bodies.values():
        if b.crate not in ("cgt_tool", "cgt_mcp", "cgt_wasm") or not P.user_written(F, b):
            continue
        for i, si, s in b.assigns():
            rv = s["rv"]
            if not (rv["k"] == "agg" and rv["adt"].endswith("::RateFile")):
                continue
            # the file is built here, or in a helper called from the function that walks the directory
            chains = [[(b, i)]] if scans(b) else [[(cb, ci), (b, i)] for cb, ci, ct in F.call_sites(lambda cal, bid=b.id: cal == bid)
                                                  if P.user_written(F, cb) and scans(cb)]
            for chain in chains:
                n += 1
                extra = []
                for xb, xi in chain:
                    xt = Terms(F, xb, inline_depth=2)
                    extra += [show(cond)[:80] for cond, val, where in guards_of(xb, xt, xi) if not benign(cond)]
                rep.ob("R9", f"{chain[0][0].short}:every-xml-file", not extra, "every .xml file of the folder becomes a rates file for the loader" if not extra else
                       f"rates files are also filtered by {extra[:2]}: a supplied file that fails the test is skipped without a message and the bundled rate stays in force",
                       b.loc(s["sp"]), key=f"R9:{chain[0][0].short}:folder-filter")
    rep.count("folder_scan_sites", n)
    if n < 1:
        rep.unresolved("R9", "folder-scan", "no directory scan building RateFile values found in the front-ends")


def every_loaded_rate_applied(F, rep):
    """R6 (a folder rate replaces the bundled rate for exactly that currency and month): whatever the loader parsed from a supplied
    file goes into the cache. The insertion stands under nothing but the iteration over the files and the propagation of errors; a
    further condition — "skip this file if a later one is for the same month" (compared without the year: seeded change C08-s7) —
    silently leaves a supplied rate out and the bundled one in force."""
    from roles import guards_of
    n = 0

    def benign(cond):
        txt = show(cond)
        if isinstance(cond, tuple) and cond and cond[0] == "discr" and any(k in txt for k in ("next(", "branch(")):
            return True
        names = {parse_callee(x[1])[2] for x in subterms(cond) if isinstance(x, tuple) and x and x[0] == "call"}
        return "extension" in names and not (names & {"file_stem", "file_name", "split_once", "parse", "starts_with", "len", "chars", "contains", "any", "all"})
    for b in F.bodies.values():
        if b.crate != "cgt_money" or "::cache::" in b.id or not P.user_written(F, b):
            continue
        tb = None
        for i, t in b.calls():
            m = parse_callee(t["callee"])
            aty = (t.get("aty") or [""])[0]
            if m[2] not in ("extend", "insert") or "FxCache" not in aty + t["callee"]:
                continue
            tb = tb or Terms(F, b, inline_depth=2)
            extra = [show(cond)[:90] for cond, val, where in guards_of(b, tb, i) if not benign(cond)]
            n += 1
            rep.ob("R6", f"{b.short}:applies-every-entry@{i}", not extra, "parsed rates enter the cache unconditionally (iteration and error propagation only)" if not extra else
                   f"`{b.short}` puts parsed rates into the cache only under {extra[:2]}: a supplied rate that fails the test is dropped without a message and the "
                   "bundled rate of that month stays in force", b.loc(t["sp"]), key=f"R6:{b.short}:conditional-insert")
    rep.count("cache_fill_sites", n)
    if n < 1:
        rep.unresolved("R6", "cache-fill", f"only {n} sites filling the FX cache found in the loader (bundled and folder expected)")


def currency_case(F, rep):
    """R9 (a supplied rate is never skipped for its spelling): where cgt-money recognises a currency code taken from a rates file or
    from a caller (`Currency::from_code` in the rates parser and in the cache), the code is case-folded first — the ISO table is
    upper-case, an unrecognised code is a legitimate reason to skip a row (old currencies), so a code looked up as written makes
    `<currencyCode>usd</currencyCode>` vanish without an error and the bundled rate stays in force (seeded change C08-s8)."""
    from mir import subterms
    n = 0
    for b, i, t in F.call_sites(lambda c: c.endswith("Currency::from_code")):
        if b.crate != "cgt_money" or not (b.id.startswith("cgt_money::parser::") or b.id.startswith("cgt_money::cache::") or b.id.startswith("cgt_money::loader::")):
            continue
        if not P.user_written(F, b):
            continue
        n += 1
        tb = Terms(F, b, inline_depth=1)
        arg = tb.operand(t["args"][0])
        ok = any(isinstance(x, tuple) and x and x[0] == "call" and parse_callee(x[1])[2] in ("to_uppercase", "to_ascii_uppercase") for x in subterms(arg))
        rep.ob("R9", f"{b.short}:currency-case-folded", ok, "the currency code is upper-cased before the ISO look-up" if ok else
               f"{b.short} looks the currency code up as written: a rates row (or a query) spelled in lower or mixed case is treated as an unknown currency and silently skipped",
               b.loc(t["sp"]), key=f"R9:{b.short}:currency-case")
    if not n:
        rep.note("R9: no ISO currency look-up by code found in cgt-money's parser/cache/loader (nothing to judge)")
    rep.count("R9_currency_lookups", n)


def run(ctx, rep):
    F = ctx.F
    currency_case(F, rep)
    folder_scan(F, rep)
    every_loaded_rate_applied(F, rep)
    conv = field_wise(F, rep)
    converter(F, rep, conv)
    loader(F, rep)
    rates_parser(F, rep)
    wiring(F, rep)
    # "an amount written without a currency code is sterling and is not converted" — also for a FEES/TAX amount that follows a
    # foreign-currency price on the same line: the consumers of the grammar build GBP for every amount without a code and keep the
    # written code otherwise (symbolic evaluation over all derivation trees, shared with C13-R6). A money consumer that leaves the
    # currency open for its caller to fill in with "the line's currency" converts `FEES 11.95` after `@ 150 USD` at the dollar rate
    # (seeded change C08-s9)
    if ctx.S is not None and "error" not in ctx.S["grammar"]:
        import rules.c13 as c13
        from grammar import Grammar
        from core import Report
        r2 = Report("tmp")
        c13.defaults(ctx.S, Grammar(ctx.S["grammar"]), r2)
        n = 0
        for o in r2.obligations:
            n += 1
            rep.ob("R9", "dsl:" + o["instance"], o["ok"], o["detail"], o["site"], key="R9:dsl:" + o["instance"])
        if n < 2:
            rep.unresolved("R9", "dsl-defaults", f"only {n} currency/clause defaults evaluated")
    else:
        rep.unresolved("R9", "grammar", "grammar facts unavailable")
