"""C10 — splits only rescale share counts (structural clauses)."""
from mir import Terms, parse_callee, show, op_place, op_const, place_proj, subterms, is_decimal_arith_assign, summary
from flow import root_of_operand
from roles import Roles, RULES, POOL, LOT, agg_fields, guards_of, truth, is_agg, sell_time_ratio
import panics as P

META = {
    "explanation": (
        "R1 (WHO): the function that handles SPLIT/UNSPLIT for the pool writes Section104Holding.quantity and nothing else of "
        "the model (never total_cost, never a Match, never a lot). R2 (SIB): SPLIT multiplies and UNSPLIT divides by the "
        "variant's own ratio, both in the pool handler and in the 30-day look-ahead's cumulative-ratio accumulator. R3 (unit "
        "discipline in the 30-day producer): sell-time quantity = min(remaining, available ÷ ratio); buy-time quantity = that × "
        "ratio; Match.quantity and `remaining −=` take the sell-time term, the future claim and the cost take the buy-time term. "
        "R4 (variant coverage): every function that walks the transaction slice, reads both Buy.amount and Sell.amount and keeps "
        "per-lot share counts across dates must also read Split.ratio and Unsplit.ratio. Does not compare with a rescaled ledger. R6: a function that re-writes the size of an acquisition lot re-writes every share counter booked against it too (a lot is restated whole or not at all). R7: every SPLIT/UNSPLIT line of a day is applied (shared with C01-R2). R8: some update of the look-ahead's ratio is reachable for lines dated on the sale's own date (known finding: every update lies behind days ≥ 1, so a sale-day SPLIT is ignored). R7 also (shared with C01-R2): within one date the SPLIT/UNSPLIT pass strictly follows the pooling of that date's purchases — applied line by line, a SPLIT written above a same-day BUY rescales the pool without that purchase (seeded changes C10-s9, C02-s9, C05-s9)."),
    "trusted_base": ["rust_decimal arithmetic", "rustc MIR + resolution"],
}


def _variant_arm_ops(F, b, tb):
    """(variant, kind, rhs-term, target-desc) for compound assignments inside switch arms on Operation"""
    out = []
    for i, t in b.calls():
        k = is_decimal_arith_assign(t["callee"])
        if not k:
            continue
        rhs = tb.operand(t["args"][1])
        variants = {x[2] for x in subterms(rhs) if isinstance(x, tuple) and len(x) == 3 and x[0] == "dc"}
        fields = [x[2] for x in subterms(rhs) if isinstance(x, tuple) and len(x) == 3 and x[0] == "field" and isinstance(x[2], str)]
        out.append((i, k, rhs, variants, fields, t))
    return out


def split_handler(R, rep):
    F = R.F
    ws = [w for w in R.field_writes(POOL, "quantity") if w[2] in ("MulAssign", "DivAssign")]
    hs = {(w[0].parent or w[0].id) for w in ws}
    if not hs:
        # …or through a helper that receives `&mut pool.quantity` and scales what it points to
        for b in F.user_bodies("cgt_core"):
            if "::matcher::" not in b.id:
                continue
            for i, t in b.calls():
                hb = F.bodies.get(t["callee"])
                if hb is None or hb.id == b.id:
                    continue
                for ai, a in enumerate(t["args"]):
                    pl = op_place(a)
                    if pl is None or R._ref_target(b, pl) != (POOL, "quantity"):
                        continue
                    for j, u in hb.calls():
                        if is_decimal_arith_assign(u["callee"]) in ("MulAssign", "DivAssign"):
                            tgt = root_of_operand(hb, u["args"][0])
                            if tgt and tgt[0] == ai + 1:
                                hs.add(b.parent or b.id)
    if len(hs) != 1:
        rep.unresolved("R1", "SPLITH", f"{len(hs)} functions scale pool.quantity")
        return None
    h = F.bodies[next(iter(hs))]
    fam = [h] + [F.bodies[c] for c in F.children(h.id)]
    # R1: writes nothing else
    other = []
    for adt, fields in ((POOL, ("total_cost", "ticker")), (LOT, ("consumed", "reserved", "in_pool", "cost_offset", "original_amount", "price", "expenses"))):
        for f in fields:
            for w in R.field_writes(adt, f, fam):
                other.append(f"{adt.split('::')[-1]}.{f}")
    builds_match = any(s["rv"]["k"] == "agg" and s["rv"]["adt"].endswith("models::Match") for x in fam for _, _, s in x.assigns())
    calls_ledger = [t["callee"] for x in fam for _, t in x.calls() if "AcquisitionLedger::" in t["callee"] and "get" not in t["callee"]]
    rep.ob("R1", f"{h.short}:writes-only-quantity", not other and not builds_match and not calls_ledger,
           "the split handler scales pool.quantity and touches nothing else" if not other and not builds_match and not calls_ledger else
           f"the split handler also writes {other} / builds a Match={builds_match} / calls {calls_ledger}: a split would create gain, loss or cost",
           h.loc(), key="R1:split-handler:writes")
    return h


def _ratio_alternatives(r):
    """for a cumulative-ratio term built functionally (φ of `prev × Split.ratio`, `prev ÷ Unsplit.ratio`, …):
    -> {variant: set of ops applied with that variant's ratio}"""
    out = {}
    alts = r[1] if isinstance(r, tuple) and r and r[0] == "phi" else [r]
    for a_ in alts:
        if isinstance(a_, tuple) and a_ and a_[0] == "*":
            for x in a_[1]:
                if isinstance(x, tuple) and x[0] == "field" and x[2] == "ratio" and isinstance(x[1], tuple) and x[1][0] == "dc":
                    out.setdefault(x[1][2], set()).add("mul")
        if isinstance(a_, tuple) and a_ and a_[0] == "/":
            num, den = a_[1], a_[2]
            if isinstance(den, tuple) and den[0] == "field" and den[2] == "ratio" and isinstance(den[1], tuple) and den[1][0] == "dc":
                out.setdefault(den[1][2], set()).add("div")
            for x in subterms(num):
                if isinstance(x, tuple) and len(x) == 3 and x[0] == "field" and x[2] == "ratio" and isinstance(x[1], tuple) and x[1][0] == "dc":
                    out.setdefault(x[1][2], set()).add("inverse-div")
    return out


def ratio_ops(R, rep, h):
    F = R.F
    sites = []
    if h is not None:
        sites.append(("pool handler", h))
    bnb, bsites = R.leg("BedAndBreakfast")
    # in-place accumulators (×= / ÷= through a &mut Decimal) in the producer or its helpers
    rg = R.region(bnb)
    acc_bodies = []
    for hb in rg.bodies.values():
        tb = R.terms(hb, 0)
        if any(k in ("MulAssign", "DivAssign") and "ratio" in fs for _, k, _, _, fs, _ in _variant_arm_ops(F, hb, tb)):
            acc_bodies.append(hb)
    for hb in acc_bodies:
        sites.append(("30-day ratio accumulator", hb))
    functional = None
    if not acc_bodies:
        # functional style: the ratio used by Match.quantity is itself a term over Split/Unsplit ratios
        for bb, term, site in bsites:
            st = sell_time_ratio(agg_fields(term)["quantity"])
            if st:
                functional = (_ratio_alternatives(st[2]), site, st[2])
    if len(sites) + (1 if functional else 0) < 2:
        rep.unresolved("R2", "ratio-sites", f"only {[s[0] for s in sites]} found (pool handler and look-ahead accumulator expected)")
    for label, b in sites:
        tb = R.terms(b, 0)
        seen = {}
        for i, k, rhs, variants, fields, t in _variant_arm_ops(F, b, tb):
            if k not in ("MulAssign", "DivAssign"):
                continue
            for v in variants:
                seen.setdefault(v, []).append((k, rhs, b.loc(t["sp"])))
        if not seen and label == "pool handler":
            # the handler may hand `&mut pool.quantity` to a helper that does the scaling (the look-ahead's accumulator reused):
            # the helper's compound assignments through that parameter are the handler's
            for i, t in b.calls():
                hb = F.bodies.get(t["callee"])
                if hb is None or hb.id == b.id:
                    continue
                for ai, a in enumerate(t["args"]):
                    pl = op_place(a)
                    if pl is None or R._ref_target(b, pl) != (POOL, "quantity"):
                        continue
                    htb = R.terms(hb, 0)
                    for j, k, rhs, variants, fields, u in _variant_arm_ops(F, hb, htb):
                        tgt = root_of_operand(hb, u["args"][0])
                        if k in ("MulAssign", "DivAssign") and tgt and tgt[0] == ai + 1:
                            for v in variants:
                                seen.setdefault(v, []).append((k, rhs, hb.loc(u["sp"])))
        for v, want in (("Split", "MulAssign"), ("Unsplit", "DivAssign")):
            got = seen.get(v, [])
            ok = len(got) == 1 and got[0][0] == want and isinstance(got[0][1], tuple) and got[0][1][0] == "field" and got[0][1][2] == "ratio" \
                and isinstance(got[0][1][1], tuple) and got[0][1][1][0] == "dc" and got[0][1][1][2] == v
            rep.ob("R2", f"{label}:{v}", ok,
                   f"{v.upper()} {'multiplies' if want == 'MulAssign' else 'divides'} by its own ratio" if ok else
                   f"{label}: Operation::{v} is applied as {[(g[0], show(g[1])[:40]) for g in got] or 'nothing'} — expected {want} by {v}.ratio",
                   got[0][2] if got else b.loc(), key=f"R2:{label}:{v}")
    if functional:
        alts, site, rterm = functional
        for v, want in (("Split", "mul"), ("Unsplit", "div")):
            got = alts.get(v, set())
            ok = got == {want}
            rep.ob("R2", f"30-day ratio accumulator:{v}", ok,
                   f"{v.upper()} {'multiplies' if want == 'mul' else 'divides'} the cumulative ratio by its own ratio" if ok else
                   f"30-day ratio accumulator: Operation::{v} is applied as {sorted(got) or 'nothing'} — expected {want} by {v}.ratio "
                   f"(cumulative ratio = {show(rterm)[:100]})", site, key=f"R2:30-day ratio accumulator:{v}")


def unit_discipline(R, rep):
    b, sites = R.leg("BedAndBreakfast")
    for bb, term, site in sites:
        f = agg_fields(term)
        q = f["quantity"]
        st = sell_time_ratio(q)
        ok = st is not None
        ratio = st[2] if st else None
        rep.ob("R3", "30-day:sell-time-qty=min(remaining, available÷ratio)", ok,
               "the matched quantity is expressed in the sale's units: availability at the acquisition is divided by the cumulative split ratio" if ok else
               f"Match.quantity is {show(q)[:100]} — availability is not rescaled to sell-time units", site, key="R3:bnb:sell-time")
        c = f["allowable_cost"]
        okc = ratio is not None and isinstance(c, tuple) and c[0] == "*" and _contains_product(c, [q, ratio])
        rep.ob("R3", "30-day:cost-uses-buy-time-qty", okc, "the cost is taken for quantity × ratio shares of the acquisition" if okc else
               f"30-day cost {show(c)[:80]} does not use Match.quantity × ratio", site, key="R3:bnb:cost-units")
    q = agg_fields(sites[0][1])["quantity"] if sites else None
    # the function that assembles the leg (builds the MatchResult) is handed Match.quantity — wherever in the producer's
    # region (the producer itself or a helper of it) that call sits
    rg = R.region(b, arg_depth=2)
    found = False
    for it in rg.items:
        cb = R.F.bodies.get(it["term"]["callee"])
        if cb is None or cb.id not in rg.bodies and cb.id not in R.helpers:
            continue
        builds = any(s["rv"]["k"] == "agg" and s["rv"]["adt"].endswith("matcher::MatchResult") for _, _, s in cb.assigns())
        if not builds:
            continue
        args = [rg.arg(it, k) for k in range(len(it["term"]["args"]))]
        found = True
        rep.ob("R3", "30-day:proceeds-use-sell-time-qty", q in args, "proceeds are apportioned on the sell-time quantity" if q in args else
               "the leg builder does not receive Match.quantity", it["body"].loc(it["term"]["sp"]), key="R3:bnb:proceeds-units")
    if not found and sites:
        # leg built inline: gross proceeds = q × price is checked by C04-R2
        pass


def _contains_product(term, factors):
    """term is a normalised product whose factor multiset contains the (flattened) factors"""
    from mir import mk_mul
    want = mk_mul(list(factors))
    wl = list(want[1]) if isinstance(want, tuple) and want[0] == "*" else [want]
    have = list(term[1]) if isinstance(term, tuple) and term[0] == "*" else [term]
    for w in wl:
        if w in have:
            have.remove(w)
        else:
            return False
    return True


def variant_coverage(R, rep):
    F = R.F
    n = 0
    for b in R.bodies:
        if b.kind not in ("fn", "method"):
            continue
        walks = any("[cgt_core::models::GbpTransaction]" in x.local_ty(k + 1) for x in [b] for k in range(x.argc))
        if not walks:
            continue
        # the pass = the function with the helpers it delegates to (per-day steps are often split out) and their closures
        rg = R.region(b)
        fam = [F.bodies[bid] for bid in rg.bodies]
        fam += [F.bodies[c_] for x in list(fam) for c_ in F.children(x.id) if c_ not in rg.bodies]
        reads = set()
        for x in fam:
            for i, si, s in x.assigns():
                for pl in _places_of(s):
                    pr = place_proj(pl)
                    for k, e in enumerate(pr):
                        if isinstance(e, dict) and e.get("adt") == "cgt_core::models::Operation" and "n" in e:
                            reads.add((e.get("v"), e["n"]))
        adds = any(it["term"]["callee"].endswith("AcquisitionLedger::add_acquisition") and (b.in_loop(it["root_bb"]) or it["body"].in_loop(it["bb"]))
                   for it in rg.items)
        if not (adds and ("Buy", "amount") in reads and ("Sell", "amount") in reads):
            continue
        n += 1
        has_split = ("Split", "ratio") in reads and ("Unsplit", "ratio") in reads
        # reading them through a callee that receives the transaction counts as well
        if not has_split:
            for i, t in b.calls():
                cb = F.bodies.get(t["callee"])
                if cb is not None and cb.id != b.id and any("GbpTransaction" in cb.local_ty(k + 1) for k in range(cb.argc)):
                    for _, _, s in cb.assigns():
                        for pl in _places_of(s):
                            for e in place_proj(pl):
                                if isinstance(e, dict) and e.get("adt") == "cgt_core::models::Operation" and e.get("n") == "ratio":
                                    reads.add((e.get("v"), "ratio"))
            has_split = ("Split", "ratio") in reads and ("Unsplit", "ratio") in reads
        rep.ob("R4", f"{b.short}:reads-split-ratio", has_split,
               "the lot model of this pass is rescaled by SPLIT/UNSPLIT" if has_split else
               f"{b.short} tracks held lots across the timeline from Buy.amount and Sell.amount but never reads Split.ratio/Unsplit.ratio: "
               "after a split its share counts are in the wrong units (a sale of post-split shares exhausts the lots early)",
               b.loc(), key=f"R4:{b.short}:ignores-splits")
    rep.count("lot_tracking_passes", n)
    if n < 1:
        rep.unresolved("R4", "passes", "no pass tracks lots from Buy/Sell amounts (the cost pre-pass is expected)")


def _places_of(s):
    out = []
    if "lhs" in s:
        out.append(s["lhs"])
    rv = s.get("rv", {})
    for key in ("op", "a", "b"):
        o = rv.get(key)
        p = op_place(o) if isinstance(o, dict) else None
        if p:
            out.append(p)
    if rv.get("k") in ("ref", "rawptr", "discr"):
        out.append(rv["p"])
    for o in rv.get("ops") or []:
        p = op_place(o)
        if p:
            out.append(p)
    return out


def run(ctx, rep):
    R = Roles(ctx.F)
    h = split_handler(R, rep)
    ratio_ops(R, rep, h)
    unit_discipline(R, rep)
    variant_coverage(R, rep)
    # a SPLIT/UNSPLIT rescales the shares of ITS security only: in the look-ahead every ratio update sits under the ticker guard
    # (shared with C02-R6 / C09-R2; seeded change C10-s4)
    import rules.c02 as c02
    c02.same_security(R, rep, "R5")
    lots_restated_whole(R, rep)
    lookahead_ratio_dates(R, rep, "R8", None)
    # every SPLIT/UNSPLIT line of a day is applied (shared with C01-R2 / C09-R8)
    import rules.c01 as c01
    c01.every_line_of_day(R, rep, "R7", only=("apply splits",))
    # a date's SPLIT/UNSPLIT lines are applied AFTER every purchase of that date has been pooled, as a separate pass: applied line by
    # line in file order, a SPLIT written above a same-day BUY rescales the pool without that purchase, the ledger no longer equals
    # its post-split twin and the result depends on the order of the two lines (shared with C01-R2; seeded changes C10-s9, C02-s9, C05-s9)
    phase_order(R, rep, "R7")


def phase_order(R, rep, rule, pairs=(("pool unmatched acquisitions", "apply splits"),)):
    import rules.c01 as c01
    from core import Report
    r2 = Report("tmp")
    c01.dayloop_order(R, r2)
    for o in r2.obligations:
        if (not o["ok"] and o["instance"].startswith("role:")) or pairs is None \
                or any(o["instance"] == f"dayloop:{a} ≺ {b}" for a, b in pairs):
            rep.ob(rule, o["instance"], o["ok"], o["detail"], o["site"], key=rule + ":" + o["instance"])


def lookahead_ratio_dates(R, rep, rule_sale_day="R8", rule_same_day=None):
    """The day loop applies a date's SPLIT/UNSPLIT lines AFTER that date's trades. The ratio by which the 30-day look-ahead rescales a
    candidate purchase therefore covers the splits dated from the sale's own date up to the day BEFORE the candidate. Two structural
    necessary conditions are decided here:
    R8 (C10) — some update of the look-ahead's ratio is reachable for lines dated ON the sale's date. If every update lies behind
    `days ≥ 1`, a SPLIT on the sale's date is never counted and the leg is matched in the wrong units.
    R7 (C06) — the ratio a candidate purchase is rescaled with is not the very accumulator that the SPLIT lines of the candidate's own
    date update line by line in the same loop; otherwise the leg depends on whether the SPLIT is written above or below the BUY."""
    import rules.c01 as c01
    import rules.c02 as c02
    from mir import parse_callee
    F = R.F
    b, sites = R.leg("BedAndBreakfast")
    tb = R.terms(b, 0)
    # the window term (num_days of candidate date − sale date), as in C01-R3
    wterm = None
    for i, t in b.calls():
        if parse_callee(t["callee"])[2] == "num_days":
            wterm = tb.call_term(t)
    if wterm is None and sites:
        for cond, val, s_ in guards_of(b, tb, sites[0][0]):
            for x in subterms(cond):
                if isinstance(x, tuple) and x and x[0] == "call" and parse_callee(x[1])[2] == "num_days" and wterm is None:
                    wterm = x
    upd = []
    for i, t in b.calls():
        k = is_decimal_arith_assign(t["callee"])
        cb = F.bodies.get(t["callee"])
        is_ratio = cb is not None and cb.crate == b.crate and cb.kind in ("fn", "method") and c02._touches_ratio(R, cb)
        inline_ratio = k in ("MulAssign", "DivAssign") and any(
            isinstance(x, tuple) and len(x) == 3 and x[0] == "field" and x[2] == "ratio" for a in t["args"][1:] for x in subterms(tb.operand(a)))
        if (is_ratio or inline_ratio) and b.in_loop(i):
            upd.append((i, t))
    if not upd or wterm is None:
        rep.note(f"{rule_sale_day}: no ratio update inside the look-ahead loop of {b.short} (or no day difference) — the dates covered by the ratio are not judged")
        return
    if rule_sale_day:
        los = []
        for i, t in upd:
            elo = -c01.INF
            for cond, val, s_ in guards_of(b, tb, i):
                iv = c01.interval_of(cond, truth(val), wterm)
                if iv is not None:
                    elo = max(elo, iv[0])
            los.append(elo)
        ok = any(lo < 1 for lo in los)
        rep.ob(rule_sale_day, "30-day:ratio-covers-sale-day", ok,
               "a SPLIT/UNSPLIT dated on the sale's own day can reach the look-ahead's ratio" if ok else
               "every update of the look-ahead's ratio lies behind `days ≥ 1`: a SPLIT/UNSPLIT on the sale's own date (which the day loop applies after that day's sales) "
               "is never counted, so a later purchase in post-split shares is matched one for one with pre-split shares sold",
               b.loc(upd[0][1]["sp"]), key=f"{rule_sale_day}:lookahead:sale-day-split-ignored")
    if rule_same_day and sites:
        q = agg_fields(sites[0][1])["quantity"]
        st = sell_time_ratio(q)
        ratio = st[2] if st else None
        same = False
        if isinstance(ratio, tuple) and ratio and ratio[0] == "var":
            for i, t in upd:
                terms = [tb.operand(a) for a in t["args"]]
                d = t.get("dest")
                dn = b.local_name(d["l"]) if d is not None and not d.get("p") and hasattr(b, "local_name") else None
                if any(isinstance(a, tuple) and a and a[0] == "var" and a[1] == ratio[1] for a in terms) or dn == ratio[1]:
                    same = True
        rep.ob(rule_same_day, "30-day:ratio-as-of-previous-day", not same,
               "the ratio used for a candidate purchase is not the accumulator its own date's SPLIT lines update" if not same else
               f"the look-ahead rescales a candidate purchase with `{ratio[1]}`, the accumulator that SPLIT/UNSPLIT lines update one line at a time in the same loop: "
               "a SPLIT dated on the purchase's own day counts if it is written above the BUY and not if below, while the day loop books the day's purchases before its splits",
               b.loc(upd[0][1]["sp"]), key=f"{rule_same_day}:lookahead:same-day-split-line-order")


def lots_restated_whole(R, rep, rule="R6"):
    """R6 (a lot is restated as a whole or not at all): a function that re-writes the size of an acquisition lot (any write to the
    field the availability accessor starts from, other than the lot's construction) re-writes every share counter booked against
    it as well. Size and counters are in one unit; rescaling `original_amount` at a SPLIT while `consumed` stays in pre-split
    shares makes a fully sold lot look half held, and a later capital return is apportioned to ghost shares (seeded change
    C10-s8). Expected count on today's tree: zero writes — the pre-pass does not rescale at all (known finding R4)."""
    import rules.c02 as c02
    from core import Report
    tmp = Report("tmp")
    c02.lot_accounting(R, tmp)
    lf = getattr(R, "_lot_fields", None)
    if not lf:
        rep.unresolved(rule, "LOT-FIELDS", "the share-count fields of the lot could not be determined")
        return
    size, counters = lf
    from roles import LOT
    bad = R.partial_restatements(LOT, size, counters)
    rep.ob(rule, "lot:restated-whole", not bad,
           f"no function re-writes a lot's size ({size}) without its counters ({counters})" if not bad else
           "; ".join(f"{b.short} re-writes {written} of a lot but not {missing}: what the lot says is still held changes by more than the ratio" for b, site, written, missing in bad[:3]),
           bad[0][1] if bad else "", key=f"{rule}:lot:partial-restatement" + (":" + bad[0][0].short if bad else ""))
    rep.count(f"{rule}_lot_share_fields", {"size": size, "counters": counters})


def controls(pctx, rep):
    from roles import Roles as _Roles
    F = pctx.F
    try:
        R = _Roles(F)
        bodies = [F.one("plot_rescale_partial"), F.one("plot_rescale_whole")]
        bad = R.partial_restatements("posctl::PLot", ["size"], ["used", "kept"], bodies)
        ok = [b.short.split("::")[-1] for b, _, _, _ in bad] == ["plot_rescale_partial"] and sorted(bad[0][3]) == ["kept", "used"]
        rep.control("R6:partial-restatement", ok, f"posctl: partial restatements = {[(b.short, m) for b, _, _, m in bad]} (expected plot_rescale_partial missing kept, used)")
    except Exception as e:
        rep.control("R6:partial-restatement", False, f"partial-restatement detector failed on posctl: {e}")
