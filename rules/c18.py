"""C18 — Schwab conversion keeps CGT-relevant rows and emits valid DSL (structural clauses)."""
import re

from mir import Terms, parse_callee, show, op_place, op_const, place_proj, subterms, subst, expand_closures
from flow import format_calls, template_text, root_of_operand, body_is_external, is_slice_sort, _const_through
from grammar import Grammar, Hole, tokenize, TokenMatcher
import rules.c14 as c14
import panics as P
from flow import site_is_external

META = {
    "engine": "mirfacts+srcfacts+rules",
    "engines": ["mirfacts", "srcfacts", "rules", "posctl"],
    "explanation": (
        "R1 (EXH): every match on the converter's action / parsed-row enums is exhaustive without a wildcard arm, so a new "
        "action cannot be dropped silently. R2 (per-arm accounting): in the row loop each Buy/Sell/RSU arm pushes exactly "
        "one output row on every non-error path, and the row's symbol/quantity/price/fees are rooted at that same input "
        "row (RSU: date and price at the awards lookup for the row's own date and symbol); Cancel Sell defers and the "
        "deferred pass removes at most one matching sell per cancel or warns; unknown rows push comment + warning + count; "
        "skipped rows are counted. R3 (output ⊆ grammar): the trade and dividend line templates (decoded from MIR), with "
        "the constant action/currency arguments of every call site, derive from grammar rule `transaction`; every line "
        "pushed to the output is produced by a trade/dividend/comment/header formatter. R4 (TAINT): text taken from the "
        "export reaches a comment line only through a line-break sanitiser inside the comment formatter (recognised "
        "idioms: replace / split with a pattern containing both \\n and \\r, a chars() filter/map on those, split_whitespace; "
        "`lines()` is not one — it leaves a lone \\r, which the grammar reads as a line break). R5: the "
        "output is sorted by a stable sort keyed by the row date. Does not decide row-order independence or chunking. R3 also: the keyword of a trade line agrees with the kind of the row, and the CLI prints nothing derived from the warnings to standard output. R2 also: the vector of output lines is never thinned (dedup/retain/…), also when it is filled through a helper. R3 also: an amount printed into an optional FEES/TAX clause is positive on the path that prints it (`> 0` guard, `Option::filter(|v| *v > 0)`, or abs) — the grammar's numbers carry no sign. R1 also: every action name the row classifier lists reaches the arm it is listed under (no guard arm above shadows a literal). R2 also: sibling parsed-row structures receive `symbol` through the same normalisation (trim/case), so rows joined by (date, symbol) meet. R6: no explicit may-panic call and no undischarged bounds/overflow assertion in converter code (shared with C15-R1/R2) — a row whose text makes the converter panic is neither converted, skipped nor surfaced."),
    # R6 is described in run(): no may-panic construct in converter code (shared with C15-R1/R2)
    "trusted_base": ["str::replace/lines/chars semantics", "Vec::sort_by_key is stable", "rustc MIR + resolution",
                     "precondition of the property: symbols are alphanumeric (symbols are not sanitised)"],
}

ROW_FIELDS = {
    "symbol": ("symbol",), "quantity": ("quantity",), "price": ("price", "fmv"), "expenses": ("fees_commissions", None),
    "date": ("date", "vest_date"), "amount": ("amount",),
}


def conv_bodies(F):
    return [b for b in F.bodies.values() if b.crate == "cgt_converter" and P.user_written(F, b)]


def exhaustive(F, rep):
    enums = {p: a for p, a in F.adts.items() if a["crate"] == "cgt_converter" and a["kind"] == "enum" and len(a["variants"]) >= 2}
    n = 0
    for b in conv_bodies(F):
        for i, t in b.terms_of_kind("switch"):
            p = op_place(t["discr"])
            if p is None:
                continue
            d = b.defs().get(p["l"], [])
            if not (len(d) == 1 and d[0][0] == "assign" and d[0][3]["rv"]["k"] == "discr"):
                continue
            if t.get("mac") or t.get("desugar"):
                pass
            src = d[0][3]["rv"]["p"]
            ety = _place_type(F, b, src)
            if ety not in enums:
                continue
            nv = len(enums[ety]["variants"])
            if len(t["targets"]) < max(2, (nv + 1) // 2):
                continue  # `matches!` / `if let` on one or two variants
            if (t.get("mac") or "").startswith("!core::macros::matches"):
                continue
            if len({tgt for _, tgt in t["targets"]}) == 1:
                continue  # drop elaboration: every variant goes to the same block
            tgts = {tgt for _, tgt in t["targets"]} | {t["otherwise"]}
            if all(b.term(x)["k"] in ("drop", "goto", "return", "unreachable", "resume") for x in tgts) and \
                    any(b.term(x)["k"] == "drop" and not b.stmts(x) for x in tgts) and not any(b.term(x)["k"] == "call" for x in tgts):
                continue  # drop elaboration of a partially moved enum at the end of a scope: the edges only drop what is left
            n += 1
            ok = b.term(t["otherwise"])["k"] == "unreachable" and len(t["targets"]) == nv
            rep.ob("R1", f"{b.short}:{ety.split('::')[-1]}", ok,
                   f"match on {ety.split('::')[-1]} lists all {nv} variants, no wildcard" if ok else
                   f"match on {ety.split('::')[-1]} covers {len(t['targets'])} of {nv} variants explicitly and has a default arm: "
                   "a new action would fall into it silently", b.loc(t["sp"]), key=f"R1:{b.short}:{ety.split('::')[-1]}")
    rep.count("exhaustive_matches_checked", n)
    if n < 3:
        rep.unresolved("R1", "matches", f"only {n} multi-arm matches on converter enums found")


def _place_type(F, b, place):
    ty = b.local_ty(place["l"])
    for e in place_proj(place):
        if e == "deref":
            ty = ty.lstrip("&").replace("mut ", "", 1).strip()
        elif isinstance(e, dict) and "f" in e and "adt" in e:
            adt = F.adts.get(e["adt"])
            if adt is None:
                return ""
            v = adt["variants"][0]
            if "v" in e:
                v = next((x for x in adt["variants"] if x["name"] == e["v"]), v)
            try:
                ty = v["fields"][e["f"]]["ty"]
            except IndexError:
                return ""
        elif isinstance(e, dict) and "dc" in e:
            pass
    ty = ty.lstrip("&").strip()
    if ty.startswith("mut "):
        ty = ty[4:]
    return ty.split("<")[0]


def row_loop_old(F):
    """the function that loops over parsed rows and pushes output rows (CgtTransaction aggregates)"""
    out = []
    for b in conv_bodies(F):
        aggs = [s for _, _, s in b.assigns() if s["rv"]["k"] == "agg" and s["rv"]["adt"].endswith("::CgtTransaction")]
        if len(aggs) >= 3 and b.loops():
            out.append(b)
    return out


def row_loops(F):
    """(body, header, blocks) of every loop that consumes parsed rows (`next()` on an owning iterator of the row item type)"""
    out = []
    for b in conv_bodies(F):
        for h, blks in b.loops():
            for x in blks:
                t = b.term(x)
                if t["k"] == "call" and parse_callee(t["callee"])[2] == "next":
                    aty = " ".join(t.get("aty") or [])
                    if "SchwabTransactionsItem" in aty and "IntoIter" in aty:
                        out.append((b, h, blks))
    if not out:
        # internal iteration: `rows.into_iter().try_for_each(|row| collector.accept(row))` — the closure is the loop body, one
        # call of it is one iteration (header None); `Ok(())` / `ControlFlow::Continue` / unit returned = next row
        for b in conv_bodies(F):
            tb = None
            for i, t in b.calls():
                if parse_callee(t["callee"])[2] not in ("try_for_each", "for_each") or len(t["args"]) < 2:
                    continue
                aty = " ".join(t.get("aty") or [])
                if "SchwabTransactionsItem" not in aty or "IntoIter" not in aty:
                    continue
                tb = tb or Terms(F, b, inline_depth=0)
                clo = tb.operand(t["args"][1])
                if isinstance(clo, tuple) and clo and clo[0] == "closure" and clo[1] in F.bodies:
                    cb = F.bodies[clo[1]]
                    out.append((cb, None, set(cb.reachable())))
    return out


def _row_kind_and_fields(row):
    """An output row says BUY or SELL either by its variant (`CgtTransaction::Buy {..}`) or by an enum-valued field of the row or
    of the struct it wraps (`CgtTransaction::Trade(CgtTrade { side: TradeSide::Buy, .. })`); the remaining fields are the row's
    data, wherever they sit. -> (kind or None, [(field name, term)])"""
    kind = row[2] if row[2] in ("Buy", "Sell") else None
    fields = []

    def walk(agg, top):
        nonlocal kind
        for fname, fterm in agg[3]:
            if isinstance(fterm, tuple) and fterm and fterm[0] == "agg" and fterm[2] in ("Buy", "Sell") and not fterm[3]:
                if kind is None:
                    kind = fterm[2]
                continue
            if isinstance(fterm, tuple) and fterm and fterm[0] == "agg" and fname.isdigit() and fterm[3] and not str(fterm[3][0][0]).isdigit():
                walk(fterm, False)       # the wrapped struct
                continue
            fields.append((fname, fterm))
    walk(row, True)
    return kind, fields


def arm_accounting(F, rep):
    """One iteration of the row loop is synthesised path by path (lib/effsyn.py) through the loop body and the converter
    helpers it calls — whether the arms push rows themselves, or return an outcome value that a recorder pushes."""
    from effsyn import EffSyn, TooManyPaths
    rl = row_loops(F)
    if len(rl) != 1:
        rep.unresolved("R2", "ROWLOOP", f"{len(rl)} loops consume the parsed rows")
        return
    b, header, blks = rl[0]
    rep.count("row_loop", b.short)
    # helpers worth following: those that can change the caller's state (`&mut` parameter) or that return a value wrapping an
    # output row; pure lookups (the awards lookup, parsers) stay opaque calls
    row_types = {"CgtTransaction"} | {p.split("::")[-1] for p, a in F.adts.items() if a["crate"] == "cgt_converter" and
                                      any("CgtTransaction" in f["ty"] for v in a["variants"] for f in v["fields"])}
    def helper_ok(hb):
        if hb.crate != "cgt_converter" or not P.user_written(F, hb):
            return False
        return any(hb.local_ty(k + 1).replace("'_ ", "").startswith("&mut") for k in range(hb.argc)) or any(rt in hb.ret for rt in row_types)
    es = EffSyn(F, tracked=lambda ty: "CgtTransaction" in ty or "alloc::string::String" in ty, place_type=_place_type, helper_ok=helper_ok)
    try:
        if header is not None:
            alts = es.run(b, start=header, stops=(header,))
        else:
            alts = es.run(b, start=0, stops=())
            for a in alts:
                if a.exit == "return":
                    r = a.ret
                    good = r is None or (isinstance(r, tuple) and r and (r[0] in ("unit",) or (r[0] == "agg" and r[2] in ("Ok", "Continue")) or
                                                                      (r[0] == "tuple" and not r[1])))
                    a.exit = "stop" if good else "error-return"
    except TooManyPaths as e:
        rep.unresolved("R2", "row-paths", str(e))
        return
    rep.count("row_loop_paths", len(alts))

    def label_of(a):
        item = tx = None
        for cond, val, ety, vn, *_x in a.guards:
            if ety and ety.endswith("::SchwabTransactionsItem") and item is None and isinstance(vn, str):
                item = vn
            if ety and ety.endswith("::SchwabTransaction") and tx is None and vn and val != "otherwise":
                tx = vn if isinstance(vn, str) else "|".join(x for x in vn if x)
        return tx or (item if item and item != "Known" else None)
    by_label = {}
    for a in alts:
        lb = label_of(a)
        if lb:
            by_label.setdefault(lb, []).append(a)
    if len([l for l in by_label if l != "Unknown"]) < 8:
        rep.unresolved("R2", "row-match", f"only {len(by_label)} row kinds are distinguished inside the row loop")
        return
    rows_of = lambda a: [p for p in a.pushes if "CgtTransaction" in p[4]]
    for label, paths in sorted(by_label.items()):
        names = label.split("|")
        cont = [a for a in paths if a.exit == "stop"]
        site = b.loc()
        trade_like = any(n in ("Buy", "Sell", "StockPlanActivity") for n in names)
        if trade_like:
            bad = [a for a in cont if len(rows_of(a)) != 1 or rows_of(a)[0][0] != "push"]
            ok = bool(cont) and not bad
            rep.ob("R2", f"{label}:one-row", ok, "exactly one output row is pushed on every path that continues the loop" if ok else
                   (f"a path through this arm continues the loop with {len(rows_of(bad[0]))} output rows pushed: the trade would vanish (or be doubled)"
                    if bad else "no path through this arm continues the loop"), rows_of(cont[0])[0][3] if cont and rows_of(cont[0]) else site,
                   key=f"R2:{label}:one-row")
            seen_rows = set()
            for a in cont:
                for kind, vec, row, rsite, ety in rows_of(a):
                    if kind != "push" or row in seen_rows:
                        continue
                    seen_rows.add(row)
                    if not (isinstance(row, tuple) and row and row[0] == "agg"):
                        rep.ob("R2", f"{label}:row-shape", False, f"pushed value is not a row literal: {show(row)[:80]}", rsite, key=f"R2:{label}:row-shape")
                        continue
                    want_variant = "Sell" if names == ["Sell"] else "Buy"
                    kind, fields = _row_kind_and_fields(row)
                    rep.ob("R2", f"{label}:row-kind", kind == want_variant,
                           f"{label} row becomes a {kind.upper()} line" if kind == want_variant else
                           f"{label} input row is emitted as CgtTransaction::{row[2]}" + (f" with side {kind}" if kind not in (row[2], None) else ""),
                           rsite, key=f"R2:{label}:row-kind")
                    for fname, fterm in fields:
                        if fname == "comment":
                            continue
                        okf, why = _field_prov(fname, fterm, names)
                        rep.ob("R2", f"{label}:{fname}", okf, why, rsite, key=f"R2:{label}:{fname}")
        elif names == ["NonCgt"] or "StockSplit" in names:
            inc = bool(cont) and all(any("skip" in show(c_[0]) for c_ in a.counts) for a in cont)
            rep.ob("R2", f"{label}:counted", inc, "skipped row is counted" if inc else
                   f"{label} rows are dropped without incrementing the skipped count", site, key=f"R2:{label}:counted")
    # dividends: amount from the row, withholding taken (consumed) from the first-pass map under the row's own (date, symbol)
    seen_div = set()
    for a in alts:
        for kind, vec, row, rsite, ety in rows_of(a):
            if kind == "push" and _is_variant(row, "Dividend") and row not in seen_div:
                seen_div.add(row)
                f = dict(row[3])
                tax = f.get("tax")
                amt = f.get("amount")
                taken = [x for x in subterms(tax) if isinstance(x, tuple) and x and x[0] == "call" and ("HashMap" in x[1] or "BTreeMap" in x[1])]
                consumed = any(parse_callee(x[1])[2] in ("remove", "remove_entry") for x in taken)
                key_ok = any(".date" in show(x[2][1], 0) and ".symbol" in show(x[2][1], 0) for x in taken if len(x[2]) == 2)
                rep.ob("R2", "dividend:withholding-consumed-once", consumed and key_ok,
                       "same-day withholding is removed from the map when it is attached to a dividend row (emitted at most once), keyed by the row's date and symbol"
                       if consumed and key_ok else
                       f"the dividend's tax is {show(tax)[:70]}: the withholding entry is not consumed (or not keyed by the row's date+symbol), "
                       "so several dividend rows of one symbol/date each carry the full withholding and the total is inflated",
                       rsite, key="R2:dividend:withholding-once")
                a_ok = any(isinstance(x, tuple) and x and x[0] == "call" and parse_callee(x[1])[2] == "abs" for x in subterms(amt)) and "amount" in show(amt, 0)
                rep.ob("R2", "dividend:amount-from-row", a_ok, "dividend total is the row's own |Amount|" if a_ok else f"dividend amount is {show(amt)[:60]}",
                       rsite, key="R2:dividend:amount")
    if not seen_div:
        rep.unresolved("R2", "dividend-rows", "no Dividend row is pushed by the row loop")
    # first pass: withholdings accumulate |amount| under (date, symbol)
    from rules.c08 import _R
    # (for an internally iterated row loop the first pass sits in the function that owns the closure)
    pass_root = F.bodies[b.parent] if header is None and b.parent in F.bodies else b
    rg = _R(F).region(pass_root, depth=2 if header is None else 1)
    acc_ok = False
    for it in rg.items:
        u = it["term"]
        if is_dec_add(u["callee"]):
            rhs = it["tb"].operand(u["args"][1])
            if any(isinstance(x, tuple) and x and x[0] == "call" and parse_callee(x[1])[2] == "abs" for x in subterms(rhs)):
                acc_ok = True
    rep.ob("R2", "withholding:accumulated", acc_ok, "withholding rows are summed (absolute value) per key in the first pass" if acc_ok else
           "no accumulation of withholding amounts found", b.loc(), key="R2:withholding:accumulate")
    # rows surfaced as comments (unknown actions, unsupported splits): comment + count; unknown rows also warn
    def comment_rows(a):
        out = []
        for kind, vec, row, rsite, ety in rows_of(a):
            if kind == "push" and _is_variant(row, "Comment"):
                out.append((row, rsite))
            if kind == "extend" and any(_is_variant(x, "Comment") for x in subterms(expand_closures(F, row))):
                out.append((row, rsite))
        return out
    com_paths = [a for a in alts if a.exit == "stop" and comment_rows(a)]
    n_sites = len({rs for a in com_paths for _, rs in comment_rows(a)})
    rep.ob("R2", "unknown/unsupported→comment", len({label_of(a) for a in com_paths}) >= 2,
           f"{len({label_of(a) for a in com_paths})} kinds of rows are surfaced as comments" if len({label_of(a) for a in com_paths}) >= 2 else
           "unknown or unsupported rows are no longer surfaced as comments", b.loc(), key="R2:unknown:comment")
    for lb in sorted({label_of(a) for a in com_paths}):
        ps = [a for a in com_paths if label_of(a) == lb]
        has_count = all(any("skip" in show(c_[0]) for c_ in a.counts) for a in ps)
        rep.ob("R2", f"comment@{lb}:counted", has_count,
               "row surfaced as a comment is also counted as skipped" if has_count else "comment row is not counted as skipped",
               comment_rows(ps[0])[0][1], key="R2:comment:counted")
    unk = [a for a in alts if a.exit == "stop" and label_of(a) == "Unknown"]
    warned = bool(unk) and all(any("String" in p[4] and "CgtTransaction" not in p[4] for p in a.pushes) for a in unk)
    rep.ob("R2", "unknown:warned", warned, "an unknown action produces a warning" if warned else
           "an unknown action is not reported in the warnings", b.loc(), key="R2:unknown:warning")
    # deferred cancellations
    for cb in conv_bodies(F):
        rm = [(j, u) for j, u in cb.calls() if u["callee"].endswith("Vec::<T, A>::remove")]
        if not rm or not cb.loops():
            continue
        ctb = Terms(F, cb, inline_depth=0)
        for j, u in rm:
            idx = ctb.operand(u["args"][1])
            from_pos = any(isinstance(x, tuple) and x and x[0] == "call" and parse_callee(x[1])[2] == "position" for x in subterms(idx))
            in_loop_once = sum(1 for jj, uu in rm if jj in {x for h, bl in cb.loops() for x in bl}) == 1
            rep.ob("R2", f"{cb.short}:remove-one", from_pos and in_loop_once,
                   "each cancellation removes exactly the first matching sell (position → remove)" if from_pos and in_loop_once else
                   f"cancellation removal is not `position(..)` → single `remove(pos)`: {show(idx)[:60]}", cb.loc(u["sp"]),
                   key=f"R2:{cb.short}:remove-one")
            # the else branch warns
            warns = [jj for jj, uu in cb.calls() if parse_callee(uu["callee"])[2] == "push" and "String" in " ".join(uu.get("aty") or [])]
            rep.ob("R2", f"{cb.short}:unmatched-warns", bool(warns), "an unmatched cancellation produces a warning" if warns else
                   "an unmatched Cancel Sell is dropped silently", cb.loc(), key=f"R2:{cb.short}:unmatched-warns")
            # predicate: each of date, symbol, quantity, price of the row is compared with the SAME field of the cancellation
            # (inside the `position` closure or a helper it calls)
            for c in F.children(cb.id):
                ccb = F.bodies[c]
                is_pred = any(parse_callee(uu["callee"])[2] == "position" and _closure_arg_is(cb, uu, c) for jj, uu in cb.calls())
                if not is_pred:
                    continue
                crg = _R(F).region(ccb, depth=1)
                # captured operands (Rust 2021 captures the individual fields of `cancel`)
                caps = []
                for pi, psi, ps in cb.assigns():
                    if ps["rv"]["k"] == "closure" and ps["rv"]["id"] == c:
                        caps = [ctb.operand(o) for o in ps["rv"]["ops"]]
                keys = set()
                for ex in crg.expansions:
                    hb, ht, conv = ex["body"], ex["tb"], ex["conv"]
                    conds = [ht.operand(hb.term(s_)["discr"]) for s_ in hb.reachable() if hb.term(s_)["k"] == "switch"] + [ht.local(0)]
                    for cnd in conds:
                        for x in subterms(conv(cnd)):
                            if isinstance(x, tuple) and x and x[0] == "cmp" and x[1] == "Eq" and x[2] != x[3]:
                                l, r_ = _subst_caps(x[2], caps), _subst_caps(x[3], caps)
                                if _side(x[2]) != _side(x[3]):   # one side from the cancellation, the other from the row
                                    keys |= (_field_names(l) & _field_names(r_)) & {"date", "symbol", "quantity", "price"}
                need = {"date", "symbol", "quantity", "price"}
                rep.ob("R2", f"{cb.short}:match-key", need <= keys,
                       "a cancellation matches a sell on date, symbol, quantity and price" if need <= keys else
                       f"cancellation compares only {sorted(keys)} between the cancel and the sell: it can remove a different sell", ccb.loc(),
                       key=f"R2:{cb.short}:match-key")


def _closure_arg_is(b, call, cid):
    from rules.c16 import _closure_of
    return any(_closure_of(b, a) == cid for a in call["args"][1:])


def _subst_caps(t, caps):
    def sub(x):
        if not isinstance(x, tuple) or not x:
            return x
        if x[0] == "field" and isinstance(x[1], tuple) and x[1] and x[1][0] == "param" and x[1][1] == 0:
            try:
                return caps[int(x[2])]
            except (ValueError, IndexError):
                return x
        return tuple(sub(y) if isinstance(y, tuple) else y for y in x)
    return sub(t)


def _field_names(t):
    return {y[2] for y in subterms(t) if isinstance(y, tuple) and len(y) == 3 and y[0] == "field" and isinstance(y[2], str)}


def _side(t):
    """which closure-level value a term is rooted at: 'env' (captured cancellation) or 'row' (the element under test)"""
    for y in subterms(t):
        if isinstance(y, tuple) and y and y[0] == "param":
            return "env" if y[1] == 0 else "row"
    return None


def c18_upvar(t):
    """True if the term is rooted at the closure environment (a captured value)"""
    for y in subterms(t):
        if isinstance(y, tuple) and len(y) == 3 and y[0] == "field" and isinstance(y[1], tuple) and y[1] and y[1][0] == "param" and y[1][1] == 0:
            return True
    return False


def is_dec_add(callee):
    from mir import is_decimal_arith_assign
    return is_decimal_arith_assign(callee) == "AddAssign"


def _first_sp(b, bb):
    for s in b.stmts(bb):
        if "sp" in s:
            return s["sp"]
    return b.term(bb).get("sp")


def _is_variant(t, name):
    return isinstance(t, tuple) and t and t[0] == "agg" and t[2] == name


def _counter_increments(b):
    """blocks that increment a usize local named like a skipped counter"""
    out = set()
    for i, si, s in b.assigns():
        rv = s["rv"]
        if rv["k"] == "bin" and rv["op"] == "AddWithOverflow":
            p = op_place(rv["a"])
            if p is not None:
                l = P.named_root(b, rv["a"])
                if l is not None and "skip" in (b.local_name(l) or ""):
                    out.add(i)
    return out


def _same_arm(b, bb):
    """blocks sharing the innermost switch-arm with bb"""
    best = None
    for s in b.reachable():
        t = b.term(s)
        if t["k"] == "switch" and len(t["targets"]) >= 2:
            for tgt in b.succ(s):
                if b.dominates(tgt, bb):
                    arm = {x for x in b.reach_from(tgt) if b.dominates(tgt, x)}
                    if best is None or len(arm) < len(best):
                        best = arm
    return best or set()


def _field_prov(fname, term, arm_names):
    allowed = ROW_FIELDS.get(fname)
    if allowed is None:
        return True, f"{fname}: not a tracked field"
    names = [x[2] for x in subterms(term) if isinstance(x, tuple) and len(x) == 3 and x[0] == "field" and isinstance(x[2], str)]
    rsu = "StockPlanActivity" in arm_names
    if fname == "expenses":
        if term == ("const", "Decimal::ZERO"):
            return True, "expenses: zero"
        ok = "fees_commissions" in names
        return ok, "expenses come from the row's own fees" if ok else f"expenses are {show(term)[:60]}, not the row's `Fees & Comm`"
    if rsu and fname in ("date", "price"):
        want = "vest_date" if fname == "date" else "fmv"
        via = any(isinstance(x, tuple) and x and x[0] == "call" and x[1].endswith("AwardsData::get_fmv") for x in subterms(term))
        ok = want in names and via
        return ok, (f"RSU {fname} is the awards lookup's {want}" if ok else f"RSU {fname} is {show(term)[:70]}, not the awards lookup's {want}")
    ok = any(a in names for a in allowed if a) and not any(n in names for n in _others(fname))
    return ok, (f"{fname} is copied from the same input row" if ok else f"{fname} is {show(term)[:70]} — not the row's own {fname}")


def _others(fname):
    swap = {"quantity": ("price", "amount"), "price": ("quantity", "amount"), "symbol": (), "date": (), "amount": ()}
    return swap.get(fname, ())


# ----------------------------------------------------------------------------- output lines

def line_formatters(F):
    """converter functions returning a String whose every possible value (symbolic string synthesis over the function and its
    helpers: templates, push_str/push, `&mut String` helpers, loops abstracted) has a recognisable line shape"""
    from strsyn import StrSyn, NotSynthesisable
    out = {}
    syn = StrSyn(F)
    for b in conv_bodies(F):
        if b.kind != "fn" or b.ret != "alloc::string::String":
            continue
        try:
            res = syn.returns(b)
        except NotSynthesisable:
            continue
        alts, seen = [], set()
        for r in res:
            if r["parts"] is None:
                continue
            parts = []
            for p in r["parts"]:        # adjacent literals are one piece of text
                if p[0] == "lit" and parts and parts[-1][0] == "lit":
                    parts[-1] = ("lit", parts[-1][1] + p[1])
                elif not (p[0] == "lit" and p[1] == ""):
                    parts.append(p)
            key = tuple(p[:2] for p in parts)
            if key not in seen:
                seen.add(key)
                alts.append(dict(parts=parts, site=b.loc(), guards=r["guards"]))
        if not alts:
            continue
        txts = [template_text(a["parts"]) or "" for a in alts]
        kind = None
        if all(t.startswith("# ") for t in txts):
            kind = "comment"
        elif any(" @ " in t for t in txts):
            kind = "trade"
        elif any("DIVIDEND" in t.upper() for t in txts):
            kind = "dividend"
        if kind:
            alts.sort(key=lambda a: len(a["parts"]))
            out[b.id] = (kind, b, Terms(F, b, inline_depth=0), alts)
    return out


def _clause_amount_signs(rep, fb, alts):
    """R3 (every emitted line is a DSL sentence): the grammar's numbers carry no sign, so an amount printed into an OPTIONAL clause
    (FEES / TAX) must be positive on the path that prints it — the clause's alternative stands under `amount > 0`. Under
    `amount != 0` a negative fee of the export (`-$0.05`, legal there) is printed as `FEES -0.05`, which the DSL parser rejects
    for the whole file (seeded change C18-s7)."""
    if len(alts) < 2:
        return
    base = alts[0]["parts"]
    for k, alt in enumerate(alts[1:], 1):
        extra = alt["parts"][len(base):] if [p[:2] for p in alt["parts"][:len(base)]] == [p[:2] for p in base] else None
        if not extra or not any(p[0] == "arg" for p in extra):
            continue
        kw = next((p[1].strip() for p in extra if p[0] == "lit" and p[1].strip()), "clause")
        signed = False
        for cond, val in alt["guards"]:
            if not (isinstance(cond, tuple) and cond and cond[0] == "cmp"):
                continue
            op, l, r = cond[1], cond[2], cond[3]
            zl, zr = show(l).endswith("ZERO") or l == ("int", 0), show(r).endswith("ZERO") or r == ("int", 0)
            tv = val != "0"
            if zr and ((op == "Gt" and tv) or (op == "Le" and not tv)):
                signed = True
            if zl and ((op == "Lt" and tv) or (op == "Ge" and not tv)):
                signed = True
        # `amount.filter(|v| *v > ZERO)` … Some(v): the predicate is the sign test
        for cond, val in alt["guards"]:
            if not (isinstance(cond, tuple) and cond and cond[0] == "discr" and val == "1"):
                continue
            for x in subterms(cond):
                if isinstance(x, tuple) and x and x[0] == "call" and parse_callee(x[1])[2] == "filter" and len(x[2]) == 2 and isinstance(x[2][1], tuple) \
                        and x[2][1] and x[2][1][0] == "closure" and x[2][1][1] in _F[0].bodies:
                    from mir import closure_summary
                    sm = closure_summary(_F[0], x[2][1][1], 0)
                    for y in subterms(sm) if sm is not None else ():
                        if isinstance(y, tuple) and y and y[0] == "cmp" and y[1] == "Gt" and (show(y[3]).endswith("ZERO") or y[3] == ("int", 0)):
                            signed = True
        if not signed and any("abs(" in show(p[2]) for p in extra if p[0] == "arg" and len(p) > 2 and isinstance(p[2], tuple)):
            signed = True
        key = f"R3:{fb.short}:{kw}:clause-sign"
        if key in _SEEN_SIGN:
            continue
        _SEEN_SIGN.add(key)
        rep.ob("R3", f"{fb.short}:{kw}:amount>0", signed, f"the {kw} clause is printed only for a positive amount" if signed else
               f"`{fb.short}` prints the {kw} clause without requiring the amount to be positive: a negative amount gives `{kw} -…`, which is not a number of the "
               "DSL grammar — the whole converted file is rejected", alt.get("site", fb.loc()), key=key)


_SEEN_SIGN = set()
_F = [None]


def output_grammar(ctx, rep):
    _SEEN_SIGN.clear()
    _F[0] = ctx.F
    F, S = ctx.F, ctx.S
    lf = line_formatters(F)
    rep.count("line_formatters", {k.split("::")[-1]: v[0] for k, v in lf.items()})
    if S is None or "error" in S["grammar"]:
        rep.unresolved("R3", "grammar", "grammar facts unavailable")
        return lf
    g = Grammar(S["grammar"])
    tm = TokenMatcher(g)
    kinds = {v[0] for v in lf.values()}
    for need in ("trade", "dividend", "comment"):
        if need not in kinds:
            rep.unresolved("R3", need, f"no {need}-line formatter found in cgt_converter")
    for fid, (kind, fb, ftb, fcs) in lf.items():
        if kind == "comment":
            continue
        sites = [(cb, i, t) for cb, i, t in F.call_sites(lambda c, fid=fid: c == fid) if P.user_written(F, cb)]
        if not sites:
            rep.unresolved("R3", fb.short, "line formatter is never called")
        for cb, i, t in sites:
            ctb = Terms(F, cb, inline_depth=0)
            args0 = [ctb.operand(a) for a in t["args"]]
            # an argument computed by a function that returns one of finitely many constant strings (`side.keyword()` →
            # "BUY" | "SELL") stands for each of them in turn
            arg_sets = [[args0]]
            for ai, a in enumerate(args0):
                cs = _const_str_set(F, a)
                if cs and len(cs) <= 4:
                    arg_sets = [[al[0][:ai] + [("str", s)] + al[0][ai + 1:]] for al in arg_sets for s in cs]
            if kind == "trade":
                _row_kind_printed(F, rep, fb, cb, t, args0)
            _clause_amount_signs(rep, fb, fcs)
            for args, k, alt in [(al[0], k, alt) for al in arg_sets for k, alt in enumerate(fcs)]:       # every string the formatter can return is one whole line
                label = "base" if k == 0 else "with-clause"
                parts = _subst_parts(F, fb, alt, args)
                toks, glued = tokenize(parts)
                txt = " ".join(x if isinstance(x, str) else "{" + x.kind + "}" for x in toks)
                bad = [h for h in toks if isinstance(h, Hole) and h.kind in ("text", "param")]
                trees = [] if (glued or bad) else tm.match_rule("transaction", toks)
                ok = bool(trees)
                rep.ob("R3", f"{fb.short}@{cb.short}:{txt}"[:150], ok,
                       "line derives from grammar rule `transaction`" if ok else
                       f"converter line `{txt}` is not a sentence of the DSL grammar" + (f" ({bad[0].label})" if bad else ""),
                       cb.loc(t["sp"]), key=f"R3:{fb.short}:{label}:not-derivable")
    return lf


def _variant_const_map(F, f):
    """f maps the variants of its (enum) argument to constant strs: -> {variant name: str} or None"""
    if len(f.blocks) > 30 or f.argc < 1:
        return None
    tb = Terms(F, f, inline_depth=0)
    for s in f.reachable():
        t = f.term(s)
        if t["k"] != "switch":
            continue
        p = op_place(t["discr"])
        d = f.defs().get(p["l"], []) if p is not None else []
        if not (len(d) == 1 and d[0][0] == "assign" and d[0][3]["rv"]["k"] == "discr"):
            continue
        ety = _place_type(F, f, d[0][3]["rv"]["p"])
        adt = F.adts.get(ety)
        if not adt:
            continue
        names = [v["name"] for v in adt["variants"]]
        out = {}
        for v, tgt in t["targets"]:
            others = set()
            for v2, t2 in t["targets"]:
                if t2 != tgt:
                    others |= f.reach_from(t2)
            only = (f.reach_from(tgt) - others) | {tgt}
            vals = set()
            for i, si, st in f.assigns():
                if i in only and st["lhs"]["l"] == 0 and not place_proj(st["lhs"]):
                    k = op_const(st["rv"].get("op", {})) if st["rv"]["k"] == "use" else None
                    if k is not None and "str" in k:
                        vals.add(k["str"])
                    else:
                        vt = tb.rvalue(st["rv"])
                        while isinstance(vt, tuple) and vt and vt[0] in ("ref", "deref") and isinstance(vt[-1], tuple):
                            vt = vt[-1]
                        if isinstance(vt, tuple) and vt and vt[0] == "str":
                            vals.add(vt[1])
            if len(vals) == 1 and v.isdigit() and int(v) < len(names):
                out[names[int(v)]] = next(iter(vals))
        if out:
            return out
    return None


def _row_kind_printed(F, rep, fb, cb, t, args):
    """R3 (the line says what the row is): at every call of the trade-line formatter the action keyword agrees with the kind of the
    row the other arguments are taken from — a constant next to fields of `CgtTransaction::Sell {..}` must be "SELL"; a keyword
    computed from the row's side (`side.keyword()`) must map Buy to "BUY" and Sell to "SELL"."""
    variants = {x[2] for a in args for x in subterms(a) if isinstance(x, tuple) and len(x) == 3 and x[0] == "dc" and x[2] in ("Buy", "Sell")}
    for a in args:
        if isinstance(a, tuple) and a and a[0] == "str" and a[1].upper() in ("BUY", "SELL") and len(variants) == 1:
            v = next(iter(variants))
            ok = a[1].upper() == v.upper()
            rep.ob("R3", f"{cb.short}:{v}-row-keyword", ok, f"a {v} row is written with the keyword {a[1]}" if ok else
                   f"a {v} row is written with the keyword `{a[1]}`: purchases and disposals are swapped in the output", cb.loc(t["sp"]),
                   key=f"R3:{cb.short}:{v}:keyword")
        if isinstance(a, tuple) and a and a[0] == "call" and a[1] in F.bodies and _const_str_set(F, a):
            vm = _variant_const_map(F, F.bodies[a[1]])
            if vm:
                for v, s in sorted(vm.items()):
                    if v in ("Buy", "Sell"):
                        ok = s.upper() == v.upper()
                        rep.ob("R3", f"{F.bodies[a[1]].short}:{v}-keyword", ok, f"side {v} is written as {s}" if ok else
                               f"side {v} is written with the keyword `{s}`: purchases and disposals are swapped in the output",
                               F.bodies[a[1]].loc(), key=f"R3:{F.bodies[a[1]].short}:{v}:keyword")


def _const_str_set(F, a):
    """the constant strings a term can be when it is a call of a workspace function whose every return is a constant str"""
    from mir import summary
    if not (isinstance(a, tuple) and a and a[0] == "call" and a[1] in F.bodies):
        return None
    r = summary(F, a[1], 0)
    alts = r[1] if isinstance(r, tuple) and r and r[0] == "phi" else (r,)
    out = []
    for x in alts:
        while isinstance(x, tuple) and x and x[0] in ("ref", "deref") and isinstance(x[-1], tuple):
            x = x[-1]
        if isinstance(x, tuple) and x and x[0] == "str" and isinstance(x[1], str):
            out.append(x[1])
        else:
            return None
    return sorted(set(out)) or None


def _subst_parts(F, fb, fc, args):
    out = []
    if fc["parts"] is None:
        return [Hole("text", None, "undecodable template")]
    for p in fc["parts"]:
        if p[0] == "lit":
            out.append(p[1])
            continue
        for h in c14.hole_of(F, fb, p):
            if isinstance(h, Hole) and h.kind == "param":
                a = args[h.term[1]] if h.term[1] < len(args) else None
                if isinstance(a, tuple) and a and a[0] == "str":
                    out.append(a[1])
                elif isinstance(a, tuple) and a and a[0] == "field" and a[2] in ("symbol", "ticker"):
                    out.append(Hole("ticker", a, "symbol"))
                else:
                    out.append(Hole("text", a, f"parameter `{h.label}` = {show(a)[:40]}"))
            elif isinstance(h, Hole) and h.term is not None:
                out.append(Hole(h.kind, subst(h.term, args), h.label))
            else:
                out.append(h)
    return out


def _assembled_output(F, rep, b, tb, lf, headers):
    """The output is not pushed line by line but assembled by an iterator expression that is collected and joined
    (`once(header).chain(rows.iter().flat_map(Row::to_lines)).collect().join("\n")`): every String the expression can yield must
    come from a line formatter or the header — directly, or through a function mapped over the rows whose own Strings do.
    Returns the number of line producers found (0 when this spelling is not present)."""
    joins = [(i, t) for i, t in b.calls() if parse_callee(t["callee"])[2] in ("join", "concat") and t["args"]]
    n = 0
    for i, t in joins:
        recv = tb.operand(t["args"][0])
        direct = [x[1] for x in subterms(recv) if isinstance(x, tuple) and x and x[0] == "call" and x[1] in F.bodies and F.bodies[x[1]].ret == "alloc::string::String"]
        mapped = [x[1] for x in subterms(recv) if isinstance(x, tuple) and x and x[0] == "fn" and x[1] in F.bodies]
        if not any(p in lf or p in headers for p in direct + mapped) and not mapped:
            continue
        for pid in direct:
            n += 1
            ok = pid in lf or pid in headers
            rep.ob("R3", f"convert:assembled:{pid[-40:]}", ok, f"output text produced by {pid.split('::')[-1]}" if ok else
                   f"`{pid.split('::')[-1]}` contributes text to the DSL output but is not a line formatter", b.loc(t["sp"]), key=f"R3:convert:raw-line:{pid}")
        for fid in mapped:
            fb = F.bodies[fid]
            if fb.ret == "alloc::string::String":
                n += 1
                ok = fid in lf or fid in headers
                rep.ob("R3", f"convert:assembled:{fid[-40:]}", ok, f"output lines produced by {fid.split('::')[-1]}" if ok else
                       f"`{fid.split('::')[-1]}` is mapped over the rows but is not a line formatter", b.loc(t["sp"]), key=f"R3:convert:raw-line:{fid}")
                continue
            if "String" not in fb.ret:
                continue
            fam = [fb] + [F.bodies[x] for x in F.children(fb.id)]
            for x in fam:
                xt = None
                for j, u in x.calls():
                    cal = u["callee"]
                    hb = F.bodies.get(cal)
                    items = [cal] if hb is not None and hb.ret == "alloc::string::String" else []
                    xt = xt or Terms(F, x, inline_depth=0)
                    for a in u["args"]:
                        at = xt.operand(a)
                        items += [y[1] for y in subterms(at) if isinstance(y, tuple) and y and y[0] == "fn" and y[1] in F.bodies and F.bodies[y[1]].ret == "alloc::string::String"]
                    for pid in items:
                        n += 1
                        ok = pid in lf or pid in headers
                        rep.ob("R3", f"{fb.short}:line:{pid[-40:]}", ok, f"row line produced by {pid.split('::')[-1]}" if ok else
                               f"`{pid.split('::')[-1]}` produces an output line but is not a line formatter", x.loc(u["sp"]), key=f"R3:convert:raw-line:{pid}")
                    raw = parse_callee(cal)[2] in ("format", "to_string", "to_owned", "from", "into") and "String" in " ".join(u.get("aty") or []) + cal and hb is None \
                        and not site_is_external(x, u) and cal.startswith(("alloc::fmt::format", "alloc::string", "<alloc::string", "<str as", "alloc::str"))
                    if raw:
                        n += 1
                        rep.ob("R3", f"{fb.short}:raw-string", False, f"`{fb.short}` builds an output line itself ({cal.split('::')[-1]}) instead of using a line formatter",
                               x.loc(u["sp"]), key=f"R3:convert:raw-line:{fb.short}")
    return n


def _closure_feeds_covered(F, hb, x, covered):
    """x is a closure of the header builder whose value (`cond.then(|| format!(..))`) is an element of a collection that is wholly
    passed through the comment formatter: the closure id occurs in the receiver term of the covering map"""
    if x.kind != "closure":
        return False
    return bool(getattr(hb, "_covered_recv", None)) and any(isinstance(y, tuple) and y and y[0] == "closure" and y[1] == x.id for r in hb._covered_recv for y in subterms(r))


def output_pushes(F, rep, lf):
    """every line pushed to the output of convert() comes from a line formatter or the header"""
    conv = [b for b in conv_bodies(F) if b.id.endswith("::convert") and "BrokerConverter" in b.id]
    if len(conv) != 1:
        rep.unresolved("R3", "CONVERT", f"{len(conv)} BrokerConverter::convert impls")
        return
    b = conv[0]
    tb = Terms(F, b, inline_depth=0)
    headers = set()
    comment_ids = {k for k, v in lf.items() if v[0] == "comment"}
    for hb in conv_bodies(F):
        if hb.kind == "fn" and hb.ret == "alloc::string::String" and hb.id not in lf:
            fam = [hb] + [F.bodies[x] for x in F.children(hb.id)]
            ncf = sum(1 for x in fam for _, t in x.calls() if t["callee"] in comment_ids)
            # a header builder wraps its notes in the comment formatter: several call sites, or one inside the closure that is
            # mapped over the notes — and convert() itself calls it
            if ncf >= 2 or (ncf >= 1 and hb.id in F.callgraph().get(b.id, ()) and any(x.kind == "closure" for x in fam[1:])):
                headers.add(hb.id)
    n = 0
    from rules.c08 import _R
    rg = _R(F).region(b, depth=1)
    groups = {}
    for it in rg.items:
        t = it["term"]
        m = parse_callee(t["callee"])[2]
        aty = t.get("aty") or ["", ""]
        if m in ("push", "extend") and "Vec<alloc::string::String" in aty[0]:
            hb = it["body"]
            if hb.id in headers or hb.id in lf:
                continue        # the header builder's own lines are checked below
            r = root_of_operand(hb, t["args"][0])
            v = it["tb"].operand(t["args"][1])
            groups.setdefault((hb.id, r[0] if r else None), []).append((hb, t, m, v))

    def producers(v):
        """functions whose String results make up the value: the callee itself, or the function mapped over an iterator"""
        if isinstance(v, tuple) and v and v[0] == "call" and v[1] in F.bodies:
            return [v[1]]
        fs = [x[1] for x in subterms(v) if isinstance(x, tuple) and x and x[0] == "fn"]
        return fs
    # the output vector(s) are those that receive formatter-produced lines; other Vec<String>s (e.g. the list of source file
    # names handed to the header) are not DSL output
    for key, items in groups.items():
        if not any(p in lf or p in headers for hb, t, m, v in items for p in producers(v)):
            continue
        for hb, t, m, v in items:
            n += 1
            ps = producers(v)
            ok = bool(ps) and all(p in lf or p in headers for p in ps)
            src = ps[0] if ps else None
            rep.ob("R3", f"convert:push:{(src or show(v))[-40:]}", ok,
                   f"output line produced by {src.split('::')[-1]}" if ok else
                   f"a raw string ({show(v)[:60]}) is pushed to the DSL output without a line formatter", hb.loc(t["sp"]),
                   key=f"R3:convert:raw-line:{(src or 'expr')}")
    if n == 0:
        n = _assembled_output(F, rep, b, tb, lf, headers)
    rep.count("output_line_pushes", n)
    if n < 4:
        rep.unresolved("R3", "pushes", f"only {n} output-line pushes found in convert")
    # what was pushed stays: between the pushes and the final join the output vector is only reordered (R5), never thinned —
    # `dedup()` would merge two identical fills into one, `retain`/`truncate`/`pop`/`drain` would drop rows without a warning
    REMOVING = ("dedup", "dedup_by", "dedup_by_key", "retain", "retain_mut", "truncate", "drain", "pop", "remove", "swap_remove", "clear", "split_off")
    thinned = []
    n_out = 0
    for key, items in groups.items():
        if not any(p in lf or p in headers for hb, t, m, v in items for p in producers(v)):
            continue
        n_out += 1
        hb = F.bodies[key[0]]
        holders = [(hb, key[1])]
        if key[1] is not None and 1 <= key[1] <= hb.argc:
            # the lines are pushed through a `&mut Vec<String>` parameter of a helper (`txn.write_dsl(&mut output_lines)`): the
            # vector is the caller's
            for it in rg.items:
                if it["term"]["callee"] == hb.id and len(it["term"]["args"]) >= key[1]:
                    r0 = root_of_operand(it["body"], it["term"]["args"][key[1] - 1])
                    if r0:
                        holders.append((it["body"], r0[0]))
        for xb, root in holders:
            for i, t in xb.calls():
                m = parse_callee(t["callee"])[2]
                if m in REMOVING and "Vec" in t["callee"] and t["args"]:
                    r = root_of_operand(xb, t["args"][0])
                    if r and r[0] == root:
                        thinned.append((xb, t, m))
    for hb, t, m in thinned:
        rep.ob("R2", f"{hb.short}:output-lines:{m}", False,
               f"the vector of output lines is thinned by `{m}` after the rows were converted: rows are dropped (or merged) without a warning or a count",
               hb.loc(t["sp"]), key=f"R2:{hb.short}:output-thinned:{m}")
    rep.ob("R2", "convert:output-lines-kept", not thinned, f"{n_out} output vector(s): lines are only pushed and reordered" if not thinned else
           f"{len(thinned)} removing operations on the output lines", "", key="R2:convert:output-lines-kept")
    # header lines: every element is a comment or the empty string; every text formatted inside the header builder is wrapped
    # by the comment formatter (no ad-hoc line)
    for hid in headers:
        hb = F.bodies[hid]
        fam = [hb] + [F.bodies[x] for x in F.children(hb.id)]
        covered, allf = set(), []
        for x in fam:
            xt = Terms(F, x, inline_depth=0)
            for i, t in x.calls():
                if t["callee"] in comment_ids:
                    for a in t["args"]:
                        covered |= {y for y in subterms(xt.operand(a)) if isinstance(y, tuple) and y and y[0] == "call" and y[1].endswith("alloc::fmt::format")}
                if t["callee"].endswith("alloc::fmt::format"):
                    allf.append((x, t, xt.call_term(t)))
                # `notes.into_iter().flatten().map(|note| format_comment(&note) + "\n")`: everything in the mapped collection goes
                # through the comment formatter when the closure hands its own parameter to it
                if parse_callee(t["callee"])[2] in ("map", "for_each", "flat_map") and len(t["args"]) >= 2:
                    clo = xt.operand(t["args"][1])
                    if isinstance(clo, tuple) and clo and clo[0] == "closure" and clo[1] in F.bodies:
                        cb = F.bodies[clo[1]]
                        ct = Terms(F, cb, inline_depth=0)
                        wraps = any(u["callee"] in comment_ids and any(
                            isinstance(z, tuple) and z and z[0] == "param" and z[1] >= 1 for a in u["args"] for z in subterms(ct.operand(a))) for _, u in cb.calls())
                        if wraps:
                            hb._covered_recv = getattr(hb, "_covered_recv", []) + [xt.operand(t["args"][0])]
                            covered |= {y for y in subterms(xt.operand(t["args"][0])) if isinstance(y, tuple) and y and y[0] == "call" and y[1].endswith("alloc::fmt::format")}
        # formats made inside a closure whose result feeds such a collection (`.then(|| format!(..))`) are reached through it
        for x, t, term in allf:
            ok = term in covered or (x.kind == "closure" and any(isinstance(y, tuple) and y and y[0] == "closure" and y[1] == x.id for cv in [covered] for z in cv for y in subterms(z))) \
                or _closure_feeds_covered(F, hb, x, covered)
            rep.ob("R3", f"{hb.short}:formatted-text-is-a-comment", ok, "text formatted for the header is emitted through the comment formatter" if ok else
                   "the header builder formats a line that does not pass through the comment formatter", x.loc(t["sp"]),
                   key=f"R3:{hb.short}:raw-header-line")
        htb = Terms(F, hb, inline_depth=0)
        for i, t in hb.calls():
            if parse_callee(t["callee"])[2] == "push" and "Vec<alloc::string::String" in (t.get("aty") or [""])[0]:
                v = htb.operand(t["args"][1])
                ok = isinstance(v, tuple) and v and v[0] == "call" and (v[1] in lf and lf[v[1]][0] == "comment" or v[1].endswith("String::new"))
                rep.ob("R3", f"{hb.short}:line", ok, "header line is a comment or blank" if ok else f"header pushes {show(v)[:60]}",
                       hb.loc(t["sp"]), key=f"R3:{hb.short}:raw-header-line")


# ----------------------------------------------------------------------------- taint

def sanitised(F, b, tb, term, depth=0):
    """term passes through a recognised line-break sanitiser"""
    for x in subterms(term):
        if not (isinstance(x, tuple) and x and x[0] == "call"):
            continue
        m = parse_callee(x[1])[2]
        if m in ("replace", "replacen") and len(x[2]) >= 3:
            pat = x[2][1]
            chars = _chars_of(pat)
            if chars is not None and {10, 13} <= chars:
                return "str::replace of a pattern containing \\n and \\r"
        # NOT `lines()`: str::lines splits at \n and \r\n only, a lone \r stays in the text — and the DSL grammar's NEWLINE
        # accepts a lone \r, so the rest of the text would start a new DSL line (seeded change C18-s3)
        if m in ("split_whitespace", "split_ascii_whitespace"):
            return f"{m}() (every white-space run, line breaks included, is dropped)"
        if m in ("split", "split_terminator") and len(x[2]) >= 2:
            chars = _chars_of(x[2][1])
            if chars is not None and {10, 13} <= chars:
                return "str::split at a pattern containing \\n and \\r"
        if m in ("filter", "map", "retain", "split") and len(x[2]) >= 2:
            clo = x[2][1]
            if isinstance(clo, tuple) and clo and clo[0] == "closure" and clo[1] in F.bodies:
                cs = _closure_char_tests(F, F.bodies[clo[1]])
                if {10, 13} <= cs or "is_control" in cs:
                    return f"chars().{m}() testing \\n and \\r"
    return None


def _loop_sanitiser(F, b, header):
    """the comment text is copied character by character: every character taken from the input reaches the result only on the
    default edge of a switch on that character whose explicit cases include \\n and \\r"""
    blks = dict(b.loops()).get(header)
    if not blks:
        return None
    pushes = [(i, t) for i, t in b.calls() if i in blks and parse_callee(t["callee"])[2] == "push" and "String" in t["callee"]]
    if not pushes:
        return None
    guards = []     # (switch block, otherwise target) of char switches listing 10 and 13
    for s, t in b.terms_of_kind("switch"):
        if s in blks and t.get("dty") == "char" and {"10", "13"} <= {v for v, _ in t["targets"]}:
            guards.append((s, t["otherwise"]))
    if not guards:
        return None
    for i, t in pushes:
        k = op_const(t["args"][1])
        if k is not None:
            continue
        p = op_place(t["args"][1])
        defs = [d for d in b.defs().get(p["l"], []) if d[0] == "assign"] if p is not None else []
        if not defs:
            return None
        for d in defs:
            rv = d[3]["rv"]
            if rv["k"] == "use" and op_const(rv["op"]) is not None:
                continue        # a constant replacement character
            if any(b.edge_dominates((s, o), d[1]) for s, o in guards):
                continue
            # `matches!(ch, '\n' | '\r')` materialises a bool first: the copy sits on the FALSE edge of a switch on a bool
            # local that is set to false only on the default edge of the character switch
            ok_flag = False
            for s2, t2 in b.terms_of_kind("switch"):
                if t2.get("dty") != "bool" or s2 not in blks:
                    continue
                fl = op_place(t2["discr"])
                false_t = [x for v, x in t2["targets"] if v == "0"]
                if fl is None or place_proj(fl) or not false_t or not b.edge_dominates((s2, false_t[0]), d[1]):
                    continue
                fdefs = [fd for fd in b.defs().get(fl["l"], []) if fd[0] == "assign"]
                falses = [fd for fd in fdefs if not ((op_const(fd[3]["rv"].get("op", {})) or {}).get("int") == "1")]
                if fdefs and falses and all(any(b.edge_dominates((s, o), fd[1]) for s, o in guards) for fd in falses):
                    ok_flag = True
            if not ok_flag:
                return None
    return "a character loop that copies a character only when it is neither \\n nor \\r"


def _chars_of(t):
    if isinstance(t, tuple) and t:
        if t[0] == "array":
            return {e[1] for e in t[1] if isinstance(e, tuple) and e and e[0] == "int"}
        if t[0] == "int":
            return {t[1]}
        if t[0] == "str":
            return {ord(c) for c in t[1]}
    return None


def _closure_char_tests(F, cb):
    out = set()
    for i, si, s in cb.assigns():
        rv = s["rv"]
        if rv["k"] == "bin" and rv["op"] in ("Eq", "Ne"):
            for o in (rv["a"], rv["b"]):
                k = op_const(o)
                if k is not None and k.get("ty") == "char" and "int" in k:
                    out.add(int(k["int"]))
    for i, t in cb.calls():
        if parse_callee(t["callee"])[2] in ("is_control", "is_ascii_control"):
            out.add("is_control")
    for i, t in cb.terms_of_kind("switch"):
        if t.get("dty") == "char":
            for v, _ in t["targets"]:
                out.add(int(v))
    return out


def taint(F, rep, lf):
    n = 0
    for fid, (kind, fb, ftb, fcs) in lf.items():
        if kind != "comment":
            continue
        for fc in fcs:
            if not fc["parts"]:
                continue
            for p in fc["parts"]:
                if p[0] != "arg":
                    continue
                n += 1
                term = p[1]
                why = sanitised(F, fb, ftb, term)
                if why is None and p[2] == "loop":
                    why = _loop_sanitiser(F, fb, term[2])
                # a parameter printed raw is tainted unless every caller passes sanitised / constant-only text
                rooted_param = any(isinstance(x, tuple) and x and x[0] == "param" for x in subterms(term)) or p[2] == "loop"   # loop-built text is unknown text
                ok = why is not None or not rooted_param
                rep.ob("R4", f"{fb.short}:comment-text", ok,
                       f"comment text passes through {why}" if why else
                       ("comment text is constant" if ok else
                        f"{fb.short} interpolates its argument into `# {{}}` unsanitised: a line break in export text (description, "
                        "unknown action, raw date) ends the comment and the rest becomes a DSL line"),
                       fc["site"], key=f"R4:{fb.short}:unsanitised")
    rep.count("comment_formatters", n)
    if n == 0:
        rep.unresolved("R4", "COMMENTFMT", "no comment formatter (template starting with '# ') found")
    # lines beginning with '#' are produced only by the comment formatter
    for b in conv_bodies(F):
        for fc in format_calls(F, b):
            txt = template_text(fc["parts"]) or ""
            if txt.lstrip().startswith("#") and b.id not in lf:
                rep.ob("R4", f"{b.short}:ad-hoc-comment", False, f"`{txt}` builds a comment line outside the comment formatter (bypasses the sanitiser)",
                       fc["site"], key=f"R4:{b.short}:ad-hoc-comment")


def sort_rule(F, rep):
    conv = [b for b in conv_bodies(F) if b.id.endswith("::convert") and "BrokerConverter" in b.id]
    for b in conv:
        srt = [(i, t, is_slice_sort(t["callee"])) for i, t in b.calls() if is_slice_sort(t["callee"])]
        if not srt:
            rep.ob("R5", "convert:sorted", False, "converted rows are not sorted chronologically", b.loc(), key="R5:convert:unsorted")
            continue
        for i, t, m in srt:
            stable = "unstable" not in m
            key_ok = False
            from rules.c16 import _closure_of
            clo = _closure_of(b, t["args"][1]) if len(t["args"]) > 1 else None
            if clo and clo in F.bodies:
                ct = Terms(F, F.bodies[clo], inline_depth=0)
                r = ct.local(0)
                names = {x[2] for x in subterms(r) if isinstance(x, tuple) and len(x) == 3 and x[0] == "field" and isinstance(x[2], str)}
                key_ok = "date" in names
            rep.ob("R5", "convert:stable-date-sort", stable and key_ok,
                   f"rows sorted by date with stable {m}" if stable and key_ok else f"{m}: stable={stable}, keyed by date={key_ok}",
                   b.loc(t["sp"]), key="R5:convert:sort")


_NORMALISERS = ("to_uppercase", "to_lowercase", "to_ascii_uppercase", "to_ascii_lowercase", "make_ascii_uppercase", "make_ascii_lowercase",
                "trim", "trim_start", "trim_end", "trim_matches", "trim_start_matches", "trim_end_matches", "replace", "replacen")


def _norm_sig(F, term, depth=2, seen=None):
    """the set of string normalisers (case folding, trimming, replacing) applied on the way to a value: in the term itself, in the
    closures and fn items handed to its combinators, and inside the converter's own helpers it calls (depth 2)"""
    seen = seen if seen is not None else set()
    out = set()

    def name_of(path):
        return path.rsplit("::", 1)[-1].split("<")[0]

    def from_body(hb, d):
        if hb.id in seen or d < 0:
            return
        seen.add(hb.id)
        for j, u in hb.calls():
            m = parse_callee(u["callee"])[2]
            if m in _NORMALISERS and ("str" in u["callee"] or "String" in u["callee"]):
                out.add(m)
            for a in u.get("args") or []:
                k = a.get("k") if isinstance(a, dict) else None
                if isinstance(k, dict) and k.get("fn"):
                    n = name_of(k["fn"])
                    if n in _NORMALISERS:
                        out.add(n)
                    if k["fn"] in F.bodies and F.bodies[k["fn"]].crate == "cgt_converter":
                        from_body(F.bodies[k["fn"]], d - 1)
            h = F.bodies.get(u["callee"])
            if h is not None and h.crate == "cgt_converter":
                from_body(h, d - 1)
        for bi, si, st in hb.assigns():
            if st["rv"]["k"] == "closure" and st["rv"]["id"] in F.bodies:
                from_body(F.bodies[st["rv"]["id"]], d)

    for x in subterms(term):
        if not isinstance(x, tuple) or not x:
            continue
        if x[0] == "call":
            m = parse_callee(x[1])[2]
            if m in _NORMALISERS and ("str" in x[1] or "String" in x[1]):
                out.add(m)
            h = F.bodies.get(x[1])
            if h is not None and h.crate == "cgt_converter":
                from_body(h, depth - 1)
        elif x[0] == "closure" and len(x) > 1 and x[1] in F.bodies:
            from_body(F.bodies[x[1]], depth)
        elif x[0] == "fn" and len(x) > 1 and isinstance(x[1], str):
            n = name_of(x[1])
            if n in _NORMALISERS:
                out.add(n)
            if x[1] in F.bodies and F.bodies[x[1]].crate == "cgt_converter":
                from_body(F.bodies[x[1]], depth - 1)
    return out


def symbol_normalisation(F, rep):
    """R2 (rows that are joined by symbol spell it the same way): dividends and their same-day withholding meet under the key
    (date, symbol), cancellations meet their sells by symbol — so every parsed-row structure of the export reader that carries a
    `symbol` must receive it through the same normalisation (trim / case folding / replacement). Sibling constructors that differ
    (`CommonFields.symbol` upper-cased, `SchwabNraTax.symbol` as written) make the join miss for any symbol the normaliser changes:
    the dividend silently loses its withholding (seeded change C18-s8). Decides the agreement of the constructors, not the join."""
    sigs = []
    for b in F.bodies.values():
        if not b.id.startswith("cgt_converter::schwab::transactions") or not P.user_written(F, b):
            continue
        tb = None
        for i, si, st in b.assigns():
            rv = st["rv"]
            if rv["k"] == "agg" and rv.get("adt", "").startswith("cgt_converter::schwab::") and "symbol" in (rv.get("fields") or []):
                tb = tb or Terms(F, b, inline_depth=2)
                t = tb.operand(rv["ops"][rv["fields"].index("symbol")])
                sigs.append((rv["adt"].split("::")[-1], b, b.loc(st["sp"]), frozenset(_norm_sig(F, t))))
    rep.count("R2_symbol_constructors", {a: sorted(s) for a, _, _, s in sigs})
    if len(sigs) < 2:
        rep.note("R2: fewer than two parsed-row structures carry a `symbol` (nothing to compare)")
        return
    ref = max({s for _, _, _, s in sigs}, key=lambda s: sum(1 for x in sigs if x[3] == s))
    for adt, b, site, sg in sigs:
        ok = sg == ref
        rep.ob("R2", f"symbol-normalisation:{adt}", ok, f"`{adt}.symbol` is read with {sorted(sg) or 'no normaliser'} like its siblings" if ok else
               f"`{adt}.symbol` is read with {sorted(sg) or 'no normaliser'} but its sibling row structures with {sorted(ref) or 'none'}: rows joined by "
               "(date, symbol) — a dividend and its withholding, a cancellation and its sale — no longer meet for symbols the extra step changes",
               site, key=f"R2:symbol-normalisation:{adt}")


def run(ctx, rep):
    F = ctx.F
    exhaustive(F, rep)
    symbol_normalisation(F, rep)
    # the action names the row classifier LISTS are the ones it acts on: no guard arm above shadows a listed literal
    # (shared engine with C19-R4)
    import rules.c19 as _c19
    _c19.classifiers(F, rep, prefix="cgt_converter::schwab::transactions", rule="R1")
    arm_accounting(F, rep)
    lf = output_grammar(ctx, rep)
    output_pushes(F, rep, lf)
    taint(F, rep, lf)
    sort_rule(F, rep)
    # "the output is valid DSL" at the command line too: what the convert command prints to standard output is the converter's
    # text and nothing else — warnings belong to standard error (seeded change C18-s6 printed them in front of the DSL)
    n_print = 0
    for b in F.bodies.values():
        if b.crate != "cgt_tool" or not P.user_written(F, b):
            continue
        tb0 = None
        for i, t in b.calls():
            if t["callee"] != "std::io::stdio::_print":
                continue
            tb0 = tb0 or Terms(F, b, inline_depth=0)
            args_term = tb0.operand(t["args"][0]) if t["args"] else None
            fields = {x[2] for x in subterms(args_term) if isinstance(x, tuple) and len(x) == 3 and x[0] == "field" and isinstance(x[2], str)} if args_term else set()
            if "warnings" in fields:
                n_print += 1
                rep.ob("R3", f"{b.short}:warnings-on-stdout", False, "a converter warning is printed to standard output: the DSL written there no longer parses",
                       b.loc(t["sp"]), key=f"R3:{b.short}:warnings-on-stdout")
    # "RSUs dated at the vest date and priced at the vest-date market value": the awards table prefers the vest pair over the
    # deposit-day price and is queried with the row's own date and symbol (shared with C19-R1/R2/R3; seeded change C18-s5)
    import rules.c19 as c19
    from core import Report
    r2 = Report("tmp")
    c19.lookup_shape(F, r2)
    c19.map_building(F, r2)
    c19.rsu_arm(F, r2)
    for o in r2.obligations:
        if "StockPlanActivity" in o["instance"]:
            continue        # C19-R3 re-uses this property's own per-arm accounting: already listed above
        rep.ob("R2", "rsu:" + o["instance"], o["ok"], o["detail"], o["site"], key="R2:rsu:" + o["instance"])
    # "every row is converted, skipped with a count, or surfaced as a comment and a warning … whatever the free-text fields contain":
    # a row whose text makes the converter PANIC is none of the three, and takes every other row of the export with it. No explicit
    # may-panic call (unwrap/expect, `String::truncate`/`split_at`/`remove` on a byte position, …) and no undischarged bounds/overflow
    # assertion in converter code (shared with C15-R1/R2; seeded change C18-s9 cut a description at byte 77 with `truncate`, which
    # panics inside a multi-byte character). Decimal-operator overflow is not repeated here (known finding under C15-R3).
    import rules.c15 as c15
    r3 = Report("tmp")
    c15.run(ctx, r3)
    n = 0
    for o in r3.obligations:
        if o["rule"] in ("R1", "R2") and str(o["site"]).startswith("crates/cgt-converter/"):
            n += 1
            rep.ob("R6", o["instance"], o["ok"], o["detail"], o["site"], key="R6:" + o["instance"])
    rep.count("converter_may_panic_candidates", n)


def controls(pctx, rep):
    F = pctx.F
    import rules.c19 as _c19
    _c19.controls(pctx, rep)
    # effect synthesis on a tiny row loop with an outcome enum and a recorder method (posctl::effsyn_rows)
    try:
        from effsyn import EffSyn
        eb = F.one("effsyn_rows")
        (h, blks), = eb.loops()
        es = EffSyn(F, tracked=lambda ty: "u32" in ty, place_type=_place_type, helper_ok=lambda hb: hb.crate == "posctl")
        alts = [a for a in es.run(eb, start=h, stops=(h,)) if a.exit == "stop"]
        per = {}
        for a in alts:
            vn = [g[3] for g in a.guards if g[2] and g[2].endswith("RowKind") and isinstance(g[3], str)]
            if vn:
                per.setdefault(vn[0], set()).add((len([p for p in a.pushes if p[0] == "push"]), len(a.counts)))
        rep.control("R2:effsyn", per.get("Keep") == {(1, 0)} and per.get("Twice") == {(2, 0)} and per.get("Drop") == {(0, 1)},
                    f"posctl::effsyn_rows pushes/counts per row kind = { {k: sorted(v) for k, v in per.items()} } (expected Keep 1/0, Twice 2/0, Drop 0/1)")
    except Exception as e:   # the engine itself broke
        rep.control("R2:effsyn", False, f"effect synthesis failed on posctl::effsyn_rows: {e}")
    b = F.one("comment_unsanitised")
    tb = Terms(F, b, inline_depth=0)
    fired = False
    for fc in format_calls(F, b, tb):
        for p in fc["parts"] or []:
            if p[0] == "arg" and sanitised(F, b, tb, p[1]) is None:
                fired = True
    rep.control("R4:unsanitised", fired, "posctl::comment_unsanitised")
    for name in ("comment_sanitised_replace_ok", "comment_sanitised_filter_ok"):
        b = F.one(name)
        tb = Terms(F, b, inline_depth=0)
        okk = True
        for fc in format_calls(F, b, tb):
            for p in fc["parts"] or []:
                if p[0] == "arg" and sanitised(F, b, tb, p[1]) is None:
                    okk = False
        rep.control(f"R4:{name}", okk, f"posctl::{name} must be recognised as sanitised")
