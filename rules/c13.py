"""C13 — layout, comments, case, line endings (grammar-shaped clauses)."""
import glob
import os
import re

from grammar import Grammar, arm_accepts

META = {
    "engine": "srcfacts+rules",
    "engines": ["srcfacts", "mirfacts", "rules"],
    "technique": ("static analysis: language inclusion between the pest grammar (pest_meta AST) and the match_nodes! consumers (syn), "
                  "symbolic evaluation of the consumers over the grammar's derivation trees, PEG acceptance of abstract line-level words"),
    "explanation": (
        "The grammar is parsed by pest's own meta-parser and the consumer arms by syn; nothing is parsed at run time. "
        "R1 (LANG): for every non-atomic, non-silent rule the complete set of child-token sequences the grammar can "
        "produce — with pest's implicit skipping modelled as pest implements it (a skip after every `~`, consumed even "
        "when the following optional matches nothing; a non-silent COMMENT emits a token into the innermost open rule; "
        "a COMMENT runs to the end of the line) — must be accepted by an arm of the rule's match_nodes! consumer. The "
        "grammar is non-recursive, so the sets are finite and enumerated completely (the list rule is checked by "
        "alphabet). R2: the list consumer handles `transaction` with a non-empty arm and ignores only kinds that carry "
        "no transaction. R3: every alphabetic string terminal is case-insensitive. R3 also: no consumer compares a node's matched text case-sensitively with a spelled-out word (a merged UNSPLIT|SPLIT rule whose consumer tests starts_with('UNSPLIT') reads `unsplit` as SPLIT). R4: NEWLINE covers CRLF, LF and CR "
        "with CRLF tried before CR; the list rule — evaluated as a PEG over abstract line-level words — accepts blank lines, full-line comments and a final line with or without a "
        "line break, and rejects two transactions on one line. R5: every keyword that can follow `money` and could lex as a currency code is excluded by the "
        "currency look-ahead, and no ISO-4217 code is excluded. R6: the consumers are evaluated symbolically on every derivation tree: a tree without a currency node yields a GBP amount, "
        "a tree without a FEES/TAX node yields zero GBP in fees/tax_paid, a tree with one yields the clause's own value. R7: every CgtError built in the parser module is ParseError. R8: the currency-code consumer folds the case before the ISO look-up. R9: atomic and compound-atomic grammar rules are single lexemes (a keyword and its operand are never inside one atomic rule, so implicit whitespace applies between them). R7 also: a pest error from a child consumer is passed on, not rebuilt on another node, and the grammar is run on the caller's text itself (no trim/slice/replace before `Parser::parse`, which would shift every reported line/column)."),
    "trusted_base": ["pest semantics of implicit WHITESPACE/COMMENT skipping and silent rules (pest 2.8 generator, read)",
                     "pest_meta parses the grammar exactly as pest_derive does", "syn token structure of match_nodes! arms"],
}


from grammar import consumers


def lang_inclusion(S, rep):
    g = Grammar(S["grammar"])
    cons = consumers(S)
    n_rules = 0
    n_seq = 0
    for name in g.order:
        if g.ty(name) != "normal" or name == "COMMENT":
            continue
        fn = cons.get(name)
        if fn is None:
            rep.ob("R1", f"{name}:consumer", False, f"grammar rule `{name}` produces tokens but the parser has no consumer for it",
                   "crates/cgt-core/src/parser.rs", key=f"R1:{name}:no-consumer")
            continue
        n_rules += 1
        arms = [a["pattern"] for m in fn["match_nodes"] for a in m["arms"]]
        if g.has_unbounded_rep(name):
            if fn["rule_matches"] or fn.get("rule_filters") or not arms:
                # hand-written list consumer (loop / filter over as_rule()): checked by alphabet in R2
                continue
            # a match_nodes! list consumer: the repetition is unrolled past the longest arm, so that only a variadic
            # element can accept the longer sequences
            g2 = Grammar(S["grammar"])
            g2.unroll = max(len(p) for p in arms) + 2
            seqs = sorted({s for s, _ in g2.child_seqs(name)})
            for s in seqs:
                n_seq += 1
                ok = any(arm_accepts(p, s) for p in arms)
                rep.ob("R1", f"{name}:[{', '.join(s)}]", ok, "accepted by a consumer arm" if ok else
                       f"the grammar can hand `{name}` the children [{', '.join(s)}] but no match_nodes! arm accepts that sequence: "
                       "valid input is rejected", f"crates/cgt-core/src/parser.rs:{fn['line']}", key=f"R1:{name}:[{','.join(s)}]")
            continue
        if not arms:
            rep.ob("R1", f"{name}:arms", False, f"consumer of `{name}` has no match_nodes! arms",
                   f"crates/cgt-core/src/parser.rs:{fn['line']}", key=f"R1:{name}:no-arms")
            continue
        seqs = sorted({s for s, _ in g.child_seqs(name)})
        for s in seqs:
            n_seq += 1
            ok = any(arm_accepts(p, s) for p in arms)
            rep.ob("R1", f"{name}:[{', '.join(s)}]", ok,
                   "accepted by a consumer arm" if ok else
                   f"the grammar can hand `{name}` the children [{', '.join(s)}] but no match_nodes! arm accepts that sequence: "
                   "valid input is rejected" + (" (a trailing '#' comment after this clause)" if "COMMENT" in s else ""),
                   f"crates/cgt-core/src/parser.rs:{fn['line']}", key=f"R1:{name}:[{','.join(s)}]")
    rep.count("grammar_rules", len(g.order))
    rep.count("rules_with_consumers", n_rules)
    rep.count("child_sequences_enumerated", n_seq)
    return g


def list_level(S, g, rep):
    cons = consumers(S)
    lists = [n for n in g.order if g.ty(n) == "normal" and g.has_unbounded_rep(n) and n != "COMMENT" and g.alphabet(n) - {"COMMENT"}]
    for name in lists:
        fn = cons.get(name)
        if fn is None:
            rep.unresolved("R2", name, "no consumer for the list rule")
            continue
        alpha = g.alphabet(name)
        handled = set()
        ignored = set()
        wildcard_empty = False
        if not fn["rule_matches"] and not fn.get("rule_filters") and fn["match_nodes"]:
            _list_by_evaluation(S, g, name, fn, cons, rep)
            rep.count("list_alphabet", sorted(alpha))
            continue
        for m in fn["rule_matches"]:
            for a in m["arms"]:
                for p in a["pats"]:
                    if p == "_":
                        wildcard_empty = wildcard_empty or a["empty_body"]
                    elif p.startswith("Rule::"):
                        (ignored if a["empty_body"] else handled).add(p[6:])
        # `children.filter(|c| c.as_rule() == Rule::transaction).map(Self::transaction)`: the kept kinds are handled when the
        # function also calls their consumer; everything else is dropped by the filter (an empty wildcard)
        for rf in fn.get("rule_filters", []):
            called = {c.split("::")[-1] for c in fn.get("calls", [])}
            if rf["method"] in ("filter", "retain") and rf["eq"] and not rf["ne"]:
                handled |= {k for k in rf["eq"] if k in called}
                ignored |= {k for k in rf["eq"] if k not in called}
                wildcard_empty = True
            elif rf["method"] in ("filter", "retain") and rf["ne"] and not rf["eq"]:
                ignored |= set(rf["ne"])
        data_kinds = {t for t in alpha if t not in ("COMMENT", "EOI")}
        for t in sorted(alpha):
            if t in data_kinds:
                ok = t in handled
                rep.ob("R2", f"{name}:{t}", ok,
                       f"`{t}` children are consumed by a non-empty arm" if ok else
                       f"`{t}` can occur at list level but is {'ignored by an empty arm' if t in ignored or wildcard_empty else 'not handled'}: lines would be skipped silently",
                       f"crates/cgt-core/src/parser.rs:{fn['line']}", key=f"R2:{name}:{t}")
            else:
                ok = t in ignored or wildcard_empty or t in handled
                rep.ob("R2", f"{name}:{t}", ok, f"non-transaction kind `{t}` is ignored" if ok else f"`{t}` is not matched by any arm",
                       f"crates/cgt-core/src/parser.rs:{fn['line']}", key=f"R2:{name}:{t}")
        rep.count("list_alphabet", sorted(alpha))
    if not lists:
        rep.unresolved("R2", "list-rule", "no rule with an unbounded repetition")


def _list_by_evaluation(S, g, name, fn, cons, rep):
    """A `match_nodes!` list consumer: evaluate it symbolically (lib/consume.py) on every unrolled child sequence with a
    distinct marker as the value of each child; every data child's marker must reach the result, in file order."""
    from consume import Evaluator
    arms = [a["pattern"] for m in fn["match_nodes"] for a in m["arms"]]
    g2 = Grammar(S["grammar"])
    g2.unroll = max(len(p) for p in arms) + 2

    class Marked(Evaluator):
        def consume(self, tree):
            if tree[0] == name:
                return Evaluator.consume(self, tree)
            return ("child", tree[0], tree[2])
    E = Marked(g2, cons)
    per = {}
    for seq in sorted({s for s, _ in g2.child_seqs(name)}):
        tree = (name, tuple((t, (), i) for i, t in enumerate(seq)))
        v = E.consume(tree)
        order = []

        def flat(x):
            if isinstance(x, tuple) and len(x) == 3 and x[0] == "child":
                order.append(x[2])
                return
            if isinstance(x, (tuple, list)):
                for y in x:
                    flat(y)
            elif isinstance(x, dict):
                for y in x.values():
                    flat(y)
        flat(v)
        for i, t in enumerate(seq):
            if t in ("COMMENT", "EOI"):
                per.setdefault(t, True)
                continue
            ok = i in order
            if not ok or per.get(t, True) is True:
                per[t] = True if ok and per.get(t, True) is True else (per.get(t) if per.get(t, True) is not True else
                                                                      f"`{t}` child #{i} of [{', '.join(seq)}] does not reach the result: lines would be skipped silently")
        want = [i for i, t in enumerate(seq) if t not in ("COMMENT", "EOI")]
        got = [i for i in order if i in want]
        if got != want and sorted(set(got)) == want and per.get("order", True) is True:
            per["order"] = f"the children of [{', '.join(seq)}] reach the result in the order {got}, not in file order"
    for t in sorted(k for k in per if k != "order"):
        if t in ("COMMENT", "EOI"):
            rep.ob("R2", f"{name}:{t}", True, f"non-transaction kind `{t}` carries no data", f"crates/cgt-core/src/parser.rs:{fn['line']}",
                   key=f"R2:{name}:{t}")
        else:
            rep.ob("R2", f"{name}:{t}", per[t] is True, f"every `{t}` child reaches the result of the list consumer" if per[t] is True
                   else per[t], f"crates/cgt-core/src/parser.rs:{fn['line']}", key=f"R2:{name}:{t}")
    if per.get("order", True) is not True:
        rep.ob("R2", f"{name}:order", False, per["order"], f"crates/cgt-core/src/parser.rs:{fn['line']}", key=f"R2:{name}:order")


def case_and_newlines(S, g, rep):
    n = 0
    for rn, kind, text in g.terminals():
        if any(c.isalpha() for c in text):
            n += 1
            rep.ob("R3", f"{rn}:{text}", kind == "insens",
                   "case-insensitive terminal" if kind == "insens" else
                   f"terminal \"{text}\" in rule `{rn}` is case-sensitive: lower-case input would be rejected",
                   "crates/cgt-core/src/parser.pest", key=f"R3:{rn}:{text}")
    rep.count("alphabetic_terminals", n)
    if n < 10:
        rep.unresolved("R3", "keywords", f"only {n} alphabetic terminals found")
    nl = g.rules.get("NEWLINE")
    if nl is None:
        rep.unresolved("R4", "NEWLINE", "grammar has no NEWLINE rule (pest's built-in differs)")
    else:
        alts = [a["s"] for a in g.choice_list(nl["expr"]) if a["k"] == "str"]
        need = ["\r\n", "\n", "\r"]
        ok = all(x in alts for x in need)
        rep.ob("R4", "NEWLINE:alternatives", ok, f"NEWLINE = {alts!r}" if ok else f"NEWLINE alternatives {alts!r} miss one of CRLF/LF/CR",
               "crates/cgt-core/src/parser.pest", key="R4:NEWLINE:alternatives")
        if ok:
            ok2 = alts.index("\r\n") < alts.index("\r")
            rep.ob("R4", "NEWLINE:crlf-first", ok2, "CRLF is tried before CR" if ok2 else
                   "CR is tried before CRLF: a CRLF file is read as CR + LF", "crates/cgt-core/src/parser.pest", key="R4:NEWLINE:order")
        rep.ob("R4", "NEWLINE:silent", nl["ty"] == "silent", "NEWLINE emits no token", "crates/cgt-core/src/parser.pest", key="R4:NEWLINE:silent")
    # list rule shape: SOI ~ (line ~ NEWLINE)* ~ line? ~ EOI ; line ∋ transaction, COMMENT, ""
    lists = [n_ for n_ in g.order if g.ty(n_) == "normal" and g.has_unbounded_rep(n_) and n_ != "COMMENT" and g.alphabet(n_) - {"COMMENT"}]
    for name in lists:
        parts = g.seq_list(g.rules[name]["expr"])
        kinds = [p["k"] + (":" + p["s"] if p["k"] == "ident" else "") for p in parts]
        has_rep = any(p["k"] == "rep" and p["min"] == 0 for p in parts)
        tail_opt = [p for p in parts if p["k"] == "opt"]
        ends_eoi = parts and parts[-1]["k"] == "ident" and parts[-1]["s"] == "EOI"
        starts_soi = parts and parts[0]["k"] == "ident" and parts[0]["s"] == "SOI"
        rep.ob("R4", f"{name}:anchored", bool(starts_soi and ends_eoi),
               "list rule is anchored SOI … EOI (trailing garbage is an error)" if starts_soi and ends_eoi else
               f"list rule is not anchored at both ends: {kinds}", "crates/cgt-core/src/parser.pest", key=f"R4:{name}:anchored")
        data = sorted(t for t in g.alphabet(name) if t not in ("COMMENT", "EOI"))
        if not data:
            rep.unresolved("R4", "line", "the list rule has no data token")
            continue
        T = data[0]

        def acc(*w):
            return g.peg_accepts(name, list(w))
        final_ok = acc(T) and acc(T, "N") and acc(T, "N", T) and acc(T, "N", T, "N")
        rep.ob("R4", f"{name}:final-line", final_ok,
               "the line-level language accepts a last line with and without a line break" if final_ok else
               ("no optional final line before EOI: a missing final newline is rejected" if not acc(T) or not acc(T, "N", T) else
                "a file that ends with a line break is rejected"), "crates/cgt-core/src/parser.pest", key=f"R4:{name}:final-line")
        blank_ok = acc() and acc("N") and acc("N", T) and acc(T, "N", "N", T) and acc(T, "N", "N")
        rep.ob("R4", f"{name}:blank-lines", blank_ok, "blank lines (and an empty file) are accepted anywhere" if blank_ok else
               "a blank line is rejected somewhere: leading, between two transactions or trailing", "crates/cgt-core/src/parser.pest",
               key=f"R4:{name}:blank-lines")
        cm_ok = "COMMENT" not in g.rules or (acc("COMMENT") and acc("COMMENT", "N", T) and acc(T, "N", "COMMENT") and acc(T, "N", "COMMENT", "N", T))
        rep.ob("R4", f"{name}:comment-lines", cm_ok, "full-line comments are accepted anywhere" if cm_ok else
               "a full-line comment is rejected somewhere: first, last or between two transactions", "crates/cgt-core/src/parser.pest",
               key=f"R4:{name}:comment-lines")
        one_ok = all(not acc(a, b) for a in data for b in data)
        rep.ob("R4", f"{name}:one-per-line", one_ok, "two transactions need a line break between them" if one_ok else
               "two transactions without a line break between them are accepted", "crates/cgt-core/src/parser.pest",
               key=f"R4:{name}:one-per-line")
    ws = g.rules.get("WHITESPACE")
    if ws is None:
        rep.unresolved("R4", "WHITESPACE", "no WHITESPACE rule: tokens could not be separated by spaces")
    else:
        alts = [a["s"] for a in g.choice_list(ws["expr"]) if a["k"] == "str"]
        ok = " " in alts and "\t" in alts and ws["ty"] == "silent" and "\n" not in alts and "\r" not in alts
        rep.ob("R4", "WHITESPACE", ok, "WHITESPACE = space | tab, silent, excludes line breaks" if ok else
               f"WHITESPACE alternatives {alts!r} (silent={ws['ty'] == 'silent'})", "crates/cgt-core/src/parser.pest", key="R4:WHITESPACE")
    cm = g.rules.get("COMMENT")
    if cm is not None:
        parts = g.seq_list(cm["expr"])
        ok = parts and parts[0]["k"] == "str" and parts[0]["s"] == "#"
        rep.ob("R4", "COMMENT:starts-with-#", bool(ok), "comments start with '#'", "crates/cgt-core/src/parser.pest", key="R4:COMMENT:hash")
        # a comment must stop before EVERY line ending the grammar knows (the LANG model assumes it runs exactly to end of line)
        stops = set()

        def strings_of(e, stack=()):
            k = e["k"]
            if k in ("str", "insens"):
                return {e["s"]}
            if k == "ident" and e["s"] in g.rules and e["s"] not in stack:
                return strings_of(g.rules[e["s"]]["expr"], stack + (e["s"],))
            if k == "choice":
                return strings_of(e["a"], stack) | strings_of(e["b"], stack)
            return set()

        def find_negs(e):
            if e["k"] == "neg":
                stops.update(strings_of(e["e"]))
            for x in ("a", "b", "e"):
                if isinstance(e.get(x), dict):
                    find_negs(e[x])
        find_negs(cm["expr"])
        nl_alts = [a["s"] for a in g.choice_list(nl["expr"]) if a["k"] == "str"] if nl is not None else []
        uncovered = [a for a in nl_alts if not any(a.startswith(st) and st for st in stops)]
        rep.ob("R4", "COMMENT:stops-at-every-line-ending", not uncovered and bool(nl_alts),
               "a comment ends before any of the grammar's line endings" if not uncovered and nl_alts else
               f"a comment only stops at {sorted(stops)!r}: with the line ending(s) {uncovered!r} it swallows the following lines, which are silently skipped",
               "crates/cgt-core/src/parser.pest", key="R4:COMMENT:terminator")


def iso_codes():
    for p in glob.glob(os.path.expanduser("~/.cargo/registry/src/*/iso_currency-*/isodata.tsv")):
        codes = set()
        with open(p, encoding="utf-8") as fh:
            for line in fh:
                c = line.split("\t")[0].strip()
                if len(c) == 3 and c.isalpha() and c.isupper():
                    codes.add(c)
        if len(codes) > 100:
            return codes
    return None


def follow_keywords(g, target="money"):
    """insensitive terminals that can directly follow a reference to `target` (through optional clauses)"""
    out = set()

    def first_terms(e, stack=()):
        k = e["k"]
        if k in ("str", "insens"):
            return {e["s"]} if e["s"] else set()
        if k == "ident":
            n = e["s"]
            if n in g.rules and n not in stack and n not in ("WHITESPACE", "COMMENT", "NEWLINE"):
                return first_terms(g.rules[n]["expr"], stack + (n,))
            return set()
        if k == "seq":
            s = first_terms(e["a"], stack)
            if g.nullable(e["a"]):
                s |= first_terms(e["b"], stack)
            return s
        if k == "choice":
            return first_terms(e["a"], stack) | first_terms(e["b"], stack)
        if k in ("opt", "rep", "push"):
            return first_terms(e["e"], stack)
        return set()

    def ends_with_target(e, stack=()):
        k = e["k"]
        if k == "ident":
            n = e["s"]
            if n == target:
                return True
            if n in g.rules and n not in stack and not g.is_atomic(n):
                return ends_with_target(g.rules[n]["expr"], stack + (n,))
            return False
        if k == "seq":
            return ends_with_target(e["b"], stack) or (g.nullable(e["b"]) and ends_with_target(e["a"], stack))
        if k == "choice":
            return ends_with_target(e["a"], stack) or ends_with_target(e["b"], stack)
        if k in ("opt", "rep", "push"):
            return ends_with_target(e["e"], stack)
        return False

    def walk(e):
        if e["k"] == "seq":
            items = g.seq_list(e)
            for i, it in enumerate(items[:-1]):
                if ends_with_target(it):
                    j = i + 1
                    while j < len(items):
                        out.update(first_terms(items[j]))
                        if not g.nullable(items[j]):
                            break
                        j += 1
        for x in ("a", "b", "e"):
            if isinstance(e.get(x), dict):
                walk(e[x])

    for n in g.order:
        walk(g.rules[n]["expr"])
    return {t for t in out if t and t[0].isalpha()}


def currency_lookahead(S, g, rep):
    cc = g.rules.get("currency_code")
    if cc is None:
        rep.unresolved("R5", "currency_code", "no currency_code rule")
        return
    parts = g.seq_list(cc["expr"])
    excl = set()
    for p in parts:
        if p["k"] == "neg":
            for s in g.strings_under(p["e"]):
                if s and s[0].isalpha():
                    excl.add(s.upper())
    fol = {k.upper() for k in follow_keywords(g)}
    rep.count("keywords_following_money", sorted(fol))
    rep.count("currency_exclusions", sorted(excl))
    if not fol:
        rep.unresolved("R5", "follow", "no keyword can follow `money` (FEES/TAX clauses expected)")
    for k in sorted(fol):
        # a keyword whose first three letters would lex as a complete currency code
        lexes = len(k) == 3
        ok = (not lexes) or k in excl
        rep.ob("R5", f"follow:{k}", ok,
               (f"`{k}` is excluded by the currency look-ahead" if k in excl else f"`{k}` cannot lex as a 3-letter code") if ok else
               f"keyword `{k}` can follow an amount and lexes as a currency code, but the look-ahead does not exclude it: "
               f"`… 10 {k} …` would be read as currency {k}", "crates/cgt-core/src/parser.pest", key=f"R5:follow:{k}")
    iso = iso_codes()
    if iso is None:
        rep.note("iso_currency data file not found in the cargo registry: 'no ISO code is excluded' not checked")
    else:
        for k in sorted(excl):
            if len(k) == 3:
                rep.ob("R5", f"excluded:{k}", k not in iso,
                       f"`{k}` is not an ISO-4217 code" if k not in iso else
                       f"the currency look-ahead excludes `{k}`, which is an ISO-4217 currency code", "crates/cgt-core/src/parser.pest",
                       key=f"R5:excluded-iso:{k}")
        rep.count("iso_codes_known", len(iso))
    # the code itself: exactly three letters, not followed by an alphanumeric
    shape = [(p["k"], p.get("min"), p.get("max")) for p in parts if p["k"] == "rep"]
    ok = any(mn == 3 and mx == 3 for _, mn, mx in shape) and cc["ty"] == "atomic"
    rep.ob("R5", "currency_code:shape", ok, "atomic, exactly three letters" if ok else f"currency_code shape {shape}, type {cc['ty']}",
           "crates/cgt-core/src/parser.pest", key="R5:currency_code:shape")


def _is_zero(t):
    return (t[0] == "path" and t[1].split("::")[-1] == "ZERO") or (t[0] == "macro" and t[1] == "dec" and t[2].strip() in ("0", "0.0")) \
        or (t[0] == "call" and t[1].split("::")[-1] in ("zero",) and not t[2])


def _is_gbp(t):
    return t[0] == "path" and t[1].split("::")[-1] == "GBP"


def _is_zero_gbp(t):
    if t[0] == "call" and t[1].split("::")[-2:] == ["CurrencyAmount", "new"] and len(t[2]) == 2:
        return _is_zero(t[2][0]) and _is_gbp(t[2][1])
    if t[0] == "struct" and t[1].split("::")[-1] == "CurrencyAmount":
        return _is_zero(t[2].get("amount", ("?",))) and _is_gbp(t[2].get("currency", ("?",)))
    return False


def _short(t, n=90):
    def go(x):
        if isinstance(x, tuple) and x:
            if x[0] == "path":
                return x[1]
            if x[0] == "atom":
                return f"<{x[1]}>"
            if x[0] == "call":
                return f"{x[1]}({', '.join(go(a) for a in x[2])})"
            if x[0] == "struct":
                return f"{x[1]} {{…}}"
            if x[0] == "closure":
                return "|…| …"
            if x[0] == "node":
                return f"<node {x[1][0]}>"
            if not isinstance(x[0], str):
                return "(" + ", ".join(go(a) for a in x) + ")"
            return x[0] + "(" + ", ".join(go(a) for a in x[1:] if isinstance(a, (tuple, list))) + ")"
        if isinstance(x, list):
            return "[" + ", ".join(go(a) for a in x) + "]"
        return str(x)
    return go(t)[:n]


def defaults(S, g, rep):
    """R6 by symbolic evaluation of the consumers over every derivation tree (lib/consume.py): whatever the arms, helpers
    and intermediate tuples look like, a tree without a currency code must evaluate to an amount in GBP, a tree without a
    FEES/TAX clause to an operation whose fees/tax_paid is zero GBP, and a tree with the clause to one that carries the
    clause's own value."""
    from consume import Trees, Evaluator, tokens_of, show_tree, find_structs, contains
    cons = consumers(S)
    T = Trees(g)
    E = Evaluator(g, cons)
    n = 0
    n_trees = 0
    if "money" in g.rules and "money" in cons:
        bad = None
        k = 0
        for tree in T.trees("money"):
            toks = tokens_of(tree)
            v = E.consume(tree)
            n_trees += 1
            if "currency_code" not in toks:
                k += 1
                ok = v[0] == "call" and v[1].split("::")[-2:] == ["CurrencyAmount", "new"] and len(v[2]) == 2 and _is_gbp(v[2][1]) \
                    and contains(v[2][0], ("atom", "decimal"))
                if not ok and bad is None:
                    bad = f"an amount without a currency code ({show_tree(tree)}) is built as `{_short(v)}`, not as GBP"
            else:
                ok = contains(v, ("atom", "currency_code")) and contains(v, ("atom", "decimal"))
                if not ok and bad is None:
                    bad = f"an amount with a currency code ({show_tree(tree)}) is built as `{_short(v)}`: the written code is not used"
        if k:
            n += 1
            rep.ob("R6", "money:no-currency→GBP", bad is None, "an amount without a currency code is built as GBP; a written code is used"
                   if bad is None else bad, f"crates/cgt-core/src/parser.rs:{cons['money']['line']}", key="R6:money:default-currency")
    else:
        rep.unresolved("R6", "money", "no `money` rule/consumer")
    for name in g.order:
        if g.ty(name) != "normal" or name not in cons or g.has_unbounded_rep(name):
            continue
        per = {}
        for tree in T.trees(name):
            v = E.consume(tree)
            n_trees += 1
            sts = find_structs(v, "Operation::")
            if not sts:
                continue
            # only the rule whose own consumer builds the operation (its children's values do not contain it yet)
            if any(find_structs(E.consume(k), "Operation::") for k in tree[1]):
                continue
            toks = tokens_of(tree)
            for st in sts:
                for fld, clause in (("fees", "fees"), ("tax_paid", "tax")):
                    if fld not in st[2]:
                        continue
                    val = st[2][fld]
                    slot = per.setdefault((fld, clause), {"absent": 0, "present": 0, "bad": None})
                    if clause not in toks:
                        slot["absent"] += 1
                        if not _is_zero_gbp(val) and slot["bad"] is None:
                            slot["bad"] = (f"without a {clause.upper()} clause ({show_tree(tree)}) `{st[1]}.{fld}` is `{_short(val)}`, "
                                           "not zero GBP")
                    else:
                        slot["present"] += 1
                        sub = [k for k in _subtrees(tree) if k[0] == clause]
                        want = E.consume(sub[0]) if sub else None
                        if (want is None or not contains(val, want)) and slot["bad"] is None:
                            slot["bad"] = (f"with a {clause.upper()} clause ({show_tree(tree)}) `{st[1]}.{fld}` is `{_short(val)}`: "
                                           "the written amount is dropped")
        for (fld, clause), slot in sorted(per.items()):
            if slot["absent"]:
                n += 1
            rep.ob("R6", f"{name}:{clause}→{fld}", slot["bad"] is None,
                   f"omitted {clause.upper()} builds zero GBP ({slot['absent']} trees), a written one is kept ({slot['present']} trees)"
                   if slot["bad"] is None else slot["bad"], f"crates/cgt-core/src/parser.rs:{cons[name]['line']}",
                   key=f"R6:{name}:default-{fld}")
    rep.count("default_arms", n)
    rep.count("derivation_trees_evaluated", n_trees)
    if n < 6:
        rep.unresolved("R6", "default-arms", f"only {n} defaulting rule/field pairs found")


def _subtrees(tree):
    out = [tree]
    for k in tree[1]:
        out += _subtrees(k)
    return out


def parser_errors(F, rep):
    n = 0
    for b in F.bodies.values():
        if b.crate != "cgt_core" or "::parser::" not in b.id:
            continue
        for i, si, s in b.assigns():
            rv = s["rv"]
            if rv["k"] == "agg" and rv["adt"] == "cgt_core::error::CgtError":
                n += 1
                rep.ob("R7", f"{b.short}:{rv['variant']}", rv["variant"] == "ParseError",
                       "parser errors are pest errors (carry line/column)" if rv["variant"] == "ParseError" else
                       f"the parser builds CgtError::{rv['variant']}, which carries no position", b.loc(s["sp"]),
                       key=f"R7:{b.short}:{rv['variant']}")
    rep.count("parser_error_constructions", n)


def error_locations(F, rep):
    """R7 (the error identifies the offending line): a pest error coming up from a child consumer carries the child's position; the
    consumers pass it on as it is. A `map_err` on a `Result<_, pest::Error>` whose closure builds a NEW error (`input.error(..)`,
    `Error::new_from_span`) re-locates it to wherever that node starts — for the list consumer, line 1 (seeded change C13-s5)."""
    from mir import Terms, parse_callee
    n = 0
    for b in F.bodies.values():
        if b.crate != "cgt_core" or "::parser::" not in b.id or b.kind == "closure":
            continue
        tb = None
        for i, t in b.calls():
            if parse_callee(t["callee"])[2] != "map_err" or "pest::error::Error<" not in (t.get("aty") or [""])[0] or len(t["args"]) < 2:
                continue
            n += 1
            tb = tb or Terms(F, b, inline_depth=0)
            clo = tb.operand(t["args"][1])
            rebuilt = False
            if isinstance(clo, tuple) and clo and clo[0] == "closure" and clo[1] in F.bodies:
                cb = F.bodies[clo[1]]
                rebuilt = any(u["callee"].endswith("Node::<'i, R, D>::error") or "::error::Error::<R>::new_from" in u["callee"] or
                              (parse_callee(u["callee"])[2] == "error" and "pest_consume" in u["callee"]) for _, u in cb.calls())
            rep.ob("R7", f"{b.short}:child-error-kept@{i}", not rebuilt, "the child's pest error is passed on with its own position" if not rebuilt else
                   f"`{b.short}` replaces a child consumer's error by a new one built on its own node: the reported line and column are those of the "
                   "enclosing rule, not of the offending token", b.loc(t["sp"]), key=f"R7:{b.short}:child-error-relocated")
    rep.count("pest_error_map_err_sites", n)


def parsed_text_is_the_input(F, rep):
    """R7 (line and column are those of the user's file): pest computes positions on the text it is given. The parser entry hands
    its own parameter to `Parser::parse` unchanged; a `trim`, a slice or a replacement in between makes every reported position
    relative to the transformed text (leading blank lines removed → every line number too small; seeded change C13-s7)."""
    from mir import Terms, parse_callee, show
    n = 0
    for b in F.bodies.values():
        if b.crate != "cgt_core" or "::parser::" not in b.id:
            continue
        tb = None
        for i, t in b.calls():
            if parse_callee(t["callee"])[2] not in ("parse", "parse_with_userdata") or "pest" not in t["callee"] or len(t["args"]) < 2:
                continue
            tb = tb or Terms(F, b, inline_depth=0)
            x = tb.operand(t["args"][1])
            while isinstance(x, tuple) and x and x[0] == "call" and parse_callee(x[1])[2] in ("as_str", "deref", "as_ref", "borrow", "as_mut_str") and len(x[2]) == 1:
                x = x[2][0]
            n += 1
            ok = isinstance(x, tuple) and x and x[0] == "param"
            rep.ob("R7", f"{b.short}:parsed-text", ok, "the grammar is run on the caller's text itself (positions are those of the file)" if ok else
                   f"`{b.short}` runs the grammar on {show(x)[:120]}, not on its input: line/column of every error are relative to the transformed text",
                   b.loc(t["sp"]), key=f"R7:{b.short}:parsed-text-transformed")
    rep.count("grammar_entry_calls", n)
    if n < 1:
        rep.unresolved("R7", "grammar-entry", "no call of the pest parser found in the parser module")


def whitespace_between_tokens(g, rep):
    """R9 (extra spaces or tabs between tokens): pest inserts its implicit WHITESPACE only inside NORMAL rules. An atomic (`@`) or
    compound-atomic (`$`) rule must therefore be one lexeme; one that holds a keyword AND an operand (`${ ^"RATIO" ~ " "+ ~ ratio }`)
    fixes the separator itself and a tab or a second kind of blank between the two is rejected (seeded change C13-s6)."""
    n = 0

    def parts(e, in_pred=False):
        k = e["k"]
        if k in ("pos", "neg"):
            return
        if k in ("str", "insens"):
            yield ("kw" if any(ch.isalpha() for ch in e["s"]) else "lit", e["s"])
        elif k == "ident":
            if e["s"] in g.rules and g.emits_token(e["s"]) and e["s"] not in ("WHITESPACE", "COMMENT", "NEWLINE"):
                yield ("tok", e["s"])
            elif e["s"] in g.rules and g.rules[e["s"]]["ty"] == "silent" and e["s"] not in ("WHITESPACE", "COMMENT", "NEWLINE"):
                yield from parts(g.rules[e["s"]]["expr"])
        for x in ("a", "b", "e"):
            if isinstance(e.get(x), dict):
                yield from parts(e[x])
    for name in g.order:
        if not g.is_atomic(name):
            continue
        n += 1
        ps = list(parts(g.rules[name]["expr"]))
        kws = [s for k_, s in ps if k_ == "kw"]
        toks = [s for k_, s in ps if k_ == "tok"]
        ok = not (kws and toks) and len(toks) <= 1
        rep.ob("R9", f"{name}:one-lexeme", ok, f"atomic rule `{name}` is a single lexeme" if ok else
               f"atomic rule `{name}` spans {'keyword ' + repr(kws[0]) + ' and ' if kws else ''}token(s) {toks}: no implicit whitespace applies between them, "
               "so tabs or repeated blanks there are rejected", "crates/cgt-core/src/parser.pest", key=f"R9:{name}:atomic-multi-token")
    rep.count("atomic_rules", n)


def currency_case(F, rep):
    """R8 (case of currency codes): the grammar accepts a code in any case (R3 looks at keywords, the code itself is
    ASCII_ALPHA{3}); the ISO table is upper-case, so the consumer must fold the case before the look-up — otherwise `usd` parses
    in the grammar and is then rejected as an invalid currency (seeded change C13-s3)."""
    from mir import Terms, parse_callee, subterms
    n = 0
    for b, i, t in F.call_sites(lambda c: c.endswith("Currency::from_code")):
        if b.crate != "cgt_core" or "::parser::" not in b.id:
            continue
        n += 1
        tb = Terms(F, b, inline_depth=1)
        arg = tb.operand(t["args"][0])
        ok = any(isinstance(x, tuple) and x and x[0] == "call" and parse_callee(x[1])[2] in ("to_uppercase", "to_ascii_uppercase") for x in subterms(arg))
        rep.ob("R8", f"{b.short}:currency-case-folded", ok, "the currency code is upper-cased before the ISO look-up" if ok else
               "the currency code is looked up as written: lower- or mixed-case codes are rejected although the grammar accepts them",
               b.loc(t["sp"]), key=f"R8:{b.short}:currency-case")
    if n < 1:
        rep.unresolved("R8", "currency-lookup", "no ISO currency look-up found in the DSL parser")


STR_TESTS = ("starts_with", "ends_with", "contains", "eq", "ne", "find", "rfind", "strip_prefix", "strip_suffix", "matches", "split_once",
             "rsplit_once", "split", "trim_start_matches", "trim_end_matches", "cmp", "partial_cmp")
CASE_FOLDS = ("to_uppercase", "to_lowercase", "to_ascii_uppercase", "to_ascii_lowercase", "make_ascii_uppercase", "make_ascii_lowercase")


def matched_text_tests(F, scope, is_text, inline_depth=1):
    """(body, bb, term, literal) for every case-SENSITIVE test of grammar-matched text against a literal that contains a letter:
    a str predicate / search whose subject is rooted at the node's matched text (`Node::as_str`) with no case fold on the way and whose
    pattern is a string literal with a cased character. `eq_ignore_ascii_case` and tests of folded text are not listed."""
    from mir import Terms, parse_callee, subterms
    out, n_text = [], 0
    for b in F.bodies.values():
        if not scope(b):
            continue
        tb = None
        for i, t in b.calls():
            m = parse_callee(t["callee"])[2]
            if is_text(t["callee"]):
                n_text += 1
            if m not in STR_TESTS or len(t["args"]) < 2 or "str" not in t["callee"]:
                continue
            tb = tb or Terms(F, b, inline_depth=inline_depth)
            ops = [tb.operand(a) for a in t["args"]]

            def raw_text(x, folded=False):
                if isinstance(x, tuple) and x:
                    if x[0] == "call":
                        mm = parse_callee(x[1])[2]
                        if mm in CASE_FOLDS:
                            return False
                        if is_text(x[1]):
                            return True
                    return any(raw_text(y) for y in x[1:] if isinstance(y, tuple)) or \
                        any(raw_text(z) for y in x[1:] if isinstance(y, tuple) for z in y if isinstance(z, tuple) and (not y or not isinstance(y[0], str)))
                return False
            lits = [x[1] for o in ops for x in subterms(o) if isinstance(x, tuple) and len(x) == 2 and x[0] == "str" and isinstance(x[1], str)
                    and any(ch.isalpha() and ch.lower() != ch.upper() for ch in x[1])]
            subj = [o for o in ops if raw_text(o)]
            if lits and subj:
                out.append((b, i, t, lits[0]))
    return out, n_text


def consumer_case(F, rep):
    """R3 (keywords in any case — also behind the grammar): the grammar matches keywords case-insensitively, so a consumer that looks at
    the matched TEXT again must not compare it case-sensitively with a spelled-out word. `input.as_str().starts_with("UNSPLIT")` on a
    rule `(^"UNSPLIT" | ^"SPLIT") ~ …` accepts `unsplit` in the grammar and then reads it as SPLIT (seeded change C13-s9)."""
    sites, n_text = matched_text_tests(F, lambda b: b.crate == "cgt_core" and "::parser::" in b.id,
                                       lambda c: c.endswith("::as_str") and ("pest_consume::node::Node" in c or "pest::iterators" in c))
    rep.count("matched_text_reads", n_text)
    if n_text < 1:
        rep.unresolved("R3", "matched-text", "no consumer reads a node's matched text (Node::as_str) — the leaf consumers were not found")
        return
    rep.ob("R3", "consumers:no-case-sensitive-keyword-test", not sites,
           f"none of the {n_text} reads of matched text is compared case-sensitively with a spelled-out word" if not sites else
           "; ".join(f"`{b.short}` tests the matched text with {t['callee'].split('::')[-1]}({lit!r}) — case-sensitive, while the grammar accepts the "
                     "word in any case: a lower- or mixed-case spelling takes the other branch" for b, i, t, lit in sites[:3]),
           sites[0][0].loc(sites[0][2]["sp"]) if sites else "crates/cgt-core/src/parser.rs",
           key="R3:consumer-case-sensitive:" + (sites[0][0].short if sites else ""))


def controls(pctx, rep):
    try:
        sites, n = matched_text_tests(pctx.F, lambda b: True, lambda c: "TextNode" in c and c.endswith("::as_str"), inline_depth=0)
        names = sorted({b.short for b, i, t, lit in sites})
        rep.control("R3:case-sensitive-text-test", names == ["keyword_test_case_sensitive"],
                    f"posctl: case-sensitive tests of matched text in {names} (expected ['keyword_test_case_sensitive'])")
    except Exception as e:
        rep.control("R3:case-sensitive-text-test", False, f"detector failed on posctl: {e}")


def run(ctx, rep):
    S = ctx.S
    if S is None or "error" in S["grammar"]:
        rep.unresolved("R1", "grammar", f"grammar facts unavailable: {(S or {}).get('grammar', {}).get('error')}")
        return
    g = lang_inclusion(S, rep)
    list_level(S, g, rep)
    case_and_newlines(S, g, rep)
    whitespace_between_tokens(g, rep)
    currency_lookahead(S, g, rep)
    defaults(S, g, rep)
    parser_errors(ctx.F, rep)
    error_locations(ctx.F, rep)
    parsed_text_is_the_input(ctx.F, rep)
    currency_case(ctx.F, rep)
    consumer_case(ctx.F, rep)
    # "a missing final newline" also at the seam between two input files: the CLI joins them with a line break (shared with
    # C06-R4); glued together, the last line of one file and the first of the next become one line — rejected, or swallowed
    # by a trailing comment (seeded change C13-s4)
    import rules.c06 as c06
    from core import Report
    from roles import Roles
    r2 = Report("tmp")
    c06.cli_join(Roles(ctx.F), r2)
    for o in r2.obligations:
        rep.ob("R4", "files:" + o["instance"], o["ok"], o["detail"], o["site"], key="R4:files:" + o["instance"])
    for v in r2.violations:
        if not any(o["instance"] == v["instance"] for o in r2.obligations):
            rep.ob("R4", "files:" + v["instance"], False, v["detail"], v["site"], key="R4:files:" + v["instance"])
