"""C12 — earlier years are stable under later additions (thin structural clauses, stated as such)."""
from mir import Terms, parse_callee, show, op_place, op_const, place_proj, subterms
from roles import Roles, RULES, agg_fields, guards_of, truth
import rules.c01 as c01
import rules.c11 as c11
import panics as P

META = {
    "explanation": (
        "Thin by nature: the property relates two runs; only necessary structure is decided. R1 (bounded look-ahead): among the "
        "functions reachable from the sell cascade, those that receive the whole transaction slice are classified — unused "
        "parameter; the 30-day loop, whose candidate handling is reachable only for day differences in [1, 30] (interval "
        "shared with C01-R3) and which starts after the sale's index; pure forwarders; same-date scans whose element filter "
        "requires `date == d` with d rooted at an in-window candidate at every call site. Any other forward read of the timeline "
        "is reported. R2: the whole-timeline pre-pass influences matching only through cost offsets (its result reaches only "
        "lot cost offsets and 30-day leg costs, never a matched quantity), and only capital-return / accumulation arms write "
        "them (C11-R1/R4). R3: tax-year membership is decided by the disposal's own date with an exact 6 April boundary in every "
        "derivation and filter (shared with C07-R1). Does not decide the relation between report(prefix) and report(prefix + suffix). R4: the canonical sort is stable (shared with C06-R2) — with an unstable sort the arrangement of an earlier day's lines depends on the length of the whole list. R5: a summary's dividend figures are read under its own tax year (shared with C04-R6), not under whichever year follows in the stream of legs. R1 also: every write of state the 30-day producer carries from line to line is dominated by a test on the line's date (no whole-timeline flags). R4 also: the stable sort is the only reordering of the list in the canonicaliser (no reverse/rotate/swap)."),
    "trusted_base": ["C01-R3 interval analysis", "rustc MIR + resolution"],
}

SLICE = "[cgt_core::models::GbpTransaction]"


def bounded_lookahead(R, rep):
    F = R.F
    c = R.require("cascade")
    from panics import reachable
    reach, _ = reachable(F, [c.id])
    bnb = R.leg("BedAndBreakfast")[0]
    n = 0
    for rid in sorted(reach):
        b = F.bodies[rid]
        if not P.user_written(F, b) or b.id == c.id:
            continue
        ps = [k for k in range(b.argc) if SLICE in b.local_ty(k + 1)]
        if not ps:
            continue
        n += 1
        tb = R.terms(b, 0)
        pl = ps[0] + 1
        # uses of the parameter
        uses = []
        for i, t in b.calls():
            for ai, a in enumerate(t["args"]):
                p = op_place(a)
                r = None
                if p is not None:
                    from flow import root_of_operand
                    r = root_of_operand(b, a)
                if r and r[0] == pl:
                    uses.append((i, t, ai))
        if not uses:
            rep.ob("R1", f"{b.short}:unused", True, "receives the timeline but never reads it", b.loc(), key=f"R1:{b.short}")
            continue
        if b.id == bnb.id:
            # interval + start index are C01 obligations; re-evaluate here
            from core import Report
            r2 = Report("tmp")
            c01.window(R, r2)
            iv = [o for o in r2.obligations if o["instance"] in ("window:[1,30]", "lookahead:forwards-from-sale")]
            ok = len(iv) == 2 and all(o["ok"] for o in iv)
            rep.ob("R1", f"{b.short}:window-bounded", ok,
                   "the forward scan handles a candidate only within 30 days after the sale and starts after the sale's own index" if ok else
                   "the forward scan over the timeline is not bounded by the 30-day window: " + "; ".join(o["detail"][:120] for o in iv if not o["ok"]),
                   b.loc(), key=f"R1:{b.short}:unbounded")
            continue
        kinds = set()
        for i, t, ai in uses:
            m = parse_callee(t["callee"])[2]
            if t["callee"] in F.bodies:
                kinds.add("forward")
            elif m in ("iter", "into_iter", "len", "is_empty", "deref", "filter", "filter_map", "map", "sum", "copied", "cloned"):
                kinds.add("len" if m in ("len", "is_empty", "deref") else "iter")
            else:
                kinds.add("other:" + m)
        if kinds <= {"forward", "len"}:
            rep.ob("R1", f"{b.short}:forwarder", True, "only passes the timeline on to callees (classified separately)", b.loc(), key=f"R1:{b.short}")
            continue
        if "iter" in kinds and not any(k.startswith("other:") for k in kinds):
            # same-date scan: the element filter requires date equality with a date parameter — as a `filter` closure or as
            # guards around every accumulation inside a loop over the slice
            ok = False
            dparam = None
            for i, t in b.calls():
                if parse_callee(t["callee"])[2] == "filter":
                    clo = tb.operand(t["args"][1])
                    if isinstance(clo, tuple) and clo[0] == "closure" and clo[1] in F.bodies:
                        cb = F.bodies[clo[1]]
                        ct = Terms(F, cb, inline_depth=0)
                        conds = [ct.operand(cb.term(s)["discr"]) for s in cb.reachable() if cb.term(s)["k"] == "switch"] + [ct.local(0)]
                        for cnd in conds:
                            for x in subterms(cnd):
                                if isinstance(x, tuple) and x and x[0] == "cmp" and x[1] == "Eq" and show(x[2]).endswith(".date"):
                                    ok = True
                                    # which capture is it compared with?
                                    caps = clo[2]
                                    for cp in caps:
                                        if isinstance(cp, tuple) and cp[0] == "param" and "NaiveDate" in b.local_ty(cp[1] + 1):
                                            dparam = cp[1]
            if not ok:
                from mir import is_decimal_arith, is_decimal_arith_assign
                acc = [(i, t) for i, t in b.calls() if is_decimal_arith(t["callee"]) or is_decimal_arith_assign(t["callee"])
                       or parse_callee(t["callee"])[2] in ("push", "insert", "extend")]
                guarded = 0
                for i, t in acc:
                    for cnd, val, s in guards_of(b, tb, i):
                        if isinstance(cnd, tuple) and cnd[0] == "cmp" and cnd[1] in ("Eq", "Ne") and (truth(val) == (cnd[1] == "Eq")):
                            for el, other in ((cnd[2], cnd[3]), (cnd[3], cnd[2])):
                                if show(el).endswith(".date") and "next(" in show(el, 0) and isinstance(other, tuple) and other[0] == "param" \
                                        and "NaiveDate" in b.local_ty(other[1] + 1):
                                    guarded += 1
                                    dparam = other[1]
                                    break
                            else:
                                continue
                            break
                ok = bool(acc) and guarded == len(acc)
            sites_ok = True
            why_sites = ""
            if ok and dparam is not None:
                for cb2, ci, ct2 in F.call_sites(lambda cal, bid=b.id: cal == bid):
                    a = R.terms(cb2, 0).operand(ct2["args"][dparam])
                    # rooted at a transaction's own date (the in-window candidate passed down by the 30-day loop)
                    if not show(a).endswith(".date"):
                        sites_ok = False
                        why_sites = f"called with date {show(a)[:40]}"
            rep.ob("R1", f"{b.short}:same-date-scan", ok and sites_ok,
                   "scans the timeline only for lines whose date equals the given (in-window candidate's) date" if ok and sites_ok else
                   f"{b.short} scans the whole timeline without a date-equality filter {why_sites}: lines arbitrarily far in the future can influence an earlier disposal",
                   b.loc(), key=f"R1:{b.short}:unbounded")
            continue
        rep.ob("R1", f"{b.short}:timeline-use", False, f"{b.short} reads the whole timeline in an unclassified way ({sorted(kinds)})", b.loc(),
               key=f"R1:{b.short}:unclassified")
    rep.count("functions_receiving_timeline", n)
    if n < 3:
        rep.unresolved("R1", "timeline-receivers", f"only {n} functions below the cascade receive the transaction slice")


def _project_carriers(F, t):
    """`carrier.field` of a locally built context struct (`LookAhead { cost_offsets, future_consumption, .. }`) stands for the
    value the struct was built with, provided nothing in the workspace assigns that field: the other fields of the carrier
    are then not part of the term"""
    if not isinstance(t, tuple) or not t:
        return t
    if len(t) == 3 and t[0] == "field" and isinstance(t[1], tuple) and t[1] and t[1][0] == "var" and len(t[1]) > 2 \
            and isinstance(t[1][2], tuple) and t[1][2] and t[1][2][0] == "agg":
        init = t[1][2]
        fv = dict(init[3]).get(t[2])
        if fv is not None and not P._field_writes_anywhere(F, init[1], t[2]):
            return _project_carriers(F, fv)
    return tuple(_project_carriers(F, x) if isinstance(x, tuple) else x for x in t)


_COMPUTING_TRAITS = {"Add", "Sub", "Mul", "Div", "Rem", "Neg", "AddAssign", "SubAssign", "MulAssign", "DivAssign", "RemAssign",
                     "PartialEq", "PartialOrd", "Ord", "Sum", "Product"}
_COMPUTING_METHODS = {"checked_add", "checked_sub", "checked_mul", "checked_div", "saturating_add", "saturating_sub", "saturating_mul",
                      "min", "max", "abs", "cmp", "partial_cmp", "eq", "ne", "lt", "le", "gt", "ge", "sum", "product", "is_zero",
                      "is_sign_negative", "is_sign_positive", "any", "all", "find", "find_map", "position", "fold", "try_fold", "map",
                      "filter", "filter_map", "for_each", "reduce", "count", "contains", "binary_search", "round_dp", "normalize"}


def _computes(callee):
    """library callees that compute with, compare or search their argument (as opposed to handing an element or the value on)"""
    from mir import trait_base
    ty, tr, m = parse_callee(callee)[:3]
    return trait_base(tr) in _COMPUTING_TRAITS or m in _COMPUTING_METHODS


def prepass_influence(R, rep):
    F = R.F
    d = R.require("dayloop")
    pre = R.require("prepass")
    rg = R.region(d)
    helper_ids = set(rg.bodies)
    bad = []
    for it in rg.items:
        u = it["term"]
        if u["callee"] == pre.id or u["callee"] in helper_ids:
            continue
        for ai in range(len(u["args"])):
            term = rg.arg(it, ai)
            if any(isinstance(x, tuple) and x and x[0] == "call" and x[1] == pre.id for x in subterms(term)):
                m = parse_callee(u["callee"])[2]
                # library combinators (get/copied/unwrap_or*/…) only hand the value on — what becomes of it is followed by the
                # quantity rule below; the rule is about which *workspace* code receives the pre-pass result
                ok = (F.body(u["callee"]) is None and not _computes(u["callee"])) \
                    or u["callee"] == R.require("cascade").id or u["callee"].endswith("AcquisitionExtras::new") or u["callee"].endswith("add_acquisition")
                if not ok:
                    bad.append(u["callee"])
    rep.ob("R2", "prepass:result-used-as-offsets-only", not bad, "the pre-pass result is only indexed for cost offsets and handed to the cascade" if not bad else
           f"the pre-pass result also flows into {sorted(set(bad))}", d.loc(), key="R2:prepass:uses")
    # in the 30-day producer the offsets reach the cost, never the quantity
    b, sites = R.leg("BedAndBreakfast")
    for bb, term, site in sites:
        q = _project_carriers(F, agg_fields(term)["quantity"])
        mentions = "cost_offsets" in show(q, 0) or any(isinstance(x, tuple) and x and x[0] == "param" and "Decimal]" in b.local_ty(x[1] + 1) for x in subterms(q))
        if not mentions:
            # a branch on an offset matters when anything but the choice of the offset VALUE depends on it: the blocks that are
            # control-dependent on such a branch must be effect-free (no calls, no leg construction, no loop exit)
            tb0 = R.terms(b, 0)
            for sb in b.reachable():
                sw = b.term(sb)
                if sw["k"] == "switch":
                    cnd = tb0.operand(sw["discr"])
                    if any(isinstance(x, tuple) and x and x[0] == "param" and "Decimal]" in b.local_ty(x[1] + 1) for x in subterms(cnd)):
                        for cd in b.control_dependents(sb):
                            t = b.term(cd)
                            if t["k"] in ("call", "return", "switch", "assert") or any(s.get("rv", {}).get("k") == "agg" for s in b.stmts(cd)):
                                mentions = True
        rep.ob("R2", "30-day:offsets-not-in-quantity", not mentions, "cost offsets enter neither a matched quantity nor a branch condition of the 30-day producer" if not mentions else
               "the whole-timeline pre-pass offsets influence which shares are matched (quantity term or branch condition)", site, key="R2:bnb:offset-in-quantity")
    # who writes offsets: delegated to C11
    from core import Report
    r2 = Report("tmp")
    appo = c11.adjustments(R, r2)
    if appo:
        c11.order_and_who(R, r2, appo)
    for o in r2.obligations:
        if o["rule"] in ("R1", "R4") and ("only-two-events" in o["instance"] or "writers" in o["instance"] or "callers" in o["instance"]):
            rep.ob("R2", "C11:" + o["instance"], o["ok"], o["detail"], o["site"], key="R2:C11:" + o["instance"])


REORDERING = ("reverse", "rotate_left", "rotate_right", "swap", "swap_remove", "sort_unstable", "sort_unstable_by", "sort_unstable_by_key",
              "select_nth_unstable", "select_nth_unstable_by", "select_nth_unstable_by_key", "rev", "shuffle")


def only_stable_reordering(R, rep, rule="R4"):
    """R4 (also): between the caller's list and the day loop the ONLY reordering of the transaction list is the stable sort by date. A
    `reverse`, `rotate`, `swap` or `rev()` of the list — typically behind a test on the shape of the whole list ("the export is newest
    first, flip it") — arranges the lines of an earlier day differently once later lines are appended and the shape test no longer holds:
    the first-come claims on same-day lots change, and with them an earlier year's legs (seeded change C12-s9)."""
    import re as _re
    from mir import parse_callee
    F = R.F
    canon = R.require("canon")
    region = [canon] + [c for c in F.bodies.values() if c.kind == "closure" and c.id.startswith(canon.id + "::")]
    region += [F.bodies[c] for c in F.callgraph().get(canon.id, ()) if c in F.bodies and F.bodies[c].crate == "cgt_core" and "::matcher" in c and F.bodies[c] not in region]
    bad, n = [], 0
    for b in region:
        for i, t in b.calls():
            aty = t.get("aty") or []
            if not aty or not _re.search(r"(Vec(Deque)?<|\[)(&)?(cgt_core::models::Transaction|cgt_core::models::GbpTransaction|cgt_core::\S*Transaction)", aty[0]):
                continue
            n += 1
            m = parse_callee(t["callee"])[2]
            if m in REORDERING:
                bad.append((b, t, m))
    rep.ob(rule, "canon:only-stable-reordering", not bad, f"{n} calls on the transaction list in the canonicaliser, the stable sort is the only one that reorders it" if not bad else
           "; ".join(f"`{b.short}` calls `{m}` on the transaction list" for b, t, m in bad[:3]) + ": the arrangement of an earlier day's lines then depends on the whole "
           "list (its shape or length), not on those lines alone — appending later lines can change an earlier year's legs",
           bad[0][0].loc(bad[0][1]["sp"]) if bad else canon.loc(), key=f"{rule}:canon:reordered")
    if n < 1:
        rep.unresolved(rule, "canon-calls", "no call on the transaction list found in the canonicaliser (the sort was expected)")


def scans_act_by_date(R, rep, rule="R1"):
    """R1 (also): what the 30-day producer carries from one line of the timeline to the next (a flag, an accumulator, a claim) is written
    only under a test on that line's DATE relative to the sale — the window test of the main loop, the `date == sale date` test of the
    sale-day scan. A loop over the list that sets state for ANY line of the security ("this ticker has a SPLIT somewhere") makes an
    earlier disposal's legs depend on lines appended years later (seeded change C12-s10)."""
    from mir import parse_callee, show, place_proj, is_decimal_arith_assign
    from roles import guards_of
    from flow import root_of_operand
    F = R.F
    b = R.leg("BedAndBreakfast")[0]
    tb = R.terms(b, 0)
    n, bad = 0, []
    for h, bl in b.loops():
        outer = lambda l: any(d[1] not in bl for d in b.defs().get(l, [])) or (1 <= l <= b.argc)
        effects = []
        for i, si, st in b.assigns():
            l = st["lhs"]["l"]
            if i in bl and not place_proj(st["lhs"]) and b.local_name(l) and outer(l):
                effects.append((i, b.local_name(l), st.get("sp")))
        for i, t in b.calls():
            if i not in bl or not t.get("args"):
                continue
            if not (is_decimal_arith_assign(t["callee"]) or t["callee"] in F.bodies):
                continue
            for k, a in enumerate(t["args"]):
                aty = (t.get("aty") or [])
                if k < len(aty) and aty[k].replace("&'_ ", "&").startswith("&mut"):
                    r = root_of_operand(b, a)
                    if r and b.local_name(r[0]) and outer(r[0]):
                        effects.append((i, b.local_name(r[0]), t.get("sp")))
        for i, name, sp in effects:
            n += 1
            gs = [show(c) for c, v, w in guards_of(b, tb, i)]
            if not any(".date" in g or "num_days" in g for g in gs):
                bad.append((name, b.loc(sp) if sp else b.loc()))
    seen = set()
    for name, site in bad:
        if name in seen:
            continue
        seen.add(name)
        rep.ob(rule, f"lookahead:state-by-date:{name}", False, f"`{name}` is carried across the lines of the timeline and written with no test on the line's date: "
               "a line anywhere in the list (also one appended later) changes how an earlier disposal is matched", site, key=f"{rule}:lookahead:state-without-date-test:{name}")
    rep.ob(rule, "lookahead:state-by-date", not bad, f"{n} writes of loop-carried state in the 30-day producer, each under a test on the line's date" if not bad else
           f"{len(seen)} loop-carried variables are written without a date test", b.loc(), key=f"{rule}:lookahead:state-by-date")
    if n < 2:
        rep.unresolved(rule, "lookahead-state", f"only {n} loop-carried writes found in the 30-day producer (the ratio accumulators and the remaining counter were expected)")


def run(ctx, rep):
    R = Roles(ctx.F)
    bounded_lookahead(R, rep)
    prepass_influence(R, rep)
    # a year's totals are final only if membership of a disposal in a tax year depends on its own date alone and the
    # boundary is exact (shared with C07-R1): a year filter that also admits 6 April of the next year lets a later
    # transaction change an earlier year's figures
    # lines of one date keep their file order (the canonical sort is STABLE): with an unstable sort the arrangement of an earlier
    # day's lines depends on the length of the whole list, so appending later lines reshuffles earlier days and, through the
    # adjacent-merge and first-come matching, changes earlier years' legs (shared with C06-R2; seeded change C12-s7)
    import rules.c06 as c06
    from core import Report
    r6 = Report("tmp")
    c06.canon(R, r6)
    for o in r6.obligations:
        if o["instance"] == "canon:stable-ascending":
            rep.ob("R4", o["instance"], o["ok"], o["detail"], o["site"], key="R4:" + o["instance"])
    for v in r6.violations:
        if v["instance"].startswith("role:"):
            rep.ob("R4", v["instance"], False, v["detail"], v["site"], key="R4:" + v["instance"])
    only_stable_reordering(R, rep)
    scans_act_by_date(R, rep)
    # an earlier year's dividend figures come from the aggregate filed under that year itself (shared with C04-R6): a summary that is
    # handed the figures of whichever year happens to follow changes when a later disposal is appended (seeded change C12-s8)
    import rules.c04 as c04
    c04.summary_reads_own_year(R, rep, "R5")
    import rules.c07 as c07
    r2 = Report("tmp")
    c07.year_sites(ctx.F, r2)
    for o in r2.obligations:
        rep.ob("R3", o["instance"], o["ok"], o["detail"], o["site"], key="R3:" + o["instance"])
