"""C15 — a complete result or a clean error, never a crash (structural clauses)."""
from mir import Terms, parse_callee, show, op_place, op_const, place_proj, subterms
from flow import site_is_external, body_is_external, root_of_operand
import panics as P

META = {
    "explanation": (
        "R1: no explicit may-panic call (unwrap/expect/panic!/unreachable!/assert!, RefCell borrow, Vec::remove, "
        "split_at, TimeDelta::days with non-constant argument, …) in any user-written body of the 9 workspace crates; "
        "macro-generated sites (pest_consume, clap, tokio::select!, rmcp, serde derives) are excluded by expansion origin "
        "and audited in DESIGN.md App. B. R2: every MIR Assert terminator (bounds, integer overflow, ÷0, %0) and every "
        "Index::index call in user-written code reachable from an entry point is discharged by a recognised guard "
        "(dominating `i < len` on the same counter with no intervening write; enumerate/len/find-bounded usize sums; "
        "constant non-zero divisor; chrono-year range; TaxPeriod constructor invariant; constant index under a length "
        "test) or by an audited table entry keyed by (function, kind, operand shape); anything else is reported as an "
        "unproven may-panic. R3: every path in the call graph from an entry point to a Decimal operator-trait call / "
        "Iterator::sum::<Decimal> passes a catch_unwind barrier (or the arithmetic is checked). R4: in every function of the CLI crate no "
        "error exit is reachable after an output call (stdout, fs::write, or a call of a helper that transitively writes) except that call's own error, and the PDF "
        "write of a defaulted path is cut off by the exists() test (constant-flag and Option-correlated infeasible edges resolved). R5: the validator's match is exhaustive and the "
        "(variant, field, sign-class) table that pushes an error (collected over the validator and its helpers, each helper seen per call site) equals the table in the property statement. R6: every Decimal "
        "division in user-written code is dominated by a non-zero test on the very divisor (or the divisor comes from an iterator "
        "filtered on `> 0`, or is audited with the invariant that makes it non-zero), and the 30-day cumulative ratio is only ever "
        "multiplied/divided by ratios tested non-zero. "
        "R5 also: every guard between a line and an error push is the loop, the variant switch or a sign test (no field check hides behind an unrelated condition). Decides shapes on all paths/sites; does not run inputs, does not decide termination. R4 also treats an output function handed to a combinator as a fn item (`path.map(File::create)`) as an output call at that site. R7: in the calculation and the front-ends no `Result` of a workspace function is handed to `.ok()`/`.unwrap_or*()`/`.is_ok()`/`.map_or*()` — a refusal is never turned into an absence (no partial report). R7 also lists Iterator::flat_map / flatten over Result items of a workspace error type. R2 recognisers: an index guard must speak about the indexed container; scan helpers are followed across the call (caller-side guard, counter summaries)."),
    "trusted_base": [
        "rustc MIR with overflow checks on (dev profile); callee resolution by Instance::try_resolve",
        "panic behaviour of std/chrono/rust_decimal APIs as listed in lib/panics.py PANIC_CALLEES",
        "audited external macro expansions (DESIGN.md App. B)",
        "chrono years are within ±262 143; slices and Vecs hold at most isize::MAX elements",
    ],
}

# audited Assert / Index sites not covered by a generic recogniser.
# key = (function short name, kind, operand shapes…) ; value = reason. Shapes have variable names canonicalised.
AUDITED = {
    ("matcher::bed_and_breakfast::match_bed_and_breakfast", "Overflow(Add)", "p1", "1"):
        "sell_idx is an index into the live transaction slice (PROV: i + offset in the day loop)",
    ("ROLE:bnb", "Overflow(Add)", "p1", "1"):
        "sell_idx is an index into the live transaction slice (PROV: i + offset in the day loop)",
}


def _short(b):
    return b.short


def audit_reason(F, b, *tail):
    """reason of the audited-site table for this function (or the structural role it belongs to) and exactly this kind + operand
    shape, or None — shared with C20 so that both read the table the same way"""
    al = _role_alias(F, b)
    for table in (AUDITED, RANGE_AUDIT):
        r = table.get((_short(b),) + tail) or (al and table.get((al,) + tail))
        if r:
            return r
    return None


_ALIAS = {}


def _role_alias(F, b):
    """audited sites are also keyed by the ROLE of the function they sit in (found structurally), so that renaming the
    function or moving the statement into a helper of the same role does not orphan the audit"""
    if getattr(F, "_role_alias_memo", None) is None:
        m = {}
        try:
            from rules.c08 import _R
            R = _R(F)
            for role, body in (("ROLE:prepass", R.prepass), ("ROLE:dayloop", R.dayloop), ("ROLE:bnb", R.legs.get("BedAndBreakfast", (None,))[0])):
                if body is None:
                    continue
                for bid in R.region(body).bodies:
                    m.setdefault(bid, role)
                    for cid in F.children(bid):
                        m.setdefault(cid, role)
        except Exception:
            pass
        try:
            import rules.c18 as c18
            for rb, h, blks in c18.row_loops(F):
                m.setdefault(rb.id, "ROLE:converter-rows")
        except Exception:
            pass
        F._role_alias_memo = m
    return F._role_alias_memo.get(b.id)


def run(ctx, rep):
    F = ctx.F
    all_user = [b for b in F.bodies.values() if P.user_written(F, b)]
    rep.count("user_written_bodies", len(all_user))
    roots = P.entry_roots(F)
    reach, parent = P.reachable(F, roots)
    rep.count("entry_points", len(roots))
    rep.count("bodies_reachable_from_entries", len(reach))

    errors_not_dropped(F, rep, "R7")
    # ---------------- R1 explicit panics (all user-written bodies, reachable or not)
    n1 = 0
    for b, i, t, why in P.explicit_panics(F, all_user):
        n1 += 1
        m = parse_callee(t["callee"])[2]
        rep.ob("R1", f"{_short(b)}:{m}", why is not None,
               (f"{t['callee']}: {why}" if why else
                f"explicit may-panic call {t['callee']} in user-written code"
                + (f" (reachable: {P.path_from(parent, b.id)})" if b.id in reach else " (not reachable from an entry point)")),
               b.loc(t["sp"]), key=f"R1:{_short(b)}:{m}")
    rep.count("explicit_panic_candidates", n1)
    # audited macro-generated panics: counted, not flagged
    n_ext = 0
    for b in F.bodies.values():
        for i, t in b.calls():
            if P.PANIC_CALLEES.match(t["callee"]) and (site_is_external(b, t) or not P.user_written(F, b)):
                n_ext += 1
    rep.count("macro_generated_panic_sites_audited", n_ext)

    # ---------------- R2 asserts + index
    n2 = 0
    for b, i, t, msg, ops, why in P.assert_sites(F, all_user):
        n2 += 1
        shapes = tuple(P.shape(o) for o in ops)
        reason = why
        if reason is None:
            reason = audit_reason(F, b, msg, *shapes)
            if reason:
                reason = "audited: " + reason
        if reason is None and b.id not in reach:
            reason = "not reachable from any entry point (reachability recomputed on this run)"
        rep.ob("R2", f"{_short(b)}:{msg}:{'|'.join(shapes)}"[:160], reason is not None,
               reason or f"unproven may-panic: Assert({msg}) on {', '.join(show(o)[:80] for o in ops)} has no recognised guard"
               + f" (reachable: {P.path_from(parent, b.id)})",
               b.loc(t["sp"]), key=f"R2:{_short(b)}:{msg}:{'|'.join(shapes)}"[:200])
    for b, i, t, cont, ity, idx, why in P.index_sites(F, all_user):
        n2 += 1
        reason = why
        kind = "index" if ity == "usize" else ("str-range" if cont.endswith("str") else "range:" + ity.split("::")[-1][:24])
        if reason is None:
            # audits are keyed by the shape of the index expression as well: another index in the same function is not covered
            r = audit_reason(F, b, kind, P.shape(idx))
            if r:
                reason = "audited: " + r
        if reason is None and "HashMap" in cont:
            reason = None
        if reason is None and b.id not in reach:
            reason = "not reachable from any entry point"
        sh = P.shape(idx)
        rep.ob("R2", f"{_short(b)}:{kind}:{sh}"[:160], reason is not None,
               reason or f"unproven may-panic: {cont.split('<')[0]}[{show(idx)[:80]}] has no recognised guard",
               b.loc(t["sp"]), key=f"R2:{_short(b)}:{kind}:{sh}"[:200])
    rep.count("assert_and_index_sites", n2)
    # R2-callers: format_tax_year is only called with a TaxPeriod start year
    for b, i, t in F.call_sites(lambda c: c.endswith("cgt_format::format_tax_year")):
        if not P.user_written(F, b):
            continue
        tb = Terms(F, b, inline_depth=0)
        term = tb.operand(t["args"][0])
        ok = any(isinstance(x, tuple) and x and x[0] == "call" and x[1].endswith("TaxPeriod::start_year") for x in subterms(term))
        rep.ob("R2-callers", f"{_short(b)}:format_tax_year", ok,
               "argument is TaxPeriod::start_year() (bounded by the constructor)" if ok else
               f"format_tax_year called with {show(term)[:80]}, not a validated TaxPeriod start year (u16::MAX overflows `+ 1`)",
               b.loc(t["sp"]), key=f"R2:{_short(b)}:format_tax_year-arg")

    # ---------------- R3 decimal overflow reachable without a barrier
    barrier = P.catch_unwind_closures(F)
    sites = list(P.decimal_op_sites(F, F.bodies.values()))
    site_fns = {}
    for b, i, t in sites:
        site_fns.setdefault(b.id, []).append(b.loc(t["sp"]))
    rep.count("decimal_operator_sites", len(sites))
    rep.count("functions_with_decimal_operators", len(site_fns))
    groups = entry_groups(F, roots)
    for gname, groots in sorted(groups.items()):
        r, par = P.reachable(F, groots, stop=barrier)
        hit = sorted(f for f in site_fns if f in r)
        nsites = sum(len(site_fns[f]) for f in hit)
        rep.ob("R3", gname, not hit,
               "no Decimal operator call reachable outside a catch_unwind barrier" if not hit else
               f"{nsites} Decimal operator / sum sites in {len(hit)} functions are reachable from {gname} with no panic "
               f"barrier and no checked arithmetic (rust_decimal operators panic on overflow and ÷0), e.g. "
               f"{P.path_from(par, hit[0])} at {site_fns[hit[0]][0]}",
               site_fns[hit[0]][0] if hit else "", key=f"R3:decimal-overflow:{gname}")

    # ---------------- R6 every Decimal division is guarded against a zero divisor
    n6 = 0
    for b, i, t, dv, why in P.decimal_division_sites(F, all_user):
        n6 += 1
        sh_ = P.shape(dv)
        reason = why or DIV_AUDIT.get((_short(b), sh_)) or DIV_AUDIT.get((_short(b),))
        if reason and not why:
            reason = "audited: " + reason
        rep.ob("R6", f"{_short(b)}:÷{sh_}"[:150], reason is not None,
               reason or f"Decimal division by {show(dv)[:60]} is not dominated by a non-zero test on that value: rust_decimal panics on ÷0 "
               f"({'reachable: ' + P.path_from(parent, b.id) if b.id in reach else 'library code'})",
               b.loc(t["sp"]), key=f"R6:{_short(b)}:div:{sh_}"[:200])
    rep.count("decimal_division_sites", n6)
    # the 30-day ratio accumulator never becomes zero: every update of it is guarded by ratio != 0
    for b in all_user:
        if b.crate != "cgt_core" or "::matcher::" not in b.id:
            continue
        tb = None
        for i, t in b.calls():
            k = P.is_decimal_arith_assign(t["callee"])
            if k in ("MulAssign", "DivAssign"):
                tgt = op_place(t["args"][0])
                r = root_of_operand(b, t["args"][0])
                if r and 1 <= r[0] <= b.argc and b.local_ty(r[0]) == "&mut rust_decimal::decimal::Decimal":
                    tb = tb or Terms(F, b, inline_depth=0)
                    dv = tb.operand(t["args"][1])
                    from roles import guards_of
                    ok = any(P._nonzero_guard(cond, val, dv) for cond, val, s in guards_of(b, tb, i))
                    rep.ob("R6", f"{_short(b)}:ratio{'×' if k == 'MulAssign' else '÷'}=nonzero", ok,
                           "the cumulative ratio is only multiplied/divided by a ratio tested to be non-zero (it can never become 0)" if ok else
                           f"the cumulative split ratio is {'multiplied' if k == 'MulAssign' else 'divided'} by {show(dv)[:40]} without a non-zero test: "
                           "a zero ratio inside a 30-day window makes the later `available ÷ ratio` (or this division) panic",
                           b.loc(t["sp"]), key=f"R6:{_short(b)}:ratio-{k}")

    # ---------------- R4 CLI main: output ordering and PDF overwrite guard
    cli_output(F, rep)
    # ---------------- R5 validator table
    validator_table(F, rep)


# audited divisions whose divisor is non-zero by an invariant established elsewhere
DIV_AUDIT = {
    ("matcher::bed_and_breakfast::matched_quantities_with_split_ratio",):
        "the cumulative ratio starts at ONE and every update is guarded by ratio != 0 (checked by R6 ratio×=/÷= obligations)",
    ("amount::CurrencyAmount::to_gbp",):
        "rate_per_gbp > 0 is enforced when rates are loaded (C08-R7: `rate <= 0 → Err` dominates every insertion)",
    ("add_thousands_separators",): "not a Decimal division",
}

RANGE_AUDIT = {
    # (the day-scan slices transactions[i..day_end] used to be audited per function; they are now decided by the scan-slice
    # recogniser in lib/panics.py, so an off-by-one end or an unrelated start is reported)
    ("matcher::Matcher::compute_cost_offsets", "index", "some(next(var:v0)).transaction_idx"):
        "offsets[lot.transaction_idx]: offsets has transactions.len() entries and every lot index is an enumerate index of that slice",
    # the same audits by role (the function found structurally as the cost pre-pass / day loop, with its helpers)
    ("ROLE:prepass", "index", "some(next(var:v0)).transaction_idx"):
        "offsets[lot.transaction_idx]: offsets has transactions.len() entries and every lot index is an enumerate index of that slice",
    # the same site when the lots are walked by an internal iteration (`.for_each(|lot| offsets[lot.transaction_idx] = …)`): the lot is
    # the closure's parameter
    ("ROLE:prepass", "index", "p1.transaction_idx"):
        "offsets[lot.transaction_idx] (lot = the closure's element): offsets has transactions.len() entries and every lot index is an enumerate index of that slice",
}


def entry_groups(F, roots):
    g = {}
    for rid, kind in roots.items():
        b = F.bodies[rid]
        if rid == "cgt_tool::main":
            g.setdefault("cli:main", []).append(rid)
        elif rid.endswith("calculator::calculate"):
            g.setdefault("lib:calculate", []).append(rid)
        elif rid.endswith("parser::parse_file"):
            g.setdefault("lib:parse_file", []).append(rid)
        elif rid.endswith("validation::validate"):
            g.setdefault("lib:validate", []).append(rid)
        elif b.crate == "cgt_core" and "::dsl::" in rid:
            g.setdefault("lib:dsl", []).append(rid)
        elif b.crate == "cgt_converter" and rid.endswith("::convert"):
            g.setdefault("lib:convert", []).append(rid)
        elif b.crate == "cgt_formatter_plain":
            g.setdefault("lib:format-plain", []).append(rid)
        elif b.crate == "cgt_formatter_pdf":
            g.setdefault("lib:format-pdf", []).append(rid)
        elif b.crate == "cgt_wasm":
            g.setdefault("wasm", []).append(rid)
    for tool, kids in P.mcp_tool_bodies(F).items():
        g.setdefault("mcp:" + tool.rsplit("::", 1)[-1], []).extend([tool] + kids)
    return g


OUTPUT_CALLEES = ("std::io::stdio::_print", "std::fs::write", "std::fs::File::create", "std::fs::OpenOptions::open")


def cli_output(F, rep):
    """The CLI is analysed function by function (main and the user-written helpers of the cgt_tool crate): a call of a helper
    that (transitively) writes output counts as an output call in its caller."""
    from flow import effect_helpers
    bodies = [b for b in F.bodies.values() if b.crate == "cgt_tool" and P.user_written(F, b) and b.kind in ("fn", "method", "closure")]
    if not any(b.id == "cgt_tool::main" for b in bodies):
        rep.unresolved("R4", "cli-main", "cgt_tool::main not found")
        return
    helpers = effect_helpers(F, lambda cal: cal in OUTPUT_CALLEES, ("cgt_tool",), P.user_written)
    total = 0
    nerr = 0
    for main in bodies:
        tb = Terms(F, main, inline_depth=0)
        direct = [(i, t) for i, t in main.calls() if t["callee"] in OUTPUT_CALLEES]
        # an output function handed to a combinator as a fn item (`path.map(File::create)`) is called there
        for i, t in main.calls():
            if t["callee"] in OUTPUT_CALLEES:
                continue
            for a in t["args"]:
                x = tb.operand(a)
                if isinstance(x, tuple) and x and x[0] == "fn" and isinstance(x[1], str) and x[1].split("::<")[0] in OUTPUT_CALLEES:
                    direct.append((i, dict(t, callee=x[1].split("::<")[0])))
        outs = direct + [(i, t) for i, t in main.calls() if t["callee"] in helpers and t["callee"] != main.id]
        total += len(direct)
        if not outs:
            continue
        # error exits: blocks that assign the return place from a residual / Err
        err_blocks = []
        for i, t in main.calls():
            if parse_callee(t["callee"])[2] == "from_residual" and t.get("dest") and t["dest"]["l"] == 0:
                err_blocks.append((i, t))
        for i, si, s in main.assigns():
            if s["lhs"]["l"] == 0 and s["rv"]["k"] == "agg" and s["rv"]["variant"] == "Err":
                err_blocks.append((i, None))
        nerr += len(err_blocks)
        fname = main.short.split("::")[-1]
        for oi, ot in outs:
            after = main.reach_from(ot["target"]) if ot.get("target") is not None else set()
            bad = None
            for ei, et in err_blocks:
                if ei not in after:
                    continue
                # the output call's own error is allowed
                own = False
                if et is not None:
                    term = tb.operand(et["args"][0])
                    own = any(isinstance(x, tuple) and x and ((x[0] == "call" and x[1] == ot["callee"]) or
                                                              (x[0] == "fn" and isinstance(x[1], str) and x[1].split("::<")[0] == ot["callee"])) for x in subterms(term))
                if not own:
                    bad = (ei, et)
                    break
            name = ot["callee"].split("::")[-1]
            rep.ob("R4", f"{fname}:{name}@{_arm(main, oi)}", bad is None,
                   "no error exit is reachable after this output call (except its own error)" if bad is None else
                   f"an error exit at {main.loc((bad[1] or {}).get('sp'))} is reachable after output was written at {main.loc(ot['sp'])}: "
                   "a failing run can leave partial output",
                   main.loc(ot["sp"]), key=f"R4:{fname}:fallible-after-{name}")
    rep.count("cli_output_sites", total)
    rep.count("cli_error_exits", nerr)
    if total < 5:
        rep.unresolved("R4", "cli-outputs", f"only {total} output calls found in the CLI crate")
    # ---- PDF default-path guard: the function that builds a default `.pdf` path (itself or through a helper) and writes it
    def builds_default(b):
        out = [i for i, t in b.calls() if t["callee"].endswith("Path::with_extension")]
        for i, t in b.calls():
            if any((op_const(a) or {}).get("str", "").endswith(".pdf") for a in t["args"]) and "Path" in t["callee"]:
                out.append(i)
        for i, si, s in b.assigns():
            for k in _consts(s["rv"]):
                if k.get("str", "").endswith(".pdf"):
                    out.append(i)
        return out
    pdf_fn = None
    for main in bodies:
        defaults = builds_default(main)
        for i, t in main.calls():
            hb = F.bodies.get(t["callee"])
            if hb is not None and hb.crate == "cgt_tool" and hb.id != main.id and "PathBuf" in hb.ret and builds_default(hb):
                defaults.append(i)
        writes = [(i, t) for i, t in main.calls() if t["callee"] == "std::fs::write"]
        pdf_writes = [(i, t) for i, t in writes if any(main.block_cuts(i, d, i) and i in main.reach_from(d) for d in defaults)]
        if defaults and pdf_writes:
            pdf_fn = (main, defaults, pdf_writes)
            break
    if pdf_fn is None and _value_defaulted_pdf(F, rep, bodies, builds_default):
        return
    if pdf_fn is None and _variant_tagged_pdf(F, rep, bodies, builds_default):
        return
    if pdf_fn is None:
        rep.unresolved("R4", "pdf-default-path", "default PDF path construction or its write not found in the CLI crate")
        return
    main, defaults, pdf_writes = pdf_fn
    tb = Terms(F, main, inline_depth=0)
    exists = [(i, t) for i, t in main.calls() if t["callee"] == "std::path::Path::exists"]
    for wi, wt in pdf_writes:
        ok = False
        why = "no exists() test on the output path dominates the write of a defaulted path"
        for ei, et in exists:
            same = root_of_operand(main, et["args"][0]) and root_of_operand(main, wt["args"][0]) and \
                root_of_operand(main, et["args"][0])[0] == root_of_operand(main, wt["args"][0])[0]
            if not same:
                why = "exists() is tested on a different path value than the one written"
                continue
            # switch on exists result: true edge must not reach the write
            sw = et["target"]
            t2 = main.term(sw)
            if t2["k"] != "switch":
                continue
            true_t = t2["otherwise"]
            cut = wi not in main.reach_from(true_t)
            on_default = all(_exists_on_default_edge(main, tb, ei, d, wi) for d in defaults)
            if cut and on_default:
                ok = True
                why = "write of a defaulted path is unreachable when exists() is true, and exists() lies on every path from the default-path construction to the write"
            elif not cut:
                why = "the write is still reachable when exists() returns true"
            else:
                why = "a path from the default-path construction reaches the write without passing exists()"
        rep.ob("R4", "main:pdf-overwrite-guard", ok, why, main.loc(wt["sp"]), key="R4:main:pdf-overwrite-guard")


def _variant_tagged_pdf(F, rep, bodies, builds_default):
    """fourth spelling: the destination is an enum whose variant says whether the path was requested or derived
    (`PdfDestination::Derived(single.with_extension("pdf"))`). The write sits in a function that receives the enum; it must be
    dominated by the success of a guard call on the same value whose body, on the edge of every default-carrying variant, tests
    `exists()` on the payload and cannot return Ok from the true edge. Returns True when this spelling was found."""
    from roles import guards_of
    tagged = {}     # adt -> set of variant names built from a default path
    for b in bodies:
        dflt_blocks = set(builds_default(b))
        if not dflt_blocks:
            continue
        tb = Terms(F, b, inline_depth=0)
        for i, si, s in b.assigns():
            rv = s["rv"]
            if rv["k"] == "agg" and rv["adt"].startswith("cgt_tool::") and rv.get("variant") and rv["ops"]:
                payload = tb.operand(rv["ops"][0])
                txt = show(payload)
                if "with_extension" in txt or ".pdf" in txt or any(F.bodies.get(x[1]) is not None and builds_default(F.bodies[x[1]])
                                                                    for x in subterms(payload) if isinstance(x, tuple) and x and x[0] == "call"):
                    tagged.setdefault(rv["adt"], set()).add(rv["variant"])
    if not tagged:
        return False
    found = False
    for wb in bodies:
        writes = [(i, t) for i, t in wb.calls() if t["callee"] == "std::fs::write"]
        etypes = [adt for adt in tagged if any(adt.split("::")[-1] in wb.local_ty(k + 1) for k in range(wb.argc))]
        if not writes or not etypes:
            continue
        adt = etypes[0]
        names = [v["name"] for v in (F.adts.get(adt) or {"variants": []})["variants"]]
        for wi, wt in writes:
            found = True
            ok, why = False, "no guard call on the destination dominates the write"
            for ci, ct in wb.calls():
                g = F.bodies.get(ct["callee"])
                if g is None or g.crate != "cgt_tool" or not wb.dominates(ci, wi) or ci == wi or "Result" not in g.ret:
                    continue
                if not any(adt.split("::")[-1] in g.local_ty(k + 1) for k in range(g.argc)):
                    continue
                # the `?` on the guard's result: the write is not reachable from the Break edge
                gt = Terms(F, g, inline_depth=0)
                guard_ok = True
                seen_variants = set()
                for ei, et in g.calls():
                    if et["callee"] != "std::path::Path::exists" or et.get("target") is None or g.term(et["target"])["k"] != "switch":
                        continue
                    sw = g.term(et["target"])
                    from_true = g.reach_from(sw["otherwise"])
                    returns_ok = any(st["rv"]["k"] == "agg" and st["rv"].get("variant") == "Ok" and st["lhs"]["l"] == 0 for bi, _, st in g.assigns() if bi in from_true)
                    if returns_ok:
                        guard_ok = False
                    for cond, val, where in guards_of(g, gt, ei):
                        if isinstance(cond, tuple) and cond and cond[0] == "discr" and val.isdigit() and int(val) < len(names):
                            seen_variants.add(names[int(val)])
                if guard_ok and tagged[adt] <= seen_variants:
                    # and the caller stops on the guard's error
                    br = [bi for bi, bt in wb.calls() if parse_callee(bt["callee"])[2] == "branch" and wb.dominates(ci, bi) and wb.dominates(bi, wi)]
                    if br:
                        ok = True
                        why = (f"the write is dominated by `{g.short}(..)?`, which for the derived variant(s) {sorted(tagged[adt])} tests exists() and "
                               "cannot return Ok when the file exists")
                elif not guard_ok:
                    why = f"`{g.short}` can return Ok although exists() is true"
                else:
                    why = f"`{g.short}` does not test exists() for the derived variant(s) {sorted(tagged[adt] - seen_variants)}"
            rep.ob("R4", "main:pdf-overwrite-guard", ok, why, wb.loc(wt["sp"]), key="R4:main:pdf-overwrite-guard")
    return found


def _value_defaulted_pdf(F, rep, bodies, builds_default):
    """third spelling of the default path: `let path = output.clone().unwrap_or_else(|| default_path())` — the path is the
    default exactly when the Option is None. Considering only the runs on which it IS None (edges taken when
    `opt.is_some()` / `!opt.is_none()` removed), every path to the write must pass the exists() test, and the write must be
    unreachable from its true edge. Returns True when this spelling was found (and an obligation recorded)."""
    def strip(x):
        while isinstance(x, tuple) and x and x[0] == "call" and parse_callee(x[1])[2] in ("clone", "as_ref", "as_deref", "cloned", "copied", "to_owned", "map", "deref") and x[2]:
            x = x[2][0]
        return x
    for main in bodies:
        tb = Terms(F, main, inline_depth=0)
        fam = {main.id} | set(F.children(main.id))
        for wi, wt in [(i, t) for i, t in main.calls() if t["callee"] == "std::fs::write"]:
            P_ = tb.operand(wt["args"][0])
            src = None
            for x in subterms(P_):
                if isinstance(x, tuple) and x and x[0] == "call" and parse_callee(x[1])[2] in ("unwrap_or_else", "unwrap_or", "map_or_else", "map_or") and len(x[2]) >= 2:
                    dflt = x[2][1]
                    builds = False
                    if isinstance(dflt, tuple) and dflt and dflt[0] == "closure" and dflt[1] in F.bodies:
                        cb = F.bodies[dflt[1]]
                        builds = bool(builds_default(cb)) or any(
                            F.bodies.get(u["callee"]) is not None and F.bodies[u["callee"]].crate == "cgt_tool" and "PathBuf" in F.bodies[u["callee"]].ret
                            and builds_default(F.bodies[u["callee"]]) for _, u in cb.calls())
                    elif isinstance(dflt, tuple) and dflt and dflt[0] == "call" and dflt[1] in F.bodies:
                        builds = bool(builds_default(F.bodies[dflt[1]]))
                    if builds:
                        src = strip(x[2][0])
            if src is None:
                continue
            # edges that are only taken when the Option is Some
            some_edges = set()
            for s_, t in main.terms_of_kind("switch"):
                cnd = tb.operand(t["discr"])
                neg = False
                if isinstance(cnd, tuple) and cnd and cnd[0] == "un" and cnd[1] == "Not":
                    cnd, neg = cnd[2], True
                if isinstance(cnd, tuple) and cnd and cnd[0] == "call" and parse_callee(cnd[1])[2] in ("is_none", "is_some") and cnd[2] and strip(cnd[2][0]) == src:
                    is_none = (parse_callee(cnd[1])[2] == "is_none") != neg
                    false_t = [x for v, x in t["targets"] if v == "0"]
                    # is_none true → otherwise edge; the Some-only edge is the other one
                    if is_none:
                        some_edges.update((s_, x) for x in false_t)
                    else:
                        some_edges.add((s_, t["otherwise"]))
                if isinstance(cnd, tuple) and cnd and cnd[0] == "discr" and strip(cnd[1]) == src:
                    some_edges.update((s_, x) for v, x in t["targets"] if v == "1")
            exists = [(i, t) for i, t in main.calls() if t["callee"] == "std::path::Path::exists"]
            ok = False
            why = "no exists() test guards the write of a defaulted PDF path"
            for ei, et in exists:
                same = root_of_operand(main, et["args"][0]) and root_of_operand(main, wt["args"][0]) and \
                    root_of_operand(main, et["args"][0])[0] == root_of_operand(main, wt["args"][0])[0]
                t2 = main.term(et["target"]) if et.get("target") is not None else {"k": "?"}
                if not same or t2["k"] != "switch":
                    continue
                cut = wi not in main.reach_from(t2["otherwise"])
                passes = wi not in _reach_avoiding(main, 0, {ei}, some_edges)
                if cut and passes:
                    ok = True
                    why = "when no --output is given the defaulted path is tested with exists() on every path to the write, and an existing file stops it"
                elif not cut:
                    why = "the write is still reachable when exists() returns true"
                else:
                    why = "with no --output given, a path reaches the write without passing exists()"
            rep.ob("R4", "main:pdf-overwrite-guard", ok, why, main.loc(wt["sp"]), key="R4:main:pdf-overwrite-guard")
            return True
    return False


def _option_infeasible_edges(main, tb, start):
    """`start` lies in one arm of a match on an Option value X (edge-dominated by `discr(X) == None/Some`): switches on a
    bool defined as X.is_none() / X.is_some() have one infeasible edge for paths through `start`"""
    from roles import guards_of
    out = set()
    facts = {}
    for cnd, val, s in guards_of(main, tb, start):
        if isinstance(cnd, tuple) and cnd and cnd[0] == "discr":
            facts[cnd[1]] = "none" if str(val) == "0" else "some"
    if not facts:
        return out
    for s_, t in main.terms_of_kind("switch"):
        cnd = tb.operand(t["discr"])
        neg = False
        if isinstance(cnd, tuple) and cnd and cnd[0] == "un" and cnd[1] == "Not":
            cnd, neg = cnd[2], True
        if isinstance(cnd, tuple) and cnd and cnd[0] == "call" and parse_callee(cnd[1])[2] in ("is_none", "is_some") and "option" in cnd[1].lower() \
                and cnd[2] and cnd[2][0] in facts:
            truth = (facts[cnd[2][0]] == "none") == (parse_callee(cnd[1])[2] == "is_none")
            if neg:
                truth = not truth
            false_t = [x for v, x in t["targets"] if v == "0"]
            if truth:
                out.update((s_, x) for x in false_t)
            else:
                out.add((s_, t["otherwise"]))
    return out


def _is_default_flag_path(main, d, wi, ei):
    return True


def _flag_infeasible_edges(main, start):
    """edges of switches on a constant flag that cannot be taken by paths starting at `start`:
    a tuple local defined in several blocks with a constant bool component, tested by a later switch.
    Only the definition reachable from `start` (without passing another definition) counts."""
    out = set()
    defs = main.defs()
    for l, ds in defs.items():
        # a tuple — or a small carrier struct (`PdfTarget { path, is_default }`): same constructor in every definition, operands by position
        tds = [d for d in ds if d[0] == "assign" and (d[3]["rv"]["k"] == "tuple" or (d[3]["rv"]["k"] == "agg" and not d[3]["rv"].get("variant_idx")))]
        if len(tds) < 2 or len(tds) != len(ds):
            continue
        if len({(d[3]["rv"]["k"], d[3]["rv"].get("adt"), len(d[3]["rv"]["ops"])) for d in tds}) != 1:
            continue
        for fi in range(len(tds[0][3]["rv"]["ops"])):
            vals = {}
            for d in tds:
                k = op_const(d[3]["rv"]["ops"][fi])
                if k is None or k.get("ty") != "bool":
                    vals = None
                    break
                vals[d[1]] = k.get("int") or ("1" if k.get("disp") == "true" else "0")
            if not vals:
                continue
            other = set(vals)
            mine = [blk for blk in vals if blk in main.reach_from(start, removed_blocks=tuple(other - {blk}))]
            if len(mine) != 1:
                continue
            v = vals[mine[0]]
            # switches testing (copy l.fi)
            for s_, t in main.terms_of_kind("switch"):
                p = op_place(t["discr"])
                if p is None:
                    continue
                src = p
                dd = defs.get(p["l"], [])
                if len(dd) == 1 and dd[0][0] == "assign" and dd[0][3]["rv"]["k"] == "use":
                    q = op_place(dd[0][3]["rv"]["op"])
                    if q is not None:
                        src = q
                # follow one more copy (pattern bindings)
                pr = place_proj(src)
                if src["l"] != l:
                    d2 = defs.get(src["l"], [])
                    if len(d2) == 1 and d2[0][0] == "assign" and d2[0][3]["rv"]["k"] == "use":
                        q = op_place(d2[0][3]["rv"]["op"])
                        if q is not None and q["l"] == l:
                            pr = place_proj(q)
                            src = q
                if src["l"] != l or not pr or not isinstance(pr[-1], dict) or pr[-1].get("f") != fi:
                    continue
                for val, tgt in t["targets"]:
                    if val != v:
                        out.add((s_, tgt))
                if v in [x for x, _ in t["targets"]]:
                    out.add((s_, t["otherwise"]))
    return out


def _reach_avoiding(main, start, removed_blocks, removed_edges):
    seen = {start}
    st = [start]
    while st:
        x = st.pop()
        for y in main.succ(x):
            if (x, y) in removed_edges or y in removed_blocks or y in seen:
                continue
            seen.add(y)
            st.append(y)
    return seen


def _exists_on_default_edge(main, tb, ei, d, wi):
    """every feasible path from block d (default path built) to the write passes the exists() call block;
    branches on the constant is-default flag set on that path are resolved"""
    inf = _flag_infeasible_edges(main, d) | _option_infeasible_edges(main, tb, d) | _helper_flag_infeasible_edges(main, tb, d)
    return wi not in _reach_avoiding(main, d, {ei}, inf)


def _helper_flag_infeasible_edges(main, tb, d):
    """the default path comes out of a helper together with a flag (`fn resolve(..) -> (PathBuf, bool)`): when every alternative
    the helper returns with a derived path (`with_extension`, a `.pdf` constant) carries the constant flag `true`, the false edge
    of a test of that flag cannot be taken with a derived path"""
    from mir import summary
    t = main.term(d)
    if t.get("k") != "call":
        return set()
    F = tb.facts
    hb = F.bodies.get(t["callee"])
    if hb is None or hb.crate != main.crate or not (hb.ret.startswith("(") and "PathBuf" in hb.ret and "bool" in hb.ret):
        return set()
    sm = summary(F, hb.id, 1)
    alts = sm[1] if isinstance(sm, tuple) and sm and sm[0] == "phi" else (sm,)
    flags = {}
    for a in alts:
        if not (isinstance(a, tuple) and a and a[0] == "tuple" and len(a[1]) >= 2):
            return set()
        derived = any(isinstance(x, tuple) and x and ((x[0] == "call" and x[1].endswith("with_extension")) or (x[0] == "str" and str(x[1]).endswith(".pdf")))
                      for x in subterms(a[1][0]))
        if not derived:
            continue
        for k, comp in enumerate(a[1]):
            if isinstance(comp, tuple) and comp and comp[0] == "int" and comp[1] in (0, 1):
                flags.setdefault(k, set()).add(comp[1])
            else:
                flags.setdefault(k, set()).add(None)
    out = set()
    ct = tb.call_term(t)
    for k, vs in flags.items():
        if len(vs) != 1 or None in vs:
            continue
        v = next(iter(vs))
        for s_, sw in main.terms_of_kind("switch"):
            if tb.operand(sw["discr"]) != ("field", ct, str(k)):
                continue
            for val, tgt in sw["targets"]:
                if int(val) != v:
                    out.add((s_, tgt))
            if v == 0 or all(int(val) != v for val, _ in sw["targets"]):
                pass
            elif sw.get("otherwise") is not None and v == 0:
                out.add((s_, sw["otherwise"]))
            if v == 0 and sw.get("otherwise") is not None:
                out.add((s_, sw["otherwise"]))
    return out


def _consts(rv):
    out = []
    for key in ("op", "a", "b"):
        o = rv.get(key)
        if isinstance(o, dict) and isinstance(o.get("k"), dict):
            out.append(o["k"])
    for o in rv.get("ops") or []:
        if isinstance(o, dict) and isinstance(o.get("k"), dict):
            out.append(o["k"])
    return out


def _arm(main, bb):
    return "bb%d" % bb if False else "main"


# ----------------------------------------------------------------------------- R5

EXPECTED_VALIDATOR = {
    ("Buy", "amount"): {"-", "0"}, ("Buy", "price"): {"-"}, ("Buy", "fees"): {"-"},
    ("Sell", "amount"): {"-", "0"}, ("Sell", "price"): {"-"}, ("Sell", "fees"): {"-"},
    ("CapReturn", "amount"): {"-", "0"}, ("CapReturn", "total_value"): {"-"}, ("CapReturn", "fees"): {"-"},
    ("Accumulation", "amount"): {"-", "0"}, ("Accumulation", "total_value"): {"-"},
    ("Dividend", "total_value"): {"-"},
    ("Split", "ratio"): {"-", "0"}, ("Unsplit", "ratio"): {"-", "0"},
}

SIGN = {"Eq": {"0"}, "Lt": {"-"}, "Le": {"-", "0"}, "Gt": {"+"}, "Ge": {"+", "0"}, "Ne": {"-", "+"}}
FLIP = {"Lt": "Gt", "Gt": "Lt", "Le": "Ge", "Ge": "Le", "Eq": "Eq", "Ne": "Ne"}
NEG = {"Eq": "Ne", "Ne": "Eq", "Lt": "Ge", "Ge": "Lt", "Gt": "Le", "Le": "Gt"}


def _is_zero(t):
    return t == ("const", "Decimal::ZERO") or (isinstance(t, tuple) and t and t[0] == "int" and t[1] == 0)


def _error_pushes(F, b):
    """blocks in b that push onto a field named `errors`"""
    for i, t in b.calls():
        if parse_callee(t["callee"])[2] == "push" and "Vec" in t["callee"]:
            r = root_of_operand(b, t["args"][0])
            if (r and "errors" in r[1]) or "ValidationError>" in ((t.get("aty") or [""])[0]):
                yield i, t


def _guards(b, tb, bb):
    """sign conditions (term, classes) that edge-dominate block bb"""
    out = []
    for s in b.reachable():
        t = b.term(s)
        if t["k"] != "switch":
            continue
        cond = tb.operand(t["discr"])
        if not (isinstance(cond, tuple) and cond and cond[0] == "cmp"):
            continue
        op, lhs, rhs = cond[1], cond[2], cond[3]
        if _is_zero(rhs):
            subj = lhs
        elif _is_zero(lhs):
            subj, op = rhs, FLIP[op]
        else:
            continue
        false_t = [x for v, x in t["targets"] if v == "0"]
        if b.edge_dominates((s, t["otherwise"]), bb):
            out.append((subj, SIGN[op]))
        elif false_t and b.edge_dominates((s, false_t[0]), bb):
            out.append((subj, SIGN[NEG[op]]))
    return out


def _variant_field(t):
    """term field(dc(<op>, Variant), name)[.amount] -> (Variant, name)"""
    path = []
    while isinstance(t, tuple) and t:
        if t[0] == "field":
            path.append(t[2])
            t = t[1]
        elif t[0] == "dc":
            names = list(reversed(path))
            return t[2], names[0] if names else None
        elif t[0] in ("some", "cast"):
            t = t[1]
        else:
            return None
    return None


def _benign_guard(cond):
    """guards that belong to the validation itself: the iteration, the match on the operation, sign tests of amounts"""
    if not isinstance(cond, tuple) or not cond:
        return True
    if cond[0] == "discr":
        s = show(cond)
        return "next(" in s or "operation" in s
    if cond[0] == "cmp":
        return _is_zero(cond[2]) or _is_zero(cond[3])
    if cond[0] == "call" and parse_callee(cond[1])[2] in ("is_zero", "is_sign_negative", "is_sign_positive"):
        return True
    if cond[0] in ("not", "un") and isinstance(cond[-1], tuple):
        return _benign_guard(cond[-1])
    return False


def validator_table(F, rep):
    cands = [b for b in F.bodies.values() if b.id.endswith("validation::validate") and b.kind == "fn"]
    if len(cands) != 1:
        rep.unresolved("R5", "validator", f"{len(cands)} functions named validation::validate")
        return
    v = cands[0]
    tb = Terms(F, v, inline_depth=0)
    # EXH: a switch on the discriminant of Operation with `otherwise` unreachable
    exh = False
    from rules.c08 import _R
    for xb in _R(F).region(v, depth=2).bodies.values():          # the match may sit in a helper (the table of checks)
        xtb = tb if xb.id == v.id else Terms(F, xb, inline_depth=0)
        for i, t in xb.terms_of_kind("switch"):
            cond = xtb.operand(t["discr"])
            if isinstance(cond, tuple) and cond[0] == "discr" and ("operation" in show(cond) or "Operation<" in " ".join(xb.local_ty(k + 1) for k in range(xb.argc))):
                if xb.term(t["otherwise"])["k"] == "unreachable" and len(t["targets"]) >= 7:
                    exh = True
    rep.ob("R5", "validate:exhaustive-match", exh,
           "match on Operation lists all variants (no wildcard arm)" if exh else
           "validator's match on Operation has a wildcard/default arm or fewer than 7 arms: a variant can be skipped silently",
           v.loc(), key="R5:validate:exhaustive")
    got = {}
    # error pushes in validate and in the helpers it delegates to (any depth ≤ 2), each helper seen once per call site with
    # its parameters replaced by the caller's arguments, so a guard on `qty` inside `check_quantity(.., *amount)` is a guard
    # on `(tx.operation as Buy).amount`
    from rules.c08 import _R
    rg = _R(F).region(v, depth=2)
    for ex in rg.expansions:
        hb, ht, conv = ex["body"], ex["tb"], ex["conv"]
        for pi, pt in _error_pushes(F, hb):
            for subj, classes in _guards(hb, ht, pi):
                vf = _variant_field(conv(subj))
                if vf and vf[1]:
                    got.setdefault(vf, set()).update(classes)
    table_note = None
    if not got:
        # the validator may be written as data: a table of tagged checks per variant and one judge (lib/valtable.py)
        import valtable
        res = valtable.tagged_table(F, v, _variant_field)
        if res is not None:
            got, table_note = res
            rep.note("C15-R5 read from a table-driven validator: " + table_note)
    # "exactly when": nothing else may stand between a line and its field checks. Every guard on the way to an error push —
    # in the helper and at each call site up to the validator — must be the loop, the variant switch or a sign test; a check
    # that is only reached when, say, the ticker was bought before lets a malformed first SELL through (seeded change C15-s3)
    from roles import guards_of
    extra = {}
    for ex in rg.expansions:
        hb, ht = ex["body"], ex["tb"]
        for pi, pt in _error_pushes(F, hb):
            subjects = {_variant_field(ex["conv"](s)) for s, _ in _guards(hb, ht, pi)}
            subjects.discard(None)
            if not subjects:
                continue
            chain = [(hb, ht, pi)]
            e2 = ex
            while e2.get("via") is not None:
                via = e2["via"]
                pex = via["ex"]
                chain.append((pex["body"], pex["tb"], via["bb"]))
                e2 = pex
            for cb, ctb, cbb in chain:
                for cond, val, where in guards_of(cb, ctb, cbb):
                    if _benign_guard(cond):
                        continue
                    for vf in subjects:
                        extra.setdefault(vf, set()).add(show(cond)[:80])
    for vf in sorted(extra):
        rep.ob("R5", f"validate:{vf[0]}.{vf[1]}:unconditional", False,
               f"the check of {vf[0]}.{vf[1]} is only reached under {sorted(extra[vf])[:2]}: lines for which that does not hold are not validated",
               v.loc(), key=f"R5:validate:{vf[0]}.{vf[1]}:conditional")
    rep.ob("R5", "validate:checks-unconditional", not extra, "every field check is reached for every line of its kind" if not extra else
           f"{len(extra)} field checks sit behind an unrelated condition", v.loc(), key="R5:validate:checks-unconditional")
    rep.count("validator_table_entries", len(got))
    for key in sorted(set(EXPECTED_VALIDATOR) | set(got)):
        exp = EXPECTED_VALIDATOR.get(key, set())
        g = got.get(key, set())
        rep.ob("R5", f"validate:{key[0]}.{key[1]}", exp == g,
               f"error pushed exactly for sign classes {sorted(g)}" if exp == g else
               f"validator reports an error for {key[0]}.{key[1]} when its sign is in {sorted(g) or '{}'}, the property requires {sorted(exp) or '{}'}",
               v.loc(), key=f"R5:validate:{key[0]}.{key[1]}")


def errors_not_dropped(F, rep, rule="R7", scope=None):
    """R7 (a refusal is never turned into an absence): in the calculation and in the front-ends, the `Result` of a workspace function is
    not handed to `.ok()`, `.unwrap_or*()`, `.is_ok()` or `.map_or*()`. "A complete result or a clean error": a disposal whose date
    `TaxPeriod::from_date` refuses must fail the run — `filter_map(|m| from_date(m.date).ok())` produces a report that simply lacks
    that disposal (seeded change C15-s8). Expected count on today's tree: zero."""
    bodies = [b for b in F.bodies.values() if P.user_written(F, b) and (
        b.id.startswith("cgt_core::calculator") or b.id.startswith("cgt_core::matcher") or b.crate in ("cgt_cli", "cgt_mcp", "cgt_wasm"))]
    if scope is not None:
        bodies = [b for b in bodies if scope(b)]
    bad = P.dropped_errors(F, bodies)
    for b, site, h, how in bad:
        rep.ob(rule, f"{b.short}:{h.short}:{how}", False, f"`{b.short}` hands the result of `{h.short}` to `.{how}()`: what `{h.short}` refuses is silently left out "
               "of the result instead of failing the run (a partial report)", site, key=f"{rule}:{b.short}:{h.short.split('::')[-1]}:{how}")
    rep.ob(rule, "errors:not-turned-into-absence", not bad, f"no workspace `Result` is discarded by ok/unwrap_or/is_ok/map_or/flat_map/flatten in {len(bodies)} calculation and front-end bodies" if not bad else
           f"{len(bad)} workspace results are discarded", "", key=f"{rule}:errors:dropped")


def controls(pctx, rep):
    try:
        Fp = pctx.F
        bad = P.dropped_errors(Fp, [Fp.one("error_dropped"), Fp.one("error_propagated"), Fp.one("error_flattened")] + [b for b in Fp.bodies.values() if b.kind == "closure" and ("error_dropped" in b.id or "error_propagated" in b.id or "error_flattened" in b.id)], crate_prefixes=("posctl",))
        names = sorted({b.id.split("::{")[0].split("::")[-1] for b, _, _, _ in bad})
        rep.control("R7:dropped-error", names == ["error_dropped", "error_flattened"], f"posctl: results discarded in {names} (expected ['error_dropped', 'error_flattened'])")
    except Exception as e:
        rep.control("R7:dropped-error", False, f"dropped-error detector failed on posctl: {e}")
    _controls_rest(pctx, rep)


def _controls_rest(pctx, rep):
    from core import Report
    F = pctx.F
    bodies = [b for b in F.bodies.values()]
    got = {(b.short, parse_callee(t["callee"])[2]) for b, i, t, why in P.explicit_panics(F, bodies) if why is None}
    rep.control("R1:unwrap", ("panic_unwrap", "unwrap") in got, "posctl::panic_unwrap")
    rep.control("R1:panic-macro", any(f == "panic_macro" for f, m in got), "posctl::panic_macro")
    rep.control("R1:days", ("panic_days_nonconst", "days") in got, "posctl::panic_days_nonconst")
    rep.control("R1:days-const-ok", ("panic_days_const_ok", "days") not in got, "posctl::panic_days_const_ok must stay silent")
    und = {(b.short, msg) for b, i, t, msg, ops, why in P.assert_sites(F, bodies) if why is None}
    rep.control("R2:unguarded-add", ("overflow_add_param", "Overflow(Add)") in und, "posctl::overflow_add_param")
    rep.control("R2:guarded-index-ok", not any(f == "index_guarded_ok" for f, m in und), "posctl::index_guarded_ok must stay silent")
    rep.control("R2:unguarded-slice-index", ("index_unguarded", "BoundsCheck") in und, "posctl::index_unguarded")
    rep.control("R2:scan-helper-unguarded-caller", ("scan_end_bad", "BoundsCheck") in und, "posctl::scan_end_bad: its caller passes an unchecked index, `xs[start]` stays unproven")
    rep.control("R2:scan-helper-ok", not any(f in ("scan_end", "scan_helper_ok") for f, m in und), "posctl::scan_end / scan_helper_ok must stay silent (caller-side guard + scan summary)")
    rep.control("R2:guard-on-other-slice", ("index_guard_other_container", "BoundsCheck") in und, "posctl::index_guard_other_container: `i < a.len()` does not bound `b[i]`")
    ui = {b.short for b, i, t, cont, ity, idx, why in P.index_sites(F, bodies) if why is None}
    rep.control("R2:scan-helper-range-ok", "scan_helper_ok" not in ui, "posctl::scan_helper_ok: `xs[i..e]` with e = scan_end(xs, i) must stay silent")
    rep.control("R2:guard-on-other-vec", "vec_index_guard_other_container" in ui, "posctl::vec_index_guard_other_container: `i < a.len()` does not bound `b[i]`")
    rep.control("R2:guarded-vec-index-ok", "vec_index_guarded_ok" not in ui, "posctl::vec_index_guarded_ok must stay silent")
    rep.control("R2:unguarded-vec-index", "vec_index_unguarded" in ui, "posctl::vec_index_unguarded")
    ds = {b.short for b, i, t in P.decimal_op_sites(F, bodies)}
    rep.control("R3:decimal-op", "decimal_mul" in ds, "posctl::decimal_mul")
    barrier = P.catch_unwind_closures(F)
    r, _ = P.reachable(F, [b.id for b in F.find("decimal_behind_barrier")], stop=barrier)
    rep.control("R3:barrier-recognised", not any(x.endswith("decimal_mul") for x in r) and bool(barrier),
                "posctl::decimal_behind_barrier: catch_unwind closure must cut reachability")
