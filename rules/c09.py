"""C09 — securities are independent; tickers case-insensitive (structural clauses)."""
from mir import Terms, parse_callee, show, op_place, op_const, place_proj, subterms, is_decimal_arith_assign
from flow import root_of_operand
from roles import Roles, RULES, POOL, LOT, agg_fields, guards_of, truth, is_agg, eq_guard
import panics as P

META = {
    "explanation": (
        "R1 (PROV): every keyed access to a per-security map in the matcher module (HashMap<String, ledger/pool>) uses a key "
        "that is the `ticker` field of a transaction (possibly through a `ticker: &str` parameter whose every call site passes "
        "one). R2 (MPT): in every look-ahead over the whole timeline, reading a candidate's operation is dominated by the "
        "ticker-equality guard (30-day loop) or the element filter requires ticker equality (same-day quantity lookup). R3: the "
        "same-day merge is dominated by a ticker-equality test. R4 (WHO): every Transaction value constructed in library code "
        "has a ticker rooted at to_uppercase, in both the DSL consumer and the JSON deserializer. R5 (index space): the tables "
        "shared by all securities (30-day claims, cost offsets) are keyed by a line's position in the whole list; an enumerate "
        "index used as such a key must be taken before any stage that drops elements (filter/skip/skip_while/rev). Does not decide that "
        "report(all) is the combination of the per-security reports. R1 also: every quantity map of the matcher has a key type that tells securities apart (a String component or the global line index). R4 also: the consumer of every grammar rule with a ticker child obtains it through the ticker consumer. R6: the scans that find the end of a day compare dates only. R7: legs are grouped into disposals by the (date, ticker) key, not as contiguous runs (another security's legs between two legs of one disposal must not split it; shared with C06-R3/C04-R5). R8: every line of a day is offered to the split handler and to pooling (shared with C01-R2): one remembered 'split of the day' would drop the other securities' splits."),
    "trusted_base": ["str::to_uppercase; HashMap keyed lookup", "rustc MIR + resolution"],
    "engines": ["mirfacts", "rules", "posctl"],
}

MAP_METHODS = ("get", "get_mut", "entry", "insert", "remove", "contains_key")


def _is_ticker_of_tx(t):
    return isinstance(t, tuple) and t and t[0] == "field" and t[2] == "ticker"


def keyed_access(R, rep):
    F = R.F
    n = 0
    for b in R.bodies:
        tb = None
        for i, t in b.calls():
            st, tr, m = parse_callee(t["callee"])
            if m not in MAP_METHODS or "HashMap" not in t["callee"]:
                continue
            mty = (t.get("aty") or [""])[0]
            if "HashMap<alloc::string::String," not in mty:
                continue
            tb = tb or R.terms(b, 0)
            n += 1
            key = tb.operand(t["args"][1])
            ok = _is_ticker_of_tx(key)
            via = ""
            if not ok and isinstance(key, tuple) and key and key[0] == "param" and "str" in b.local_ty(key[1] + 1):
                # ticker: &str parameter — every call site must pass a transaction's ticker
                sites = list(F.call_sites(lambda c, bid=b.id: c == bid))
                ok = bool(sites) and all(_is_ticker_of_tx(R.terms(cb, 0).operand(ct["args"][key[1]])) for cb, ci, ct in sites)
                via = f" (through parameter `{key[2]}`, {len(sites)} call sites)"
            rep.ob("R1", f"{b.short}:{m}", ok, f"per-security map keyed by a transaction's ticker{via}" if ok else
                   f"per-security map is accessed with key {show(key)[:60]} — not the ticker of the transaction being processed",
                   b.loc(t["sp"]), key=f"R1:{b.short}:{m}:key")
    # the matcher's OTHER maps (same-day reservations, 30-day claims, …) are shared by all securities: their key type must tell
    # the securities apart — it contains the ticker (a String component) or it is the line's position in the whole list (usize).
    # A map keyed by the date alone lets one security's entry answer for another's (seeded change C09-s5)
    import re as _re
    seen_types = {}
    for b in R.bodies:
        for i, t in b.calls():
            st, tr, m = parse_callee(t["callee"])
            if m not in MAP_METHODS or not ("HashMap" in t["callee"] or "BTreeMap" in t["callee"]):
                continue
            mty = (t.get("aty") or [""])[0]
            mm = _re.search(r"(?:HashMap|BTreeMap)<(.*)$", mty)
            if not mm or "rust_decimal::decimal::Decimal" not in mty:
                continue
            inner = mm.group(1)
            depth, k = 0, None
            for j, ch in enumerate(inner):
                if ch in "<(":
                    depth += 1
                elif ch in ">)":
                    depth -= 1
                elif ch == "," and depth == 0:
                    k = inner[:j].strip()
                    break
            if k is None:
                continue
            seen_types.setdefault(k, (b, t))
    for k, (b, t) in sorted(seen_types.items()):
        ok = "String" in k or "str" in k or k == "usize"
        rep.ob("R1", f"shared-map-key:{k[:40]}", ok, f"a quantity map of the matcher is keyed by `{k}`, which identifies the security" if ok else
               f"a quantity map of the matcher is keyed by `{k}` only: every security that has an entry under the same key shares it",
               b.loc(t["sp"]), key=f"R1:shared-map-key:{k[:60]}")
    rep.count("per_ticker_map_accesses", n)
    if n < 6:
        rep.unresolved("R1", "map-accesses", f"only {n} keyed accesses to per-security maps found in the matcher")


def lookahead_guards(R, rep):
    F = R.F
    b, sites = R.leg("BedAndBreakfast")
    tb = R.terms(b, 0)
    # the switch on the candidate's operation discriminant inside the loop
    found = False
    for i, t in b.terms_of_kind("switch"):
        c = tb.operand(t["discr"])
        if isinstance(c, tuple) and c[0] == "discr" and "next(" in show(c) and show(c[1]).endswith(".operation") and b.in_loop(i):
            found = True
            ok = False
            for cond, val, s in guards_of(b, tb, i):
                if isinstance(cond, tuple) and cond[0] == "cmp" and cond[1] in ("Ne", "Eq"):
                    l, r = show(cond[2]), show(cond[3])
                    if l.endswith(".ticker") and r.endswith(".ticker") and ("next(" in l) != ("next(" in r):
                        if (cond[1] == "Ne" and not truth(val)) or (cond[1] == "Eq" and truth(val)):
                            ok = True
            rep.ob("R2", "30-day:ticker-guard", ok, "a candidate's operation is examined only after `candidate.ticker == sale.ticker`" if ok else
                   "the 30-day look-ahead examines candidates of other securities: one security's purchases can be matched to another's sale",
                   b.loc(t["sp"]), key="R2:bnb:ticker-guard")
    # …or the candidate is handed to helpers from inside the loop (`look_ahead.match_against_buy(idx, tx, ..)`): every such
    # call must sit under the same guard (written as a branch in the loop body or as a `.filter(..)` of the iterator chain)
    for i, t in b.calls():
        hb = F.bodies.get(t["callee"])
        if hb is None or hb.crate != b.crate or not b.in_loop(i) or hb.id.startswith("cgt_core::matcher::acquisition_ledger::"):
            continue
        args = [tb.operand(a) for a in t["args"]]
        cand = [a for a in args if "next(" in show(a, 0) and any(isinstance(x, tuple) and len(x) == 3 and x[0] == "field" and x[2] in ("operation", "1")
                                                                   for x in subterms(a)) or (isinstance(a, tuple) and a and a[0] == "some")]
        if not cand:
            continue
        found = True
        ok = False
        for cond, val, s in guards_of(b, tb, i):
            if isinstance(cond, tuple) and cond[0] == "cmp" and cond[1] in ("Ne", "Eq"):
                l, r = show(cond[2]), show(cond[3])
                if l.endswith(".ticker") and r.endswith(".ticker") and ("next(" in l) != ("next(" in r):
                    if (cond[1] == "Ne" and not truth(val)) or (cond[1] == "Eq" and truth(val)):
                        ok = True
        rep.ob("R2", "30-day:ticker-guard", ok, "a candidate is handed on only after `candidate.ticker == sale.ticker`" if ok else
               f"the 30-day look-ahead hands candidates of other securities to {hb.short.split('::')[-1]}: one security's purchases (or splits) can affect another's sale",
               b.loc(t["sp"]), key="R2:bnb:ticker-guard")
    if not found:
        rep.unresolved("R2", "bnb-candidate-match", "no match on the candidate's operation inside the 30-day loop")
    # helpers that iterate the whole slice with a filter closure
    n = 0
    for hb in R.bodies:
        if hb.id == b.id or hb.kind != "fn":
            continue
        if not any("[cgt_core::models::GbpTransaction]" in hb.local_ty(k + 1) for k in range(hb.argc)):
            continue
        filt = [(i, t) for i, t in hb.calls() if parse_callee(t["callee"])[2] == "filter"]
        for i, t in filt:
            n += 1
            htb = R.terms(hb, 0)
            clo = htb.operand(t["args"][1])
            ok = False
            if isinstance(clo, tuple) and clo[0] == "closure" and clo[1] in F.bodies:
                cb = F.bodies[clo[1]]
                ct = Terms(F, cb, inline_depth=0)
                conds = [ct.operand(cb.term(s)["discr"]) for s in cb.reachable() if cb.term(s)["k"] == "switch"] + [ct.local(0)]
                txt = " ".join(show(c) for c in conds)
                ok = ".ticker" in txt and any(isinstance(x, tuple) and x and x[0] == "cmp" and x[1] == "Eq" and ".ticker" in show(x)
                                              for c in conds for x in subterms(c))
            rep.ob("R2", f"{hb.short}:filter-requires-ticker", ok, "whole-timeline scan keeps only lines of the requested ticker" if ok else
                   f"{hb.short} scans all transactions without requiring ticker equality", hb.loc(t["sp"]), key=f"R2:{hb.short}:filter-ticker")
    rep.count("timeline_filters", n)


def merge_guard(R, rep):
    c = R.require("canon")
    tb = R.terms(c, 0)
    c = R.merge_site()
    tb = R.terms(c, 0)
    merges = [(i, t) for i, t in c.calls() if is_decimal_arith_assign(t["callee"]) == "AddAssign"]
    if not merges:
        rep.unresolved("R3", "merge", "no accumulation (+=) in the canonicaliser")
    for i, t in merges[:2]:
        ok = False
        for cond, val, s in guards_of(c, tb, i):
            eg = eq_guard(cond, val)
            if eg:
                if show(eg[0]).endswith(".ticker") and show(eg[1]).endswith(".ticker"):
                    ok = True
        rep.ob("R3", f"merge@{c.loc(t['sp']).rsplit(':', 2)[-2]}:ticker-equal", ok, "lines are merged only if their tickers are equal" if ok else
               "same-day lines of different securities can be merged", c.loc(t["sp"]), key="R3:merge:ticker")


def uppercase(R, rep):
    F = R.F
    n = 0
    for b in F.bodies.values():
        if not b.crate.startswith("cgt_") or not P.user_written(F, b) or b.crate in ("cgt_wasm",):
            continue
        for i, si, s in b.assigns():
            rv = s["rv"]
            if rv["k"] == "agg" and rv["adt"] == "cgt_core::models::Transaction":
                n += 1
                tb = Terms(F, b, inline_depth=1)
                tk = tb.operand(rv["ops"][rv["fields"].index("ticker")])
                ok = any(isinstance(x, tuple) and x and x[0] == "call" and parse_callee(x[1])[2] in ("to_uppercase", "to_ascii_uppercase") for x in subterms(tk))
                how = ""
                if not ok and "parser" in b.id:
                    # DSL: the ticker value comes from the `ticker` consumer through match_nodes!; check that consumer upper-cases
                    for cb in F.bodies.values():
                        if cb.id.endswith("parser::CgtParser::ticker"):
                            ok = any(parse_callee(t["callee"])[2] in ("to_uppercase", "to_ascii_uppercase") for _, t in cb.calls())
                            how = " (via the `ticker` node consumer)"
                rep.ob("R4", f"{b.short}:ticker-uppercase", ok, f"constructed Transaction carries an upper-cased ticker{how}" if ok else
                       f"{b.short} builds a Transaction whose ticker is {show(tk)[:60]} (not upper-cased): `aapl` and `AAPL` would be two securities",
                       b.loc(s["sp"]), key=f"R4:{b.short}:ticker-case")
    rep.count("transaction_constructions", n)
    if n < 2:
        rep.unresolved("R4", "Transaction-ctors", f"{n} constructions of Transaction in library code (DSL consumer and JSON deserializer expected)")


def dsl_ticker_consumers(ctx, R, rep):
    """R4 for the DSL, per command: the upper-casing lives in the consumer of the `ticker` token, so every consumer of a rule
    that has a `ticker` child must obtain the ticker THROUGH that consumer (match_nodes! `ticker(t)` expands to a call of it) and
    not from the node's raw text. Decided on MIR: the region of `CgtParser::<rule>` contains a call of `CgtParser::ticker`."""
    from grammar import Grammar
    S = ctx.S
    if S is None or "error" in S.get("grammar", {}):
        rep.unresolved("R4", "grammar", "grammar facts unavailable")
        return
    g = Grammar(S["grammar"])
    F = R.F
    tick = [b for b in F.bodies.values() if b.id.endswith("parser::CgtParser::ticker")]
    if len(tick) != 1:
        rep.unresolved("R4", "ticker-consumer", f"{len(tick)} consumers of the `ticker` token")
        return
    folds = any(parse_callee(t["callee"])[2] in ("to_uppercase", "to_ascii_uppercase") for _, t in tick[0].calls())
    rep.ob("R4", "dsl:ticker-consumer-folds-case", folds, "the `ticker` consumer upper-cases" if folds else
           "the `ticker` consumer returns the text as written", tick[0].loc(), key="R4:dsl:ticker-consumer")
    n = 0
    for name in g.order:
        if g.ty(name) != "normal" or g.is_atomic(name) or "ticker" not in g.alphabet(name):
            continue
        cb = F.bodies.get(f"cgt_core::parser::CgtParser::{name}")
        if cb is None:
            continue
        n += 1
        rg = R.region(cb, depth=3)
        ok = any(it["term"]["callee"] == tick[0].id for it in rg.items)
        rep.ob("R4", f"dsl:{name}:ticker-through-consumer", ok, f"`{name}` obtains its ticker from the `ticker` consumer" if ok else
               f"the consumer of `{name}` does not call the `ticker` consumer: its ticker is the raw text, so `aapl` and `AAPL` are two securities "
               "for this command only", cb.loc(), key=f"R4:dsl:{name}:ticker-raw")
    rep.count("dsl_rules_with_ticker_child", n)
    if n < 5:
        rep.unresolved("R4", "dsl-commands", f"only {n} grammar rules with a `ticker` child have a consumer (7 commands expected)")


def shared_index_space(R, rep, rule="R5"):
    """The claims table and the cost-offset table are shared by all securities and keyed by a line's position in the whole
    transaction list. A position obtained from `enumerate` is that position only if nothing was dropped from the stream
    before the enumerate: after `.filter(is_buy).enumerate()` the presence of ANOTHER security's line on the same day shifts the
    key of this security's purchase (seeded change C09-s3)."""
    from roles import misaligned_index_keys
    F = R.F
    bodies = [b for b in F.user_bodies("cgt_core") if "::matcher::" in b.id]
    bad, aligned = misaligned_index_keys(R, bodies)
    for b, i, callee, why in bad:
        rep.ob(rule, f"{b.short}:index-key", False,
               f"an enumerate index taken after {'/'.join(why)} is used as a key of `{parse_callee(callee)[2]}`: it counts the surviving elements, not "
               "positions in the transaction list, so other securities' lines on the same day shift the key", b.loc(b.term(i)["sp"]),
               key=f"{rule}:{b.short}:misaligned-index-key")
    rep.ob(rule, "matcher:index-keys", not bad, f"{aligned} enumerate indices used as table keys are positions in the enumerated source"
           if not bad else f"{len(bad)} misaligned index keys", "crates/cgt-core/src/matcher/mod.rs", key=f"{rule}:matcher:index-keys")
    rep.count("enumerate_index_keys", aligned + len(bad))
    if aligned + len(bad) == 0:
        rep.unresolved(rule, "index-keys", "no enumerate index is used as a table key in the matcher (the per-line tables are expected to be keyed by position)")


def day_batches(R, rep, rule="R6"):
    """A day's lines are processed together, whatever securities they belong to: the scan that finds the end of the day compares
    DATES only. A scan that also stops where the ticker changes cuts one security's day into several batches as soon as another
    security's line is written in between, and the in-day order (events, purchases, disposals) is lost (seeded change C09-s6)."""
    F = R.F
    n = 0
    for b in [R.require("dayloop"), R.require("prepass")] + [hb for role in ("dayloop", "prepass") for hb in R.region(R.require(role)).bodies.values()]:
        tb = None
        for h, blks in b.loops():
            if len(blks) > 12 or any(b.term(x)["k"] == "call" and b.term(x)["callee"] in F.bodies for x in blks):
                continue
            incs = [s for x in blks for s in b.stmts(x) if s.get("rv", {}).get("k") == "bin" and s["rv"]["op"] in ("AddWithOverflow", "Add")
                    and b.local_ty(s["lhs"]["l"]).startswith(("usize", "(usize"))]
            if not incs:
                continue
            tb = tb or R.terms(b, 0)
            conds = [tb.operand(b.term(x)["discr"]) for x in blks if b.term(x)["k"] == "switch"]
            if not any(".date" in show(c_) for c_ in conds):
                continue
            n += 1
            extra = [show(c_)[:70] for c_ in conds if ".ticker" in show(c_)]
            rep.ob(rule, f"{b.short}:day-scan@{h}", not extra, "the end of a day is found by comparing dates only" if not extra else
                   f"the day scan also stops under {extra[:1]}: a security's lines of one date are split into several batches by another security's line",
                   b.loc(), key=f"{rule}:{b.short}:day-scan-ticker")
    seen = set()
    rep.count("day_scans", n)
    if n < 2:
        rep.note(f"{rule}: only {n} index-advancing day scans found (a day may also be delimited by an iterator grouping, which this rule does not judge)")


def controls(pctx, rep):
    from roles import misaligned_index_keys, Roles as _Roles
    F = pctx.F
    try:
        R = _Roles(F)
        bad, aligned = misaligned_index_keys(R, [F.one("misaligned_index"), F.one("aligned_index")])
        ok = [b.short.split("::")[-1] for b, _, _, _ in bad] == ["misaligned_index"] and aligned == 1
        rep.control("R5:index-space", ok, f"posctl: misaligned keys in {[b.short for b, _, _, _ in bad]}, aligned uses {aligned} (expected misaligned_index / 1)")
    except Exception as e:
        rep.control("R5:index-space", False, f"index-space detector failed on posctl: {e}")


def run(ctx, rep):
    R = Roles(ctx.F)
    shared_index_space(R, rep)
    day_batches(R, rep)
    keyed_access(R, rep)
    lookahead_guards(R, rep)
    merge_guard(R, rep)
    uppercase(R, rep)
    dsl_ticker_consumers(ctx, R, rep)
    # R7: a disposal is ALL legs of one (date, security), wherever another security's legs stand in between: grouped as contiguous
    # runs, one security's figures depend on whether another security traded that day (shared with C06-R3 / C04-R5; seeded change C09-s7)
    import rules.c06 as c06
    from core import Report
    r2 = Report("tmp")
    c06.grouping(R, r2)
    for o in r2.obligations:
        if o["instance"].startswith("group:key"):
            rep.ob("R7", o["instance"], o["ok"], o["detail"], o["site"], key="R7:" + o["instance"])
    for v in r2.violations:
        if v["instance"] == "GROUP":
            rep.ob("R7", "group:function", False, v["detail"], v["site"], key="R7:group:function")
    # a SPLIT/UNSPLIT reaches the pool of ITS security whatever else happens that day: every line of the day is offered to the
    # split handler (shared with C01-R2); one remembered "split of the day" drops the other securities' splits (seeded change C09-s8)
    import rules.c01 as c01
    c01.every_line_of_day(R, rep, "R8", only=("apply splits", "pool unmatched acquisitions"))

