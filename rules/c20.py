"""C20 — MCP server: every request answered, statelessly (structural clauses)."""
import re

from mir import Terms, parse_callee, show, op_place, subterms
from flow import site_is_external, body_is_external
import panics as P

META = {
    "explanation": (
        "R1 statelessness: the server type reaches no interior-mutability cell by value (type walk through field types "
        "and generic arguments, Arc/Rc reference counts excepted); every tool method takes &self; the workspace has no "
        "mutable or interior-mutable static outside clap's derive; nothing reachable from a tool handler or resource "
        "method calls the file system, environment, clock, randomness, process or stdio (call graph over resolved "
        "callees incl. serde/fmt trait impls). R2: no explicit panic, no undischarged Assert/Index and no Decimal "
        "operator outside a catch_unwind barrier is reachable from a handler (rmcp runs each request in a spawned task "
        "without a catch: a panic is an unanswered request). R3: tool coroutines contain no suspension point, lock or "
        "channel operation, so handlers cannot wait on each other. R4: MCP and CLI reach calculate() with the same "
        "kind of inputs (bundled FX cache, override-aware config). R5: explain_matching derives the tax year with the "
        "same 6-April boundary as TaxPeriod::from_date (comparison-only predicate tabulated over the calendar) and "
        "find_disposal matches on (date, ticker). Does not decide rmcp's id pairing or liveness at EOF. R5 also: the explaining tool calculates for the tax year derived from the requested date (never the all-years report). R4 also: before the calculation the server refuses only an empty ledger. R4 also: the report is ordered at the producer (holdings by ticker, disposals by date and ticker, tax years ascending; shared with C16-R4) because the server re-packages the report's fields instead of serialising it whole. R4 also: the server hands the calculation every parsed line, as the CLI does (shared with C17-R12)."),
    "trusted_base": [
        "rmcp 0.11 dispatches each request on its own task and does not catch panics (read in service.rs)",
        "rustc MIR + callee resolution; type facts from rustc's ADT definitions",
        "effectful std/tokio APIs are exactly those matched by EFFECT in rules/c20.py",
    ],
}

EFFECT = re.compile(
    r"^(std::fs::|std::env::|std::io::stdio::|std::io::Stdin|std::io::Stdout|std::process::|std::net::|tokio::fs::|tokio::net::|"
    r"tokio::process::|std::time::(SystemTime|Instant)::now|chrono::offset::(local::Local|utc::Utc)::now|rand::|getrandom::|"
    r"std::thread::(spawn|sleep)|tokio::time::|std::os::)")
WAIT = re.compile(r"(sync::(mutex|rwlock|mpsc|oneshot|broadcast|watch|semaphore|barrier|notify)|Mutex<|RwLock<|Condvar|"
                  r"::lock$|::recv$|::send$|::acquire|::wait$|block_on|spawn_blocking|yield_now)")


def handler_roots(F):
    tools = P.mcp_tool_bodies(F)
    roots = {}
    for t, kids in tools.items():
        roots[t.rsplit("::", 1)[-1]] = [t] + kids
    for b in F.bodies.values():
        if b.crate == "cgt_mcp" and "as rmcp::handler::server::ServerHandler>::" in b.id and not b.parent:
            name = b.id.rsplit("::", 1)[-1]
            if name in ("list_resources", "read_resource", "get_info"):
                roots[name] = [b.id] + list(F.children(b.id))
    return tools, roots


def run(ctx, rep):
    F = ctx.F
    # "equals what the CLI computes": the server hands the calculation every parsed line, as the CLI does (shared with C17-R12)
    import rules.c02 as _c02
    _c02.frontends_hand_over_everything(F, rep, "R4", crates=("cgt_mcp",))
    tools, roots = handler_roots(F)
    rep.count("tools", len(tools))
    rep.count("handler_roots", len(roots))
    if len(tools) < 5:
        rep.unresolved("ROLE", "TOOL", f"{len(tools)} MCP tool methods found (rmcp #[tool] siblings), expected ≥ 5")
    # ---------------- R1
    srv = [a for p, a in F.adts.items() if a["crate"] == "cgt_mcp" and any(
        "ToolRouter" in f["ty"] for v in a["variants"] for f in v["fields"])]
    if len(srv) != 1:
        rep.unresolved("R1", "SERVER", f"{len(srv)} structs holding a ToolRouter")
    for a in srv:
        rep.ob("R1", f"{a['path']}:no-cells", not a["cells"],
               "no UnsafeCell reachable by value from the server type" if not a["cells"] else
               f"interior mutability reachable from the server type: {a['cells'][:3]} — a tool can keep state between requests",
               f"{a['file']}:{a['line']}", key="R1:server-cells")
        for v in a["variants"]:
            for f in v["fields"]:
                bad = re.search(r"(Mutex|RwLock|RefCell|Cell<|Atomic|OnceCell|OnceLock|UnsafeCell|LazyLock|mpsc|watch::)", f["ty"])
                rep.ob("R1", f"{a['path']}.{f['name']}", not bad,
                       f"field type {f['ty'][:80]} has no interior mutability" if not bad else
                       f"server field `{f['name']}: {f['ty'][:80]}` is interior-mutable shared state",
                       f"{a['file']}:{a['line']}", key=f"R1:server-field:{f['name']}")
    for t in tools:
        b = F.bodies[t]
        ty = b.local_ty(1) if b.argc >= 1 else ""
        ok = ty.startswith("&") and not ty.startswith("&mut") and "CgtServer" in ty
        rep.ob("R1", f"{b.short}:&self", ok, f"receiver is {ty}", b.loc(), key=f"R1:{b.short}:receiver")
    for s in F.statics:
        if "clap_builder::derive" in s["path"]:
            continue
        ok = (not s["mut"]) and s["freeze"]
        rep.ob("R1", f"static:{s['path']}", ok,
               "immutable, Freeze static" if ok else
               f"static {s['path']}: {s['ty'][:60]} is mutable or interior-mutable (state shared between requests)",
               f"{s['file']}:{s['line']}", key=f"R1:static:{s['path']}")
    all_roots = [x for v in roots.values() for x in v]
    reach, parent = P.reachable(F, all_roots)
    rep.count("bodies_reachable_from_handlers", len(reach))
    n_eff = 0
    for rid in sorted(reach):
        b = F.bodies[rid]
        for i, t in b.calls():
            if EFFECT.match(t["callee"]):
                n_eff += 1
                rep.ob("R1", f"{b.short}:effect:{t['callee'].split('::')[-1]}", False,
                       f"{t['callee']} is reachable from an MCP handler ({P.path_from(parent, rid)}): the answer can depend on more than the request",
                       b.loc(t["sp"]), key=f"R1:effect:{b.short}:{t['callee']}")
    rep.ob("R1", "handlers:no-external-effects", n_eff == 0,
           f"{len(reach)} bodies reachable from the handlers call no fs/env/clock/random/process/stdio API" if n_eff == 0
           else f"{n_eff} effectful calls reachable", "", key="R1:effects-summary")
    # ---------------- R2 panics reachable from handlers
    rb = [F.bodies[x] for x in reach]
    for b, i, t, why in P.explicit_panics(F, rb):
        m = parse_callee(t["callee"])[2]
        rep.ob("R2", f"{b.short}:{m}", why is not None,
               why or f"explicit may-panic call {t['callee']} reachable from an MCP handler ({P.path_from(parent, b.id)}): the request would never be answered",
               b.loc(t["sp"]), key=f"R2:{b.short}:{m}")
    import rules.c15 as c15
    for b, i, t, msg, ops, why in P.assert_sites(F, rb):
        shapes = tuple(P.shape(o) for o in ops)
        reason = why or c15.audit_reason(F, b, msg, *shapes)
        rep.ob("R2", f"{b.short}:{msg}:{'|'.join(shapes)}"[:160], reason is not None,
               reason or f"unproven may-panic reachable from an MCP handler: Assert({msg}) on {', '.join(show(o)[:60] for o in ops)} ({P.path_from(parent, b.id)})",
               b.loc(t["sp"]), key=f"R2:{b.short}:{msg}")
    for b, i, t, cont, ity, idx, why in P.index_sites(F, rb):
        kind = "index" if ity == "usize" else ("str-range" if cont.endswith("str") else "range:" + ity.split("::")[-1][:24])
        reason = why or c15.audit_reason(F, b, kind, P.shape(idx))
        rep.ob("R2", f"{b.short}:{kind}:{P.shape(idx)}"[:160], reason is not None,
               reason or f"unproven may-panic reachable from an MCP handler: {cont.split('<')[0]}[{show(idx)[:60]}]",
               b.loc(t["sp"]), key=f"R2:{b.short}:{kind}:{P.shape(idx)}"[:200])
    barrier = P.catch_unwind_closures(F)
    site_fns = {}
    for b, i, t in P.decimal_op_sites(F, F.bodies.values()):
        site_fns.setdefault(b.id, []).append(b.loc(t["sp"]))
    for name, rs in sorted(roots.items()):
        r, par = P.reachable(F, rs, stop=barrier)
        hit = sorted(f for f in site_fns if f in r)
        rep.ob("R2", f"decimal-overflow:{name}", not hit,
               "no Decimal operator reachable outside a panic barrier" if not hit else
               f"{sum(len(site_fns[f]) for f in hit)} Decimal operator sites reachable from tool `{name}` with no catch_unwind barrier "
               f"(e.g. {P.path_from(par, hit[0])}): an overflowing ledger leaves the request unanswered",
               site_fns[hit[0]][0] if hit else "", key=f"R2:decimal-overflow:{name}")
    # ---------------- R3 no suspension / waiting in tool coroutines
    for name, rs in sorted(roots.items()):
        ys = 0
        waits = []
        for rid in rs:
            b = F.bodies[rid]
            ys += _await_points(b)
            for i, t in b.calls():
                if WAIT.search(t["callee"]) and not site_is_external(b, t):
                    waits.append(t["callee"])
        rep.ob("R3", f"{name}:no-await", ys == 0 and not waits,
               "handler body has no suspension point, lock or channel operation" if ys == 0 and not waits else
               f"handler `{name}` can wait: {ys} await points, calls {waits[:3]}", F.bodies[rs[0]].loc(),
               key=f"R3:{name}:waits")
    # ---------------- R4 same inputs to calculate() as the CLI
    calc_calls = []
    for b, i, t in F.call_sites(lambda c: c.endswith("calculator::calculate")):
        if b.crate in ("cgt_mcp", "cgt_tool") and P.user_written(F, b):
            calc_calls.append((b, i, t))
    rep.count("calculate_call_sites_frontends", len(calc_calls))
    for b, i, t in calc_calls:
        tb = Terms(F, b, inline_depth=0)
        fx = tb.operand(t["args"][2])
        cfg = tb.operand(t["args"][3])
        fx_src = _source_calls(F, b, fx)
        cfg_src = _source_calls(F, b, cfg)
        ok_fx = any("load_default_cache" in c or "load_cache_with_overrides" in c for c in fx_src) and not _is_none(fx)
        ok_cfg = any(c.endswith("Config::load_with_overrides") for c in cfg_src)
        rep.ob("R4", f"{b.short}:fx-cache", ok_fx,
               f"calculate() receives Some(cache) built by {sorted(fx_src)}" if ok_fx else
               f"calculate() is not given the bundled FX cache here ({show(fx)[:80]})", b.loc(t["sp"]), key=f"R4:{b.short}:fx-cache")
        rep.ob("R4", f"{b.short}:config", ok_cfg,
               "calculate() receives the override-aware configuration" if ok_cfg else
               f"calculate() config comes from {sorted(cfg_src) or show(cfg)[:60]}, not Config::load_with_overrides",
               b.loc(t["sp"]), key=f"R4:{b.short}:config")
    if len(calc_calls) < 2:
        rep.unresolved("R4", "calculate-callers", "expected calculate() call sites in both cgt_mcp and cgt_tool")
    # ---------------- R5 explain_matching: year boundary + lookup key
    import rules.c07 as c07
    c07.year_sites(F, rep, rule="R5", only_crate="cgt_mcp")
    # "for a non-empty ledger, equals what the CLI computes": between reading the ledger and calling the calculation the server may
    # refuse only an EMPTY ledger; any other refusal (no BUY/SELL line, …) is an answer the CLI does not give (seeded change C20-s6)
    from roles import guards_of as _guards_of
    n_pre = 0
    for b in F.bodies.values():
        if b.crate != "cgt_mcp" or not P.user_written(F, b) or b.kind not in ("fn", "method"):
            continue
        calcs = [(i, t) for i, t in b.calls() if t["callee"].endswith("calculator::calculate")]
        if not calcs:
            continue
        tb0 = Terms(F, b, inline_depth=1)
        for ci, ct in calcs:
            n_pre += 1
            extra = []
            for cond, val, where in _guards_of(b, tb0, ci):
                txt = show(cond)
                if isinstance(cond, tuple) and cond and cond[0] == "discr" and "branch(" in txt:
                    continue
                if isinstance(cond, tuple) and cond and cond[0] == "call" and parse_callee(cond[1])[2] == "is_empty":
                    continue
                if isinstance(cond, tuple) and cond and cond[0] in ("un", "not") and "is_empty(" in txt and "any(" not in txt:
                    continue
                # `transactions.len() == 0` on a Vec or on a slice (whose length is pointer metadata in MIR)
                if isinstance(cond, tuple) and cond and cond[0] in ("cmp", "bin") and len(cond) == 4 and ("int", 0) in (cond[2], cond[3]):
                    other = cond[3] if cond[2] == ("int", 0) else cond[2]
                    ot = show(other)
                    if ot.startswith(("len(", "un(PtrMetadata")) and not any(k in ot for k in ("any(", "filter(", "count(", "position(")):
                        continue
                extra.append(txt[:80])
            rep.ob("R4", f"{b.short}:only-empty-refused", not extra, "before the calculation only an empty ledger is refused" if not extra else
                   f"the calculation is reached only under {extra[:2]}: a non-empty ledger the CLI reports on is refused by the server",
                   b.loc(ct["sp"]), key=f"R4:{b.short}:pre-calculation-refusal")
    if n_pre < 1:
        rep.unresolved("R4", "mcp-calculate", "no call of calculate() in the MCP crate")
    # the server re-packages the report's fields (`json!({"tax_years": .., "holdings": ..})`) instead of serialising the report as a
    # whole, so its answer equals the CLI's — and depends only on the arguments — only if the report comes ORDERED out of the
    # calculation: holdings by ticker, disposals by date then ticker, tax years ascending at the producer (shared with C16-R4). An
    # order applied in a serializer of the whole report is bypassed by the server (seeded change C20-s7).
    import rules.c16 as c16
    from core import Report as _Rp
    r16 = _Rp("tmp")
    c16.stated_orders(F, r16)
    for o in r16.obligations:
        if any(k in o["instance"] for k in ("holdings", "disposals", "tax-years")) and not o["instance"].startswith("format:"):
            rep.ob("R4", "report-ordered-at-producer:" + o["instance"], o["ok"], o["detail"], o["site"], key="R4:producer-order:" + o["instance"])
    # the explaining tool computes the report of the tax year that contains the requested date: restricted to that year the
    # calculation needs only that year's exemption, so every disposal calculate_report can list can be explained; an all-years
    # calculation (year = None) fails for reasons that have nothing to do with the requested disposal (seeded change C20-s5)
    n_explain = 0
    for tid, kids in P.mcp_tool_bodies(F).items():
        fam = [F.bodies[tid]] + [F.bodies[k] for k in kids if k in F.bodies]
        looks_up = any(re.search(r"models::Disposal\b", (F.bodies.get(t["callee"]).ret if F.bodies.get(t["callee"]) else "")) for x in fam for _, t in x.calls())
        if not looks_up:
            continue
        for x in fam:
            xt = None
            for i, t in x.calls():
                cb = F.bodies.get(t["callee"])
                if cb is None or "TaxReport" not in cb.ret or cb.crate not in ("cgt_mcp", "cgt_core"):
                    continue
                for k, a in enumerate(t["args"]):
                    if "Option<i32>" not in cb.local_ty(k + 1).replace(" ", "") and "Option<u16>" not in cb.local_ty(k + 1).replace(" ", ""):
                        continue
                    xt = xt or Terms(F, x, inline_depth=1)
                    yt = xt.operand(a)
                    n_explain += 1
                    ok = not _is_none(yt) and any(isinstance(z, tuple) and z and z[0] == "call" and parse_callee(z[1])[2] == "year" for z in subterms(yt))
                    rep.ob("R5", f"{F.bodies[tid].short}:own-tax-year", ok, "the explanation is computed for the tax year of the requested date" if ok else
                           f"the explaining tool calculates with year = {show(yt)[:40]}: a ledger whose other years cannot be summarised (no exemption "
                           "configured) can be reported year by year but its disposals cannot be explained", x.loc(t["sp"]), key=f"R5:{F.bodies[tid].short}:own-tax-year")
    if n_explain < 1:
        rep.unresolved("R5", "explain-calculation", "no calculation with a year argument found in a tool that looks a disposal up")
    fd = [b for b in F.bodies.values() if b.crate == "cgt_mcp" and b.kind in ("method", "fn") and re.search(r"models::Disposal\b", b.ret) and b.ret.startswith(("core::result::Result<", "core::option::Option<")) and P.user_written(F, b)]
    for b in fd:
        from roles import guards_of
        tb = Terms(F, b, inline_depth=0)
        keys = set()
        conds = []
        # the conditions under which a disposal is RETURNED: branch edges dominating the Ok(..) construction, and the
        # predicate closures inside the returned value's own term (`iter().find(|d| …)`)
        for i, si, s in b.assigns():
            rv = s["rv"]
            if rv["k"] == "agg" and rv.get("adt") == "core::result::Result" and rv.get("variant") == "Ok":
                conds += [c for c, v, sb in guards_of(b, tb, i)]
                payload = tb.operand(rv["ops"][0])
                for x in subterms(payload):
                    if isinstance(x, tuple) and x and x[0] == "call" and parse_callee(x[1])[2] in ("find", "position", "filter", "find_map", "skip_while") \
                            and len(x[2]) >= 2 and ("iter::" in x[1] or "Iterator" in x[1]):
                        clo = x[2][1]
                        if isinstance(clo, tuple) and clo and clo[0] == "closure" and clo[1] in F.bodies:
                            cb = F.bodies[clo[1]]
                            conds += _pred_conds(F, cb)
        # a lookup returned directly (`…find(|d| …).cloned().ok_or_else(..)`): walk the RECEIVER chain of every return
        # alternative that is neither an explicit Ok(..) (handled above) nor an error, and take the predicate closures of the
        # iterator adapters on it. Only ITERATOR adapters narrow the search; `Option::filter` after `find` gives up on the
        # first candidate instead, and anything inside error-building closures is not part of the lookup.
        ret = tb.local(0)
        for alt in (ret[1] if isinstance(ret, tuple) and ret and ret[0] == "phi" else (ret,)):
            if isinstance(alt, tuple) and alt and alt[0] == "agg":
                continue
            x = alt
            while isinstance(x, tuple) and x and x[0] == "call" and x[2]:
                if parse_callee(x[1])[2] == "from_residual":
                    break
                if parse_callee(x[1])[2] in ("find", "position", "filter", "find_map", "skip_while") and len(x[2]) >= 2 and ("iter::" in x[1] or "Iterator" in x[1]):
                    clo = x[2][1]
                    if isinstance(clo, tuple) and clo and clo[0] == "closure" and clo[1] in F.bodies:
                        cb = F.bodies[clo[1]]
                        conds += _pred_conds(F, cb)
                x = x[2][0]
        for c in conds:
            for x in subterms(c):
                if isinstance(x, tuple) and x and x[0] in ("cmp", "call"):
                    txt = show(x)
                    if ".date" in txt and x[0] == "cmp" and x[1] == "Eq":
                        keys.add("date")
                    if ".ticker" in txt and ("eq_ignore_ascii_case" in txt or (x[0] == "cmp" and x[1] == "Eq")):
                        keys.add("ticker")
        rep.ob("R5", f"{b.short}:lookup-key", keys == {"date", "ticker"},
               "disposal lookup compares date and ticker (case-insensitively), the key the report groups by" if keys == {"date", "ticker"}
               else f"disposal lookup compares {sorted(keys)}, the report groups by (date, ticker)", b.loc(), key=f"R5:{b.short}:lookup-key")
    if not fd:
        rep.unresolved("R5", "FIND", "no MCP method returning a Disposal")


def _pred_conds(F, cb, depth=2):
    """the conditions a predicate closure decides on: its own branch conditions and returned value, and those of the same-crate
    helpers it delegates to (`|d| query.matches(d)` → `d.date == self.date && self.same_ticker(d)`: the left operand of `&&` is a
    branch, not part of the returned value)"""
    ct = Terms(F, cb, inline_depth=0)
    out = [ct.operand(cb.term(s_)["discr"]) for s_ in cb.reachable() if cb.term(s_)["k"] == "switch"] + [ct.local(0)]
    if depth > 0:
        for _, u in cb.calls():
            hb = F.bodies.get(u["callee"])
            if hb is not None and hb.crate == cb.crate and P.user_written(F, hb) and hb.id != cb.id:
                out += _pred_conds(F, hb, depth - 1)
    return out


def _await_points(b):
    """await points of a coroutine body: the state-machine transform has already removed Yield terminators
    from optimized MIR, so they are recognised by the `.await` desugaring of IntoFuture::into_future"""
    n = sum(1 for _ in b.terms_of_kind("yield"))
    for i, t in b.calls():
        if t.get("desugar") == "Await" and parse_callee(t["callee"])[2] == "into_future":
            n += 1
    return n


def _is_none(t):
    return isinstance(t, tuple) and t and t[0] == "agg" and t[2] == "None"


def _source_calls(F, b, term, depth=0):
    """callees in a term; `self.field` is resolved through the constructor of the server type"""
    out = set()
    for x in subterms(term):
        if isinstance(x, tuple) and x and x[0] == "call":
            out.add(x[1])
            hb = F.bodies.get(x[1])
            if hb is not None and hb.crate == b.crate and hb.id != b.id and depth < 2 and P.user_written(F, hb):
                # a same-crate helper that builds the value (`load_fx_cache(folder)`): look at what IT returns
                out |= _source_calls(F, hb, Terms(F, hb, inline_depth=0).local(0), depth + 1)
        if isinstance(x, tuple) and x and x[0] == "field" and isinstance(x[1], tuple) and x[1] and x[1][0] == "param" and depth == 0:
            fname = x[2]
            selfty = b.local_ty(x[1][1] + 1).lstrip("&").strip()
            for cb in F.bodies.values():
                if cb.crate != b.crate:
                    continue
                for i, si, s in cb.assigns():
                    rv = s["rv"]
                    if rv["k"] == "agg" and rv["adt"] == selfty and fname in rv["fields"]:
                        ct = Terms(F, cb, inline_depth=0)
                        ft = ct.operand(rv["ops"][rv["fields"].index(fname)])
                        out |= _source_calls(F, cb, ft, depth + 1)
    return out


def controls(pctx, rep):
    F = pctx.F
    a = F.adts.get("posctl::StatefulServer")
    rep.control("R1:cells", bool(a and a["cells"]), "posctl::StatefulServer has a Mutex field")
    a2 = F.adts.get("posctl::StatelessOk")
    rep.control("R1:cells-silent", bool(a2 is not None and not a2["cells"]), "posctl::StatelessOk must have no cells")
    eff = [t["callee"] for b in F.find("effect_in_handler") for i, t in b.calls() if EFFECT.match(t["callee"])]
    rep.control("R1:effect", bool(eff), "posctl::effect_in_handler reads a file")
    ys = sum(_await_points(b) for b in F.bodies.values() if "awaiting_handler" in b.id)
    rep.control("R3:await", ys > 0, "posctl::awaiting_handler awaits")
