#!/bin/bash
# usage: par_matrix.sh <nworkers>   — evaluate every stored patch (neutral refactorings and seeded changes) with the current rules, in
# parallel on scratch roots /tmp/mroot{,2..N} (never /repo), one extraction slot per worker. Logs: /tmp/pm_<k>.log
cd "$(dirname "$0")/.."
N=${1:-6}
neu=($(ls seeded | grep '^neutral-'))
sd=($(ls seeded | grep -v '^neutral-'))
for k in $(seq 1 $N); do
  root=/tmp/mroot$k; [ $k -eq 1 ] && root=/tmp/mroot
  nl=""; sl=""
  for i in "${!neu[@]}"; do [ $((i % N + 1)) -eq $k ] && nl="$nl ${neu[$i]}"; done
  for i in "${!sd[@]}"; do [ $((i % N + 1)) -eq $k ] && sl="$sl ${sd[$i]}"; done
  ( export VERIF_MATRIX_ROOT=$root VERIF_EXTRACT_SLOT=$k
    (cd $root && git checkout -q -- . && git clean -fdq crates)
    python3 tools/fast_matrix.py seeds $sl > /tmp/pm_s_$k.log 2>&1
    python3 tools/fast_matrix.py neutral $nl > /tmp/pm_n_$k.log 2>&1 ) &
done
wait
