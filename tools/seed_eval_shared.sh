#!/bin/bash
# usage: seed_eval_shared.sh <seed id> <harvest dir>  — evaluate a harvested seed (_seed/ + crates/**/tests/*) in the one shared
# scratch worktree /tmp/evalwt (disk: one target dir instead of one per agent), then store it under seeded/<id>/
set -u
sid=$1; hv=$2; wt=/tmp/evalwt
cd "$(dirname "$0")/.."
(cd $wt && git checkout -q -- . && git clean -fdq crates _seed)
cp -r $hv/_seed $wt/; cp -r $hv/crates $wt/
(cd $wt && git apply _seed/patch.diff) || { echo "patch does not apply in evalwt"; exit 2; }
python3 tools/seed_eval.py "$sid" "$wt" > /tmp/eval_$sid.log 2>&1; rc=$?
for d in $(cd $hv && find crates -type f); do cp "$hv/$d" "seeded/$sid/$(basename $d)"; echo "$d" > "seeded/$sid/demo_path.txt"; done
(cd $wt && git checkout -q -- . && git clean -fdq crates _seed)
tail -4 /tmp/eval_$sid.log | cut -c1-700
exit $rc
