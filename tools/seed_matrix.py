#!/usr/bin/env python3
"""Apply every stored seeded change to /repo in turn (git apply … git checkout -- .), run all quick checks,
and record which fire in seeded/<id>/meta.json (checks_fired_final) and in seeded/MATRIX.md."""
import json, os, subprocess, sys
VERIF = os.path.dirname(os.path.dirname(os.path.abspath(__file__)))
PROPS = [json.loads(l)["id"] for l in open(os.path.join(VERIF, "properties.jsonl"))]
ROOT = os.environ.get("VERIF_MATRIX_ROOT", "/repo")      # a scratch git checkout of /repo HEAD may stand in (checks run with --root)
def sh(c, cwd=None):
    r = subprocess.run(c, shell=True, cwd=cwd, stdout=subprocess.PIPE, stderr=subprocess.STDOUT, text=True)
    return r.returncode, r.stdout
only = sys.argv[1:]
rows = []
assert not sh("git status --short", ROOT)[1].strip(), ROOT + " not clean"
for sid in sorted(os.listdir(os.path.join(VERIF, "seeded"))):
    d = os.path.join(VERIF, "seeded", sid)
    if not os.path.isdir(d) or (only and sid not in only) or sid.startswith("neutral"):
        continue
    meta = json.load(open(os.path.join(d, "meta.json")))
    rc, out = sh(f"git apply {d}/patch.diff", ROOT)
    fired = {}
    try:
        if rc != 0:
            meta["applies_to_repo_head"] = False
            print(sid, "does not apply:", out[:200])
        else:
            meta["applies_to_repo_head"] = True
            for p in PROPS:
                rc, o = sh(f"./check {p} --tier quick --root {ROOT}", VERIF)
                if rc != 0:
                    fired[p] = [l.strip()[:300] for l in o.splitlines() if l.startswith("  rule") or l.startswith("CHECK-BROKEN")][:6]
    finally:
        sh("git checkout -- .", ROOT)
    meta["checks_fired_final"] = fired
    meta["detected_by_target_property_final"] = meta["property"] in fired
    json.dump(meta, open(os.path.join(d, "meta.json"), "w"), indent=1)
    rows.append((sid, meta))
    print(sid, "target:", meta["property"] in fired, "fired:", sorted(fired))
assert not sh("git status --short", ROOT)[1].strip(), ROOT + " not restored"
