#!/bin/bash
# usage: seed_store.sh <seed id> <worktree>   — confirm + evaluate (seed_eval.py), keep the demonstration, remove the worktree
set -u
sid=$1; wt=$2
cd "$(dirname "$0")/.."
python3 tools/seed_eval.py "$sid" "$wt" > /tmp/eval_$sid.log 2>&1
rc=$?
demo=$(cd "$wt" && git status --short | grep -E 'seed_demo|tests/' | awk '{print $2}' | head -5)
for d in $demo; do
  if [ -f "$wt/$d" ]; then cp "$wt/$d" "seeded/$sid/$(basename $d)"; echo "$d" > "seeded/$sid/demo_path.txt"; fi
done
tail -4 /tmp/eval_$sid.log
if [ $rc -eq 0 ] && grep -q "confirmed     : True" /tmp/eval_$sid.log; then
  git -C /repo worktree remove --force "$wt" && echo "removed $wt"
else
  echo "KEPT $wt (rc=$rc)"
fi
