#!/usr/bin/env python3
"""Regenerate MANIFEST.json from the rule modules (rules/cNN.py: META) and NOT_APPLICABLE below."""
import importlib
import json
import os
import sys

HERE = os.path.dirname(os.path.dirname(os.path.abspath(__file__)))
sys.path.insert(0, os.path.join(HERE, "lib"))
sys.path.insert(0, HERE)

PROPS = [json.loads(l)["id"] for l in open(os.path.join(HERE, "properties.jsonl"))]

# properties not claimed (reason shown in MANIFEST.not_applicable)
NOT_APPLICABLE = {}
na_file = os.path.join(HERE, "tools", "not_applicable.json")
if os.path.exists(na_file):
    NOT_APPLICABLE = json.load(open(na_file))

DEFAULT_NOTE = ("Trusted: rustc nightly MIR at mir-opt-level=0 and its callee resolution; the behaviour of "
                "dependencies (rust_decimal, chrono, pest, serde, rmcp, std) as written in the rule's API table. "
                "Decides the named structural clauses on every path/site; the behavioural remainder of the property "
                "(listed in DESIGN.md §3 'Does not decide') is not claimed.")


TECHNIQUE = {
    "C01": "static analysis: MIR CFG/dominator rules on the matching cascade (call order, window interval from branch and iterator-pipeline guards, ratio dataflow, same-security guards)",
    "C02": "static analysis: MIR dataflow on the acquisition ledger (availability term, debit/claim provenance per matching leg, relational unit discipline of claims)",
    "C03": "static analysis: MIR term provenance of allowable cost (unit cost x matched quantity per leg, same-day weights, cost offsets written only by apportioning)",
    "C04": "static analysis: MIR symbolic terms of the report builders (proceeds/gain identities, netting fold, exemption provenance per summary, group keys)",
    "C05": "static analysis: MIR CFG rules (holding guard dominates matching, error edges, remainder test, debit per leg); one known finding recorded",
    "C06": "static analysis: canonical-order dataflow over MIR (sort keys, same-day totals, grouping containers, date selection)",
    "C07": "static analysis: MIR path predicates on date comparisons (tax-year interval), constructor range checks, sibling-builder agreement, compile_fail witnesses",
    "C08": "static analysis: MIR term of the Transaction->GbpTransaction conversion (field-wise converter provenance, rate key = the line's own month, None edges return Err)",
    "C09": "static analysis: guard analysis over MIR (ticker equality dominates every cross-transaction use; upper-casing provenance of stored and queried tickers)",
    "C10": "static analysis: relational unit discipline of split ratios in MIR terms (multiply on SPLIT, divide on UNSPLIT, sell-time vs buy-time units)",
    "C11": "static analysis: writer/provenance rules on lot cost adjustments (apportioning weights and guards, who writes offsets, error construction)",
    "C12": "static analysis: bounded look-ahead (loop exit guards), which workspace code receives the pre-pass result, control dependence on cost offsets",
    "C15": "static analysis: may-panic site enumeration over the extended call graph with guard recognisers; output-after-success ordering; validator table; PDF overwrite guard",
    "C16": "static analysis: hash-order escape analysis (HashMap iteration to output), sort-key totality, symbolic string synthesis of formatters",
    "C17": "static analysis: symbolic string synthesis of the amount formatters, rounding-mode constants, exact-quantity provenance, float-conversion reachability; the PDF template is read by a parser for its Typst subset (syntax tree, let-substitution, dimension typing of data fields — never evaluated)",
    "C18": "static analysis: match exhaustiveness, effect synthesis of the converter row loop (per row kind: rows pushed, counters, exits), symbolic strings within the grammar, taint to comment lines",
    "C19": "static analysis: region shape rules on the awards lookup (7-day look-back, map building, RSU arm provenance) over MIR",
    "C20": "static analysis: call-graph effect rules (no statics / file system / environment in tools), panic reachability, lookup predicates, audit table",
}


def main():
    checks = []
    na = []
    engines_used = {}
    for pid in PROPS:
        try:
            mod = importlib.import_module("rules." + pid.lower())
        except ImportError:
            mod = None
        if mod is None or pid in NOT_APPLICABLE:
            na.append({"property_id": pid, "reason": NOT_APPLICABLE.get(
                pid, "rule set not armed yet; see DESIGN.md §3 for the planned clauses")})
            continue
        meta = mod.META
        checks.append({
            "property_id": pid,
            "quick_cmd": f"./check {pid} --tier quick",
            "thorough_cmd": f"./check {pid} --tier thorough",
            "evidence_file": f"/verif/evidence/{pid}.json",
            "replay_cmd_template": f"./check {pid} --replay {{path}}",
            "engine": meta.get("engine", "mirfacts+rules"),
            "level_claimed": {
                "category": "other",
                "text": meta.get("level_text") or (
                    "Static analysis of structural necessary conditions: every instance of each rule is decided "
                    "exhaustively over the type-checked MIR / grammar of the current tree (all paths, all call "
                    "sites); the property as a whole is behavioural and is NOT proved. " + meta["explanation"][:600]),
                "design_ref": meta.get("design_ref", f"DESIGN.md §3 {pid}"),
            },
            "level_note": meta.get("level_note", DEFAULT_NOTE),
            "technique": meta.get("technique") or TECHNIQUE.get(pid, "static analysis: custom MIR dataflow/CFG rules (rustc_private driver)"),
        })
        for e in meta.get("engines", ["mirfacts", "rules"]):
            engines_used.setdefault(e, []).append(pid)
    engines = [
        {"name": "mirfacts", "path": "driver/", "serves_properties": sorted(set(engines_used.get("mirfacts", []))),
         "kind_free_text": "rustc_private driver (nightly) run as RUSTC_WORKSPACE_WRAPPER under cargo check: dumps resolved MIR, type facts, consts, format templates of all 9 workspace crates as JSON"},
        {"name": "srcfacts", "path": "srcfacts/", "serves_properties": sorted(set(engines_used.get("srcfacts", []))),
         "kind_free_text": "pest_meta (pest's own grammar parser) + syn: grammar AST and match_nodes! arm patterns as JSON"},
        {"name": "rules", "path": "rules/ lib/", "serves_properties": sorted(set(engines_used.get("rules", []))),
         "kind_free_text": "Python: CFG/dominators/edge-dominance, call graph, copy-propagating term builder with helper summaries, hash-order escape analysis, grammar language enumeration, taint; one module per property"},
        {"name": "posctl", "path": "fixtures/posctl/", "serves_properties": sorted(set(engines_used.get("posctl", []))),
         "kind_free_text": "positive-control crate: each zero-expected detector must fire on its control on every run, else the check fails closed"},
    ]
    man = {
        "version": 1,
        "setup_cmd": "./setup.sh",
        "hooks": {
            "guard": "cgt_verif",
            "enable": "none needed: static analysis reads the unmodified sources; --cfg cgt_verif is declared and unused",
            "baseline_off_cmd": "cd /repo && cargo nextest run --workspace --no-fail-fast --test-threads 8 --offline || cargo test --workspace --no-fail-fast --offline",
            "source_commits": [],
            "add_only": True,
        },
        "engines": engines,
        "checks": checks,
        "notes": "Every check is static analysis of the current /repo tree (facts cached by content hash under /verif/.cache). "
                 "exit 2 + CHECK-BROKEN means the check could not run (build failure / blind rule), never a verdict. "
                 "Known findings: /verif/known_findings.json. fix: commits in /repo are listed there as status=fixed.",
        "not_applicable": na,
    }
    with open(os.path.join(HERE, "MANIFEST.json"), "w") as fh:
        json.dump(man, fh, indent=1)
    print("checks:", [c["property_id"] for c in checks])
    print("not_applicable:", [n["property_id"] for n in na])


if __name__ == "__main__":
    main()
