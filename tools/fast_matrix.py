#!/usr/bin/env python3
"""Apply stored patches (seeded changes or behaviour-preserving refactorings) to a scratch git checkout of /repo HEAD and evaluate
the rules of all twenty properties IN ONE PROCESS per patch (facts are extracted and loaded once per patch instead of twenty times).
Reports, per patch, the properties with a VIOLATION that is not a listed known finding — the same verdict `./check` gives, without
evidence files or positive controls (those do not depend on the patched tree).

usage: VERIF_MATRIX_ROOT=/tmp/scratch-checkout fast_matrix.py neutral|seeds [id ...]      (never run against /repo itself)
Results go into seeded/<id>/meta.json (alarms_final / checks_fired_final, detected_by_target_property_final)."""
import importlib
import json
import os
import subprocess
import sys
import traceback

VERIF = os.path.dirname(os.path.dirname(os.path.abspath(__file__)))
sys.path.insert(0, os.path.join(VERIF, "lib"))
sys.path.insert(0, VERIF)
import core  # noqa: E402
import mir  # noqa: E402

ROOT = os.environ["VERIF_MATRIX_ROOT"]
assert os.path.realpath(ROOT) != "/repo"
PROPS = [json.loads(l)["id"] for l in open(os.path.join(VERIF, "properties.jsonl"))]
MODS = {p: importlib.import_module("rules." + p.lower()) for p in PROPS}
KNOWN = {}
for k in core.load_known():
    if k.get("status") == "open":
        KNOWN.setdefault(k["property"], set()).add(k["key"])


def sh(c, cwd=None):
    r = subprocess.run(c, shell=True, cwd=cwd, stdout=subprocess.PIPE, stderr=subprocess.STDOUT, text=True)
    return r.returncode, r.stdout


def evaluate():
    fired = {}
    try:
        facts_dir = core.extract(ROOT)
    except core.Broken as e:
        return {p: ["CHECK-BROKEN " + str(e)[-200:]] for p in PROPS}
    ctx = core.Ctx(facts_dir, ROOT)
    for p in PROPS:
        rep = core.Report(p, "quick", 0)
        try:
            MODS[p].run(ctx, rep)
        except mir.RoleError as e:
            rep.unresolved("ROLE", "lookup", str(e))
        except core.Broken as e:
            fired[p] = ["CHECK-BROKEN " + str(e)[-200:]]
            continue
        except Exception:
            fired[p] = ["CHECK-BROKEN internal error: " + traceback.format_exc()[-300:]]
            continue
        new = []
        seen = set()
        for v in rep.violations:
            if v["key"] in KNOWN.get(p, ()) or v["key"] in seen:
                continue
            seen.add(v["key"])
            new.append(("  rule %s at %s: %s" % (v["rule"], v["site"] or "?", v["detail"]))[:300])
        if new:
            fired[p] = new[:6]
    return fired


def main():
    kind = sys.argv[1]
    only = sys.argv[2:]
    assert not sh("git status --short", ROOT)[1].strip(), ROOT + " not clean"
    ids = sorted(os.listdir(os.path.join(VERIF, "seeded")), key=lambda s: (len(s), s))
    for sid in ids:
        d = os.path.join(VERIF, "seeded", sid)
        if not os.path.isdir(d) or (only and sid not in only):
            continue
        if (kind == "neutral") != sid.startswith("neutral-"):
            continue
        mp = os.path.join(d, "meta.json")
        meta = json.load(open(mp)) if os.path.exists(mp) else {"id": sid}
        rc, out = sh(f"git apply {d}/patch.diff", ROOT)
        rb = os.path.join(d, "patch.rebased-6c42047.diff")
        if rc != 0 and os.path.exists(rb):      # the stored change was made on the parent of the look-ahead repair: use its re-based form
            rc, out = sh(f"git apply {rb}", ROOT)
            meta["evaluated_patch"] = os.path.basename(rb)
        fired = {}
        try:
            if rc != 0:
                meta["applies_to_repo_head"] = False
                print(sid, "does not apply:", out[:200], flush=True)
            else:
                meta["applies_to_repo_head"] = True
                fired = evaluate()
        finally:
            sh("git checkout -- .", ROOT)
            sh("git clean -fdq crates", ROOT)
        if kind == "neutral":
            meta["alarms_final"] = fired
            print(sid, "silent" if not fired else "ALARMS " + json.dumps({p: len(v) for p, v in fired.items()}), flush=True)
        else:
            meta["checks_fired_final"] = fired
            meta["detected_by_target_property_final"] = meta.get("property", sid.split("-")[0]) in fired
            print(sid, "target:", meta["detected_by_target_property_final"], "fired:", sorted(fired), flush=True)
        json.dump(meta, open(mp, "w"), indent=1)
    assert not sh("git status --short", ROOT)[1].strip(), ROOT + " not restored"


if __name__ == "__main__":
    main()
