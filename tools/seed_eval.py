#!/usr/bin/env python3
"""Confirm a seeded change produced by a sub-agent and evaluate the checks against it.

usage: seed_eval.py <ID> <worktree>          (worktree contains the change, the demo test and _seed/)

1. confirm, in the scratch worktree: with the change the existing suite passes and only the demo fails;
   with the source change reverted (patch -R) the demo passes too;
2. store /verif/seeded/<ID>/{patch.diff, demo files, README.md, meta.json};
3. apply the patch to /repo, run every quick check, record which fire (new VIOLATION lines), and undo it.
"""
import json
import os
import re
import shutil
import subprocess
import sys

VERIF = os.path.dirname(os.path.dirname(os.path.abspath(__file__)))
PROPS = [json.loads(l)["id"] for l in open(os.path.join(VERIF, "properties.jsonl"))]


def sh(cmd, cwd=None, env=None, timeout=3600):
    r = subprocess.run(cmd, shell=True, cwd=cwd, env=env, stdout=subprocess.PIPE, stderr=subprocess.STDOUT, text=True, timeout=timeout)
    return r.returncode, r.stdout


def nextest(wt):
    env = dict(os.environ, CARGO_TARGET_DIR=os.path.join(wt, "target"), CARGO_NET_OFFLINE="true", RUST_BACKTRACE="0", CARGO_PROFILE_DEV_DEBUG="line-tables-only", CARGO_BUILD_JOBS="8")
    rc, out = sh("cargo nextest run --workspace --no-fail-fast --test-threads 8 --offline 2>&1 | grep -E '^\\s+(FAIL|PASS)|Summary|error(\\[|:)' | cut -c1-200", cwd=wt, env=env)
    fails = sorted(set(re.findall(r"FAIL \[[^\]]*\] (?:\(\s*\d+/\d+\) )?(?:\(\S+\) )?(\S+ \S+)", out)))
    m = re.search(r"(\d+) tests run: (\d+) passed(?: \(\d+ \w+\))?(?:, (\d+) failed)?", out)
    summ = m.group(0) if m else out[-300:]
    return fails, summ


def main():
    sid, wt = sys.argv[1], sys.argv[2].rstrip("/")
    prop = sid.split("-")[0]
    sd = os.path.join(wt, "_seed")
    patch = os.path.join(sd, "patch.diff")
    assert os.path.exists(patch), "no _seed/patch.diff"
    meta = {"id": sid, "property": prop}
    # --- 1. confirm in the scratch worktree
    rc, st = sh("git status --short", cwd=wt)
    meta["worktree_status"] = st.strip().splitlines()
    rc, chk = sh(f"git apply --check -R {patch}", cwd=wt)
    if rc != 0:
        # the change might not be applied (agent left it reverted): try forward
        rc2, chk2 = sh(f"git apply --check {patch}", cwd=wt)
        if rc2 == 0:
            sh(f"git apply {patch}", cwd=wt)
        else:
            print("patch neither applied nor applicable in worktree:", chk, chk2)
            return 2
    fails_with, summ_with = nextest(wt)
    sh(f"git apply -R {patch}", cwd=wt)
    fails_without, summ_without = nextest(wt)
    sh(f"git apply {patch}", cwd=wt)
    meta["with_change"] = {"summary": summ_with, "failing": fails_with}
    meta["without_change"] = {"summary": summ_without, "failing": fails_without}
    demo_only = bool(fails_with) and all("seed" in f or "demo" in f for f in fails_with)
    meta["confirmed"] = bool(demo_only and not fails_without)
    print("with change   :", summ_with, fails_with)
    print("without change:", summ_without, fails_without)
    print("confirmed     :", meta["confirmed"])
    # --- 2. store
    dst = os.path.join(VERIF, "seeded", sid)
    os.makedirs(dst, exist_ok=True)
    for fn in os.listdir(sd):
        src = os.path.join(sd, fn)
        if os.path.isfile(src) and os.path.getsize(src) < 2_000_000:
            shutil.copy(src, os.path.join(dst, fn))
    # --- 3. run the checks against /repo + patch
    rc, out = sh("git status --short", cwd="/repo")
    if out.strip():
        print("/repo is not clean, aborting step 3:", out)
        return 2
    rc, out = sh(f"git apply {os.path.join(dst, 'patch.diff')}", cwd="/repo")
    fired = {}
    try:
        if rc != 0:
            print("patch does not apply to /repo:", out)
            meta["applies_to_repo"] = False
        else:
            meta["applies_to_repo"] = True
            for p in PROPS:
                rc, o = sh(f"./check {p} --tier quick", cwd=VERIF)
                lines = [l for l in o.splitlines() if l.startswith("VIOLATION") or l.startswith("  rule") or l.startswith("CHECK-BROKEN")]
                if rc != 0:
                    fired[p] = {"exit": rc, "lines": [l[:400] for l in lines[:12]]}
    finally:
        sh("git checkout -- .", cwd="/repo")
        rc, out = sh("git status --short", cwd="/repo")
        assert not out.strip(), "/repo not restored: " + out
    meta["checks_fired"] = fired
    meta["detected_by_target_property"] = prop in fired
    meta["ran"] = ["cargo nextest run --workspace --no-fail-fast --test-threads 8 --offline (with and without the source change, in the scratch worktree)",
                   "git -C /repo apply patch.diff; ./check <each property> --tier quick; git -C /repo checkout -- ."]
    old = {}
    mp = os.path.join(dst, "meta.json")
    if os.path.exists(mp):
        old = json.load(open(mp))
    for k in ("needs", "what", "notes"):
        if k in old:
            meta[k] = old[k]
    json.dump(meta, open(mp, "w"), indent=1)
    print("fired:", {k: [l for l in v["lines"] if l.startswith("  rule")][:2] for k, v in fired.items()})
    return 0


if __name__ == "__main__":
    sys.exit(main())
