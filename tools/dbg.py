"""debug helper: python3 tools/dbg.py <root> -> interactive-ish namespace"""
import sys, os
sys.path.insert(0, os.path.join(os.path.dirname(__file__), "..", "lib"))
sys.path.insert(0, os.path.join(os.path.dirname(__file__), ".."))
import core
from mir import *
from roles import *


def load(root="/repo"):
    ctx = core.Ctx(core.extract(root), root)
    return ctx, Roles(ctx.F)
