#!/usr/bin/env python3
"""Prepare scratch worktrees for a round of independently seeded changes (give each worktree a copy of /repo/target first: `cp -a /repo/target
<wt>/target`; the dev-debug setting below is what makes cargo reuse it — without it every agent rebuilds ~4 GB of dependencies; harvest each
worktree (_seed/, the demo test) and remove it as soon as its agent reports, then evaluate with tools/seed_eval_shared.sh): /tmp/<round>-<ID>/ with _TASK.md holding only the
property's text and the protocol. usage: seed_launch.py <round> [ID ...]   (agents are started separately)"""
import json, os, subprocess, sys, glob
VERIF = os.path.dirname(os.path.dirname(os.path.abspath(__file__)))
rnd = sys.argv[1]
only = sys.argv[2:]
props = [json.loads(l) for l in open(os.path.join(VERIF, "properties.jsonl"))]
for p in props:
    pid = p["id"]
    if only and pid not in only:
        continue
    wt = f"/tmp/{rnd}-{pid}"
    if not os.path.exists(wt):
        subprocess.run(f"git -C /repo worktree add --detach {wt} HEAD", shell=True, check=True, stdout=subprocess.DEVNULL, stderr=subprocess.DEVNULL)
    prior = []
    for d in sorted(glob.glob(os.path.join(VERIF, "seeded", pid + "-s*"))):
        rd = os.path.join(d, "README.md")
        files = []
        for l in open(os.path.join(d, "patch.diff")):
            if l.startswith("+++ b/"):
                files.append(l[6:].strip())
        first = ""
        if os.path.exists(rd):
            for l in open(rd):
                l = l.strip()
                if l and not l.startswith("#"):
                    first = l[:200]
                    break
        prior.append(f"- ({', '.join(files)}) {first}")
    task = f"""# Task

You are working in a scratch git worktree of a Rust project (`cgt-tool`, a UK capital gains tax calculator) at `{wt}`.
Work only inside this directory. Do NOT use `git stash`, do not touch any other checkout, do not commit, no network.

Below is one semantic PROPERTY the project is supposed to satisfy. Make ONE realistic source change — the kind of regression a
maintainer could plausibly introduce (a refactor slip, a boundary mistake, a wrong variable, a dropped or weakened guard, a
changed default, a reordered step, a helper reused where it does not fit …) — that

1. BREAKS the property for at least one input inside the property's quantifier,
2. still compiles, and
3. leaves the ENTIRE existing test suite passing, unedited (311 tests):
   `mkdir -p {wt}/_tmp && TMPDIR={wt}/_tmp CARGO_TARGET_DIR={wt}/target CARGO_NET_OFFLINE=true CARGO_PROFILE_DEV_DEBUG=line-tables-only CARGO_BUILD_JOBS=4 RUST_BACKTRACE=0 cargo nextest run --workspace --no-fail-fast --test-threads 8 --offline`

The change must be in non-test source (`crates/*/src/**`, the `.pest` grammar counts), small (ideally under 25 changed lines), not a
special case on a literal input (no `if ticker == "XYZ"`), and add no dependencies.

The change should need something SPECIFIC to manifest — a multi-step sequence of operations, an unusual but legal input, a crash or
fault at a particular point, or (best) TWO COOPERATING SITES that each look fine alone (e.g. a helper whose contract shifts slightly
and one caller that relied on the old contract) — not something ordinary use would expose at once.

Variety matters. Earlier rounds already used the ideas below for this property; choose something DIFFERENT in kind, preferably in a
different function or file, and preferably subtle (a clause of the statement that is easy to overlook):
{chr(10).join(prior) if prior else '- (none)'}

## Deliverables (all inside the worktree)

- leave the source change APPLIED in the working tree;
- `_seed/patch.diff`: the source change only (`git diff -- crates/*/src > _seed/patch.diff`); it must apply to a pristine checkout with `git apply`;
- a demonstration: a NEW integration test file `crates/<crate>/tests/seed_demo.rs` (not in patch.diff) whose tests PASS on the pristine
  tree and FAIL with your change, observing the behaviour the way the property's `observe_at` says;
- `_seed/README.md`: first line = one-sentence description of the change; then why it breaks the property (the concrete input, outputs
  before/after) and why the existing tests do not notice.

Verify yourself: full suite with the change → only `seed_demo` tests fail; after `git apply -R _seed/patch.diff` → `seed_demo` passes; then
re-apply the patch so the change is left applied. Finish with a five-line summary.

## The property

```json
{json.dumps(p, indent=1)}
```
"""
    open(os.path.join(wt, "_TASK.md"), "w").write(task)
    print(wt)
