#!/bin/bash
# usage: tools/root_eval.sh <root> [props...] — run the quick checks against another tree, print only alarms
cd "$(dirname "$0")/.."
root=$1; shift
props=${@:-C01 C02 C03 C04 C05 C06 C07 C08 C09 C10 C11 C12 C13 C14 C15 C16 C17 C18 C19 C20}
./check C01 --root $root >/dev/null 2>&1
for p in $props; do
  ( ./check $p --root $root > /tmp/.re_$p.out 2>&1; echo $? > /tmp/.re_$p.rc ) &
done
wait
for p in $props; do
  rc=$(cat /tmp/.re_$p.rc)
  if [ "$rc" != 0 ]; then echo "== $p rc=$rc"; grep -E "^  rule|CHECK-BROKEN|Error|Traceback|File " /tmp/.re_$p.out | cut -c1-${W:-330} | head -${N:-12}; fi
  rm -f /tmp/.re_$p.out /tmp/.re_$p.rc
done
echo done
