#!/usr/bin/env python3
"""Collect the small behaviour-preserving edits a sub-agent left in <worktree>/_small/p<k>.diff (+ p<k>.txt) into
seeded/neutral-sm-<tag><k>/ (patch.diff, note.txt, meta.json). Evaluation is done by tools/neutral_matrix.py."""
import json, os, shutil, subprocess, sys
VERIF = os.path.dirname(os.path.dirname(os.path.abspath(__file__)))
tag, wt = sys.argv[1], sys.argv[2].rstrip("/")
src = os.path.join(wt, "_small")
n = 0
for fn in sorted(os.listdir(src)):
    if not (fn.startswith("p") and fn.endswith(".diff")):
        continue
    k = fn[1:-5]
    p = os.path.join(src, fn)
    if os.path.getsize(p) == 0:
        continue
    r = subprocess.run(f"git apply --check {p}", shell=True, cwd="/repo", stdout=subprocess.PIPE, stderr=subprocess.STDOUT, text=True)
    dst = os.path.join(VERIF, "seeded", f"neutral-sm-{tag}{k}")
    os.makedirs(dst, exist_ok=True)
    shutil.copy(p, os.path.join(dst, "patch.diff"))
    note = os.path.join(src, f"p{k}.txt")
    if os.path.exists(note):
        shutil.copy(note, os.path.join(dst, "note.txt"))
    st = subprocess.run(f"git apply --stat {p} | tail -1", shell=True, cwd="/repo", stdout=subprocess.PIPE, text=True).stdout.strip()
    json.dump({"id": f"neutral-sm-{tag}{k}", "kind": "small behaviour-preserving edit (must stay silent)", "applies": r.returncode == 0, "diffstat": st,
               "note": open(note).read().strip()[:400] if os.path.exists(note) else ""}, open(os.path.join(dst, "meta.json"), "w"), indent=1)
    n += 1
    print(f"neutral-sm-{tag}{k}", "applies" if r.returncode == 0 else "DOES NOT APPLY", st)
print(n, "collected")
