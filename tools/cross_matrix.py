#!/usr/bin/env python3
"""Seeded break on top of a behaviour-preserving refactoring: for every pair (neutral N, seed S) whose patches touch a common
file and apply one after the other, apply both to /repo, run the check of S's own property (quick tier) and record whether the
break is still reported. Detection must survive refactoring; a pair that is silent is a miss to look at.
usage: cross_matrix.py [--only-r] [--limit K]      results -> seeded/cross_matrix.json, one line per pair on stdout"""
import json
import os
import subprocess
import sys

VERIF = os.path.dirname(os.path.dirname(os.path.abspath(__file__)))


def sh(c, cwd=None):
    r = subprocess.run(c, shell=True, cwd=cwd, stdout=subprocess.PIPE, stderr=subprocess.STDOUT, text=True)
    return r.returncode, r.stdout


def files_of(patch):
    return {l[6:].strip() for l in open(patch) if l.startswith("+++ b/")}


def main():
    only_r = "--only-r" in sys.argv
    limit = int(sys.argv[sys.argv.index("--limit") + 1]) if "--limit" in sys.argv else 10 ** 9
    sd = os.path.join(VERIF, "seeded")
    neutrals = sorted(d for d in os.listdir(sd) if d.startswith("neutral-") and (not only_r or d.startswith("neutral-r")))
    seeds = sorted(d for d in os.listdir(sd) if d[0] == "C" and "-s" in d)
    assert not sh("git status --short", "/repo")[1].strip(), "/repo not clean"
    out_path = os.path.join(sd, "cross_matrix.json")
    results = json.load(open(out_path)) if os.path.exists(out_path) else {}
    n = 0
    for N in neutrals:
        pn = os.path.join(sd, N, "patch.diff")
        fn = files_of(pn)
        for S in seeds:
            ps = os.path.join(sd, S, "patch.diff")
            if not (fn & files_of(ps)):
                continue
            key = f"{N}+{S}"
            if key in results and "--redo" not in sys.argv:
                continue
            if n >= limit:
                break
            prop = S.split("-")[0]
            try:
                rc, o = sh(f"git apply {pn}", "/repo")
                if rc != 0:
                    results[key] = "neutral-does-not-apply"
                    continue
                rc, o = sh(f"git apply {ps}", "/repo")
                if rc != 0:
                    # try with fuzz through patch(1): hunks may have moved
                    rc2, o2 = sh(f"patch -p1 -s --dry-run -i {ps}", "/repo")
                    if rc2 != 0:
                        results[key] = "conflict"
                        continue
                    sh(f"patch -p1 -s -i {ps}", "/repo")
                n += 1
                rc, o = sh(f"./check {prop} --tier quick", VERIF)
                if "CHECK-BROKEN" in o:
                    # the combination does not compile (or the check could not run): not a verdict about the checker
                    results[key] = "does-not-compile" if ("error" in o and ("rustc" in o or "cargo" in o or "error[E" in o or "could not compile" in o)) else "check-broken"
                else:
                    results[key] = "detected" if rc != 0 else "SILENT"
                print(key, results[key], flush=True)
            finally:
                sh("git checkout -- .", "/repo")
                sh("git clean -fdq crates", "/repo")
                json.dump(results, open(out_path, "w"), indent=0, sort_keys=True)
    assert not sh("git status --short", "/repo")[1].strip(), "/repo not restored"
    tot = {}
    for v in results.values():
        tot[v] = tot.get(v, 0) + 1
    print("totals:", tot)


if __name__ == "__main__":
    main()
