#!/usr/bin/env python3
"""Apply every stored behaviour-preserving refactoring (seeded/neutral-*/patch.diff) to /repo in turn (git apply … git checkout -- .),
run all quick checks, and record the alarms in its meta.json (alarms_final). Prints one line per refactoring."""
import json, os, subprocess, sys
VERIF = os.path.dirname(os.path.dirname(os.path.abspath(__file__)))
PROPS = [json.loads(l)["id"] for l in open(os.path.join(VERIF, "properties.jsonl"))]
ROOT = os.environ.get("VERIF_MATRIX_ROOT", "/repo")      # a scratch git checkout of /repo HEAD may stand in (checks run with --root)
def sh(c, cwd=None):
    r = subprocess.run(c, shell=True, cwd=cwd, stdout=subprocess.PIPE, stderr=subprocess.STDOUT, text=True)
    return r.returncode, r.stdout
only = sys.argv[1:]
assert not sh("git status --short", ROOT)[1].strip(), ROOT + " not clean"
for sid in sorted(os.listdir(os.path.join(VERIF, "seeded")), key=lambda s: (len(s), s)):
    d = os.path.join(VERIF, "seeded", sid)
    if not sid.startswith("neutral-") or (only and sid not in only):
        continue
    mp = os.path.join(d, "meta.json")
    meta = json.load(open(mp)) if os.path.exists(mp) else {"id": sid}
    rc, out = sh(f"git apply {d}/patch.diff", ROOT)
    alarms = {}
    try:
        if rc != 0:
            meta["applies_to_repo_head"] = False
            print(sid, "does not apply:", out[:200])
        else:
            meta["applies_to_repo_head"] = True
            for p in PROPS:
                rc, o = sh(f"./check {p} --tier quick --root {ROOT}", VERIF)
                if rc != 0:
                    alarms[p] = [l.strip()[:300] for l in o.splitlines() if l.startswith("  rule") or l.startswith("CHECK-BROKEN")][:6]
    finally:
        sh("git checkout -- .", ROOT)
        sh("git clean -fdq crates", ROOT)
    meta["alarms_final"] = alarms
    json.dump(meta, open(mp, "w"), indent=1)
    print(sid, "silent" if not alarms else "ALARMS " + json.dumps({p: len(v) for p, v in alarms.items()}))
assert not sh("git status --short", ROOT)[1].strip(), ROOT + " not restored"
