#!/usr/bin/env python3
"""Evaluate a behaviour-preserving refactoring produced by a sub-agent: the checks must stay silent.
usage: refactor_eval.py <ID> <worktree>   (worktree has the refactor applied and _refactor/patch.diff)"""
import json, os, re, shutil, subprocess, sys
VERIF = os.path.dirname(os.path.dirname(os.path.abspath(__file__)))
PROPS = [json.loads(l)["id"] for l in open(os.path.join(VERIF, "properties.jsonl"))]
def sh(c, cwd=None, env=None):
    r = subprocess.run(c, shell=True, cwd=cwd, env=env, stdout=subprocess.PIPE, stderr=subprocess.STDOUT, text=True)
    return r.returncode, r.stdout
rid, wt = sys.argv[1], sys.argv[2].rstrip("/")
src = os.path.join(wt, "_refactor")
dst = os.path.join(VERIF, "seeded", "neutral-" + rid)
os.makedirs(dst, exist_ok=True)
for fn in os.listdir(src):
    if os.path.isfile(os.path.join(src, fn)):
        shutil.copy(os.path.join(src, fn), os.path.join(dst, fn))
meta = {"id": "neutral-" + rid, "kind": "behaviour-preserving refactoring (must stay silent)"}
if "--skip-tests" not in sys.argv:
    env = dict(os.environ, CARGO_TARGET_DIR=os.path.join(wt, "target"), CARGO_NET_OFFLINE="true", RUST_BACKTRACE="0")
    rc, out = sh("cargo nextest run --workspace --no-fail-fast --test-threads 8 --offline 2>&1 | grep -E 'Summary|^\\s+FAIL' | cut -c1-160", wt, env)
    meta["tests"] = out.strip().splitlines()[-3:]
    print("tests:", meta["tests"])
assert not sh("git status --short", "/repo")[1].strip(), "/repo not clean"
rc, out = sh(f"git apply {dst}/patch.diff", "/repo")
alarms = {}
try:
    if rc != 0:
        meta["applies"] = False
        print("does not apply:", out[:300])
    else:
        meta["applies"] = True
        st = sh("git diff --stat | tail -1", "/repo")[1].strip()
        meta["diffstat"] = st
        for p in PROPS:
            rc, o = sh(f"./check {p} --tier quick", VERIF)
            if rc != 0:
                alarms[p] = [l.strip()[:400] for l in o.splitlines() if l.startswith("  rule") or l.startswith("CHECK-BROKEN") or "Error" in l][:8]
finally:
    sh("git checkout -- .", "/repo")
    sh("git clean -fdq crates", "/repo")
assert not sh("git status --short", "/repo")[1].strip(), "/repo not restored"
meta["alarms"] = alarms
json.dump(meta, open(os.path.join(dst, "meta.json"), "w"), indent=1)
print(rid, meta.get("diffstat"), "ALARMS:" if alarms else "silent", json.dumps(alarms, indent=1)[:3000] if alarms else "")
