#!/usr/bin/env python3
"""Prepare a scratch worktree for a behaviour-preserving refactoring round: /tmp/ref-<id>/ with _TASK.md.
usage: refactor_launch.py <id> "<area description>" """
import os, subprocess, sys
rid, area = sys.argv[1], sys.argv[2]
wt = f"/tmp/ref-{rid}"
if not os.path.exists(wt):
    subprocess.run(f"git -C /repo worktree add --detach {wt} HEAD", shell=True, check=True, stdout=subprocess.DEVNULL, stderr=subprocess.DEVNULL)
task = f"""# Task

You are working in a scratch git worktree of a Rust project (`cgt-tool`, a UK capital gains tax calculator) at `{wt}`.
Work only inside this directory. Do NOT use `git stash`, do not touch any other checkout, do not commit, no network.

Carry out a substantial BEHAVIOUR-PRESERVING refactoring of this area:

    {area}

What is wanted is the kind of clean-up a maintainer would do on a free afternoon: restructure control flow, extract or inline
helpers, introduce small carrier structs or enums, replace loops by iterator pipelines or the reverse, rename, reorder independent
statements, move code between functions of the same module — 150 to 400 changed lines. What is NOT allowed: any change of observable
behaviour for ANY input (same outputs byte for byte, same errors and error texts, same acceptance/rejection, same panics-or-not),
changes to tests, new dependencies, `unsafe`, or changes to public APIs used by other crates.

Verify: `mkdir -p {wt}/_tmp && TMPDIR={wt}/_tmp CARGO_TARGET_DIR={wt}/target CARGO_NET_OFFLINE=true cargo nextest run --workspace --no-fail-fast --test-threads 8 --offline`
must give 311 passed, `cargo fmt --check` clean, no new clippy warnings. Beyond the tests, convince yourself of equivalence on edge
cases (write a throw-away comparison against a copy of the old code if that helps; keep it out of the patch).

Deliverables (inside the worktree): leave the refactoring APPLIED; `_refactor/patch.diff` = `git diff -- crates > _refactor/patch.diff`
(source only, must apply to a pristine checkout with `git apply`); `_refactor/README.md` describing what you restructured and why it is
equivalent. Finish with a five-line summary.
"""
open(os.path.join(wt, "_TASK.md"), "w").write(task)
print(wt)
