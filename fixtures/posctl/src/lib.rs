#![allow(dead_code, clippy::all)]
//! Positive controls for the static rules in /verif/rules. See Cargo.toml.
use rust_decimal::Decimal;
use std::collections::{BTreeMap, HashMap, HashSet};

// ---------------------------------------------------------------- C16 R1
pub fn hash_vec_unsorted(m: HashMap<String, i32>) -> Vec<String> {
    let v: Vec<String> = m.into_keys().collect();
    v
}

pub fn hash_vec_sorted_ok(m: HashMap<String, i32>) -> Vec<String> {
    let mut v: Vec<String> = m.into_keys().collect();
    v.sort_by(|a, b| a.cmp(b));
    v
}

pub fn hash_early_exit(m: HashMap<u16, i32>) -> Result<i32, u16> {
    let mut total = 0;
    for (k, v) in m {
        if v < 0 {
            return Err(k);
        }
        total += v;
    }
    Ok(total)
}

pub fn btree_early_exit_ok(m: BTreeMap<u16, i32>) -> Result<i32, u16> {
    let mut total = 0;
    for (k, v) in m {
        if v < 0 {
            return Err(k);
        }
        total += v;
    }
    Ok(total)
}

pub fn hash_set_to_text(s: HashSet<&str>) -> String {
    let items: Vec<_> = s.into_iter().collect();
    items.iter().map(|t| format!("- {t}\n")).collect()
}

// ---------------------------------------------------------------- C16 R2
pub fn clock_in_wrong_place() -> String {
    chrono::Utc::now().to_rfc3339()
}

// ---------------------------------------------------------------- C16 R3
pub struct Item {
    pub ticker: String,
    pub n: i32,
}

pub fn sort_descending(v: &mut Vec<Item>) {
    v.sort_by(|a, b| b.ticker.cmp(&a.ticker));
}

pub fn sort_ascending_ok(v: &mut Vec<Item>) {
    v.sort_by(|a, b| a.ticker.cmp(&b.ticker));
}

pub fn sort_unstable_ctl(v: &mut Vec<Item>) {
    v.sort_unstable_by(|a, b| a.ticker.cmp(&b.ticker));
}

pub fn dec(x: Decimal) -> Decimal {
    x
}
