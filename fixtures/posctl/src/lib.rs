#![allow(dead_code, clippy::all)]
//! Positive controls for the static rules in /verif/rules. See Cargo.toml.
use rust_decimal::Decimal;
use std::collections::{BTreeMap, HashMap, HashSet};

// ---------------------------------------------------------------- C16 R1
pub fn hash_vec_unsorted(m: HashMap<String, i32>) -> Vec<String> {
    let v: Vec<String> = m.into_keys().collect();
    v
}

pub fn hash_vec_sorted_ok(m: HashMap<String, i32>) -> Vec<String> {
    let mut v: Vec<String> = m.into_keys().collect();
    v.sort_by(|a, b| a.cmp(b));
    v
}

/// two entries may tie on the value: which key is returned depends on the hash order
pub fn hash_max_by_key_tie(m: &HashMap<String, i32>) -> Option<&String> {
    m.iter().max_by_key(|(_, v)| **v).map(|(k, _)| k)
}

/// the maximum VALUE itself is the same whichever tied item supplies it
pub fn hash_max_value_ok(m: &HashMap<String, i32>) -> Option<i32> {
    m.values().copied().max()
}

pub fn hash_early_exit(m: HashMap<u16, i32>) -> Result<i32, u16> {
    let mut total = 0;
    for (k, v) in m {
        if v < 0 {
            return Err(k);
        }
        total += v;
    }
    Ok(total)
}

pub fn btree_early_exit_ok(m: BTreeMap<u16, i32>) -> Result<i32, u16> {
    let mut total = 0;
    for (k, v) in m {
        if v < 0 {
            return Err(k);
        }
        total += v;
    }
    Ok(total)
}

pub fn hash_set_to_text(s: HashSet<&str>) -> String {
    let items: Vec<_> = s.into_iter().collect();
    items.iter().map(|t| format!("- {t}\n")).collect()
}

// ---------------------------------------------------------------- C16 R2
pub fn clock_in_wrong_place() -> String {
    chrono::Utc::now().to_rfc3339()
}

// ---------------------------------------------------------------- C16 R3
pub struct Item {
    pub ticker: String,
    pub n: i32,
}

pub fn sort_descending(v: &mut Vec<Item>) {
    v.sort_by(|a, b| b.ticker.cmp(&a.ticker));
}

pub fn sort_ascending_ok(v: &mut Vec<Item>) {
    v.sort_by(|a, b| a.ticker.cmp(&b.ticker));
}

pub fn sort_unstable_ctl(v: &mut Vec<Item>) {
    v.sort_unstable_by(|a, b| a.ticker.cmp(&b.ticker));
}

pub fn dec(x: Decimal) -> Decimal {
    x
}

// ---------------------------------------------------------------- C15 / C20 may-panic controls
pub fn panic_unwrap(x: Option<i32>) -> i32 {
    x.unwrap()
}

pub fn panic_macro(x: i32) -> i32 {
    if x < 0 {
        panic!("negative");
    }
    x
}

pub fn panic_days_nonconst(d: chrono::NaiveDate, n: i64) -> Option<chrono::NaiveDate> {
    d.checked_sub_signed(chrono::Duration::days(n))
}

pub fn panic_days_const_ok(d: chrono::NaiveDate) -> Option<chrono::NaiveDate> {
    for k in 1..=7 {
        if let Some(x) = d.checked_sub_signed(chrono::Duration::days(k)) {
            return Some(x);
        }
    }
    None
}

pub fn overflow_add_param(y: i32) -> i32 {
    (y + 1) % 100
}

pub fn index_guarded_ok(v: &[i32]) -> i32 {
    let mut i = 0;
    let mut s = 0;
    while i < v.len() {
        s ^= v[i];
        i += 1;
    }
    s
}

/// the guard speaks about another container than the one indexed: must be reported
pub fn index_guard_other_container(a: &[i32], b: &[i32]) -> i32 {
    let mut i = 0;
    let mut s = 0;
    while i < a.len() {
        s ^= b[i];
        i += 1;
    }
    s
}

pub fn vec_index_guard_other_container(a: &Vec<i32>, b: &Vec<i32>) -> i32 {
    let mut i = 0;
    let mut s = 0;
    while i < a.len() {
        s ^= b[i];
        i += 1;
    }
    s
}

pub fn vec_index_guarded_ok(a: &Vec<i32>) -> i32 {
    let mut i = 0;
    let mut s = 0;
    while i < a.len() {
        s ^= a[i];
        i += 1;
    }
    s
}

/// scan helper in the shape of "index one past the last element equal to xs[start]": callers guard `start < len`
fn scan_end(xs: &[i32], start: usize) -> usize {
    let v = xs[start];
    let mut e = start;
    while e < xs.len() && xs[e] == v {
        e += 1;
    }
    e
}

pub fn scan_helper_ok(xs: &[i32]) -> i32 {
    let mut i = 0;
    let mut s = 0;
    while i < xs.len() {
        let e = scan_end(xs, i);
        s ^= xs[i..e].len() as i32;
        i = e;
    }
    s
}

/// the same helper, but its only caller passes an unchecked index: `xs[start]` must be reported
fn scan_end_bad(xs: &[i32], start: usize) -> usize {
    let v = xs[start];
    let mut e = start;
    while e < xs.len() && xs[e] == v {
        e += 1;
    }
    e
}

pub fn scan_helper_unguarded(xs: &[i32], i: usize) -> usize {
    scan_end_bad(xs, i)
}

pub fn index_unguarded(v: &[i32], i: usize) -> i32 {
    v[i]
}

pub fn vec_index_unguarded(v: &Vec<i32>, i: usize) -> i32 {
    v[i]
}

pub fn decimal_mul(a: Decimal, b: Decimal) -> Decimal {
    a * b
}

pub fn decimal_behind_barrier(a: Decimal, b: Decimal) -> Option<Decimal> {
    std::panic::catch_unwind(|| decimal_mul(a, b)).ok()
}

// ---------------------------------------------------------------- C20 controls
pub struct StatefulServer {
    pub hits: std::sync::Mutex<u32>,
    pub name: String,
}

pub struct StatelessOk {
    pub names: Vec<String>,
    pub table: HashMap<String, Decimal>,
}

pub fn effect_in_handler(path: &str) -> usize {
    std::fs::read_to_string(path).map(|s| s.len()).unwrap_or(0)
}

pub async fn awaiting_handler(x: u32) -> u32 {
    helper_async(x).await + 1
}

async fn helper_async(x: u32) -> u32 {
    x
}

// ---------------------------------------------------------------- C18 taint controls
pub fn comment_unsanitised(text: &str) -> String {
    format!("# {}", text)
}

pub fn comment_sanitised_replace_ok(text: &str) -> String {
    let one = text.replace(['\n', '\r'], " ");
    format!("# {}", one)
}

pub fn comment_sanitised_filter_ok(text: &str) -> String {
    let one: String = text.chars().filter(|c| *c != '\n' && *c != '\r').collect();
    format!("# {}", one)
}

// ---------------------------------------------------------------- C17 controls
pub fn round_bare(x: Decimal) -> Decimal {
    x.round_dp(2)
}

pub fn round_away_ok(x: Decimal) -> Decimal {
    x.round_dp_with_strategy(2, rust_decimal::RoundingStrategy::MidpointAwayFromZero)
}

pub fn round_half_even_strategy(x: Decimal) -> Decimal {
    x.round_dp_with_strategy(2, rust_decimal::RoundingStrategy::MidpointNearestEven)
}

pub fn float_conv(x: Decimal) -> Option<f64> {
    use rust_decimal::prelude::ToPrimitive;
    x.to_f64()
}

// ---------------------------------------------------------------- engine controls (string synthesis, pipelines, effects)

/// strsyn: must yield exactly the two strings `X {}` and `X {} Y`
pub fn strsyn_two_alternatives(a: &str, flag: bool) -> String {
    let mut s = format!("X {}", a);
    if flag {
        push_suffix(&mut s);
    }
    s
}

fn push_suffix(s: &mut String) {
    s.push(' ');
    s.push_str("Y");
}

/// pipeline: the loop body runs under `e.0 == k` (filter) and `e.1 <= 30` (take_while), starting at index 1
pub fn pipeline_guards(v: &[(u32, u32)], k: u32) -> u32 {
    let mut n = 0u32;
    for (_i, e) in v
        .iter()
        .enumerate()
        .skip(1)
        .filter(|(_, e)| e.0 == k)
        .take_while(|(_, e)| e.1 <= 30)
    {
        n = n.wrapping_add(e.1);
    }
    n
}

/// misaligned index: `k` counts the survivors of the filter, but is used as a position in `table` (which is aligned with `v`)
pub fn misaligned_index(v: &[u32], table: &[u32]) -> u32 {
    let mut n = 0u32;
    for (k, _x) in v.iter().filter(|x| **x > 3).enumerate() {
        n = n.wrapping_add(table.get(k).copied().unwrap_or(0));
    }
    n
}

/// aligned twin: the same loop with the test inside the body
pub fn aligned_index(v: &[u32], table: &[u32]) -> u32 {
    let mut n = 0u32;
    for (k, x) in v.iter().enumerate() {
        if *x > 3 {
            n = n.wrapping_add(table.get(k).copied().unwrap_or(0));
        }
    }
    n
}

pub enum RowKind {
    Keep(u32),
    Drop,
    Twice(u32),
}

pub enum Outcome {
    Emit(u32),
    Nothing,
}

fn to_outcome(r: RowKind) -> Outcome {
    match r {
        RowKind::Keep(x) => Outcome::Emit(x),
        RowKind::Twice(x) => Outcome::Emit(x),
        RowKind::Drop => Outcome::Nothing,
    }
}

pub struct Sink {
    pub out: Vec<u32>,
    pub dropped: usize,
}

impl Sink {
    fn record(&mut self, o: Outcome) {
        match o {
            Outcome::Emit(x) => self.out.push(x),
            Outcome::Nothing => self.dropped += 1,
        }
    }
}

/// effsyn: per row kind — Keep pushes once, Twice pushes twice (the second push is in the loop body), Drop counts
pub fn effsyn_rows(rows: Vec<RowKind>) -> Sink {
    let mut sink = Sink { out: Vec::new(), dropped: 0 };
    for r in rows {
        let twice = matches!(r, RowKind::Twice(_));
        let extra = if let RowKind::Twice(x) = &r { *x } else { 0 };
        let o = to_outcome(r);
        sink.record(o);
        if twice {
            sink.out.push(extra);
        }
    }
    sink
}

/// a year-like constant range that is one short of 1900..=2100 (C07-R6 control)
pub fn year_range_short(y: i32) -> bool {
    let allowed = 1900..2100;
    range_holds(allowed, y)
}

fn range_holds(r: std::ops::Range<i32>, y: i32) -> bool {
    r.start <= y && y < r.end
}

/// dimension control (C11-R5): `remaining - lot_cost` mixes shares and money, `remaining - consumed` does not
pub fn dims_mixed(remaining: rust_decimal::Decimal, consumed: rust_decimal::Decimal, lot_cost: rust_decimal::Decimal) -> rust_decimal::Decimal {
    let left = remaining - consumed;
    left - lot_cost
}

pub enum Class {
    A,
    B,
    Other,
}

/// shadowed literal: the guard arm above catches "Forced Out" before its own arm
pub fn classifier_shadowed(s: Option<&str>) -> Class {
    match s.map(str::trim) {
        Some("In") | Some("Up") | Some("Left") => Class::A,
        Some(f) if f.starts_with("Forced") => Class::A,
        Some("Down") | Some("Forced Out") => Class::B,
        Some(_) | None => Class::Other,
    }
}

/// clean twin: every listed literal reaches the arm it is listed under
pub fn classifier_clean(s: Option<&str>) -> Class {
    match s.map(str::trim) {
        Some("In") | Some("Up") | Some("Left") | Some("Forced In") => Class::A,
        Some("Down") | Some("Forced Out") => Class::B,
        Some(f) if f.starts_with("Forced") => Class::A,
        Some(_) | None => Class::Other,
    }
}

pub struct PLot {
    pub size: rust_decimal::Decimal,
    pub used: rust_decimal::Decimal,
    pub kept: rust_decimal::Decimal,
    pub price: rust_decimal::Decimal,
}

/// partial restatement: the size of the lot is rescaled, the share counters booked against it are not
pub fn plot_rescale_partial(lots: &mut [PLot], by: rust_decimal::Decimal) {
    for lot in lots.iter_mut() {
        lot.size = lot.size * by;
        lot.price = lot.price / by;
    }
}

/// whole restatement: every share-count field moves together
pub fn plot_rescale_whole(lots: &mut [PLot], by: rust_decimal::Decimal) {
    for lot in lots.iter_mut() {
        lot.size = lot.size * by;
        lot.used *= by;
        lot.kept = lot.kept * by;
        lot.price = lot.price / by;
    }
}

pub fn fallible_year(y: i32) -> Result<u16, String> {
    if (1900..=2100).contains(&y) { Ok(y as u16) } else { Err(format!("year {y} out of range")) }
}

/// error turned into absence: the caller's loop silently skips what the callee refused
pub fn error_dropped(ys: &[i32]) -> Vec<u16> {
    ys.iter().filter_map(|y| fallible_year(*y).ok()).collect()
}

/// clean twin: the refusal is propagated
pub fn error_propagated(ys: &[i32]) -> Result<Vec<u16>, String> {
    ys.iter().map(|y| fallible_year(*y)).collect()
}

pub struct CtlError;

fn fallible_year_ctl(y: i32) -> Result<u16, CtlError> {
    u16::try_from(y).map_err(|_| CtlError)
}

/// `Result` is IntoIterator: flat_map silently drops every Err
pub fn error_flattened(ys: &[i32]) -> Vec<u16> {
    ys.iter().flat_map(|y| fallible_year_ctl(*y)).collect()
}

// ---------------------------------------------------------------- C13 controls (matched text compared case-sensitively)
pub struct TextNode<'a>(pub &'a str);
impl<'a> TextNode<'a> {
    pub fn as_str(&self) -> &'a str {
        self.0
    }
}

pub fn keyword_test_case_sensitive(n: &TextNode) -> bool {
    n.as_str().starts_with("UNSPLIT")
}

pub fn keyword_test_folded_ok(n: &TextNode) -> bool {
    n.as_str().to_uppercase().starts_with("UNSPLIT") || n.as_str().eq_ignore_ascii_case("unsplit") || n.as_str().starts_with('#')
}

// ---------------------------------------------------------------- C17 controls (precision on text clips it)
pub fn fmt_text_clipped(cell: &str, width: usize) -> String {
    format!("{:<width$.width$}", cell)
}

pub fn fmt_text_padded_ok(cell: &str, d: Decimal) -> String {
    format!("{:<12}{:.2}", cell, d)
}

/// a figure rounded twice (4 dp, then 2 dp) differs from one rounding just below a midpoint
pub fn round_twice(d: Decimal) -> Decimal {
    d.round_dp_with_strategy(4, rust_decimal::RoundingStrategy::MidpointAwayFromZero)
        .round_dp_with_strategy(2, rust_decimal::RoundingStrategy::MidpointAwayFromZero)
}
