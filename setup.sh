#!/bin/bash
# Build the framework from files on disk only (offline) and warm the fact cache.
set -euo pipefail
cd "$(dirname "$0")"
export CARGO_NET_OFFLINE=true
(cd driver && cargo build --release --offline 2>&1 | tail -2)
(cd srcfacts && cargo build --release --offline 2>&1 | tail -2)
# first extraction compiles the dependency graph once under the driver (≈1 min); later checks reuse it
python3 - <<'PY'
import sys
sys.path.insert(0, "lib")
import core
print("facts:", core.extract())
print("posctl:", core.extract_posctl())
PY
