#!/bin/bash
# Build the framework from files on disk only (offline).
set -euo pipefail
cd "$(dirname "$0")"
export CARGO_NET_OFFLINE=true
echo "setup: placeholder (engines not built yet)"
