//! Compile-fail witnesses for C07-R2: a `TaxPeriod` outside 1900..=2100 cannot be built by code outside
//! `cgt_core::models`, because the tuple constructor and the field are private. Each witness has a compiling
//! twin that differs only in the offending expression, so that a witness failing for an unrelated reason
//! (a wrong path, a missing import) is noticed.
//!
//! Witness 1 — the tuple constructor is private:
//! ```compile_fail,E0423
//! let p: cgt_core::TaxPeriod = cgt_core::TaxPeriod(1800);
//! let _ = p.start_year();
//! ```
//! Twin 1 — the checked constructor is the only way in:
//! ```no_run
//! let p: cgt_core::TaxPeriod = cgt_core::TaxPeriod::new(2023).unwrap();
//! let _ = p.start_year();
//! ```
//!
//! Witness 2 — the field cannot be overwritten after construction:
//! ```compile_fail,E0616
//! let mut p: cgt_core::TaxPeriod = cgt_core::TaxPeriod::new(2023).unwrap();
//! p.0 = 1800;
//! let _ = p.start_year();
//! ```
//! Twin 2:
//! ```no_run
//! let mut p: cgt_core::TaxPeriod = cgt_core::TaxPeriod::new(2023).unwrap();
//! p = cgt_core::TaxPeriod::new(2024).unwrap();
//! let _ = p.start_year();
//! ```
