"""C17 rules for the PDF front-end: the Rust side that packs the report into Typst dictionaries, and the Typst template that
renders them (read with lib/typst.py — parsed, never evaluated).

R9  the value packed under a key that NAMES a field of the structure it is taken from is that field.
R10 in the template every numeric figure reaches the page through the formatter of its kind (money → the £ formatter /
    the currency formatter, share counts → the quantity formatter, date dictionaries → the date formatter, the tax year's
    start → the tax-year formatter) or is only compared; nothing is rendered raw or through the wrong formatter.
R11 the template's formatters have the stated form: DD/MM/YYYY, YYYY/YY of (start+1) rem 100, money rounded to 2 places
    with calc.round, sign then £ then thousands groups, quantities rounded to 6 places with only TRAILING zeros removed.
"""
import os
import typst as T
from mir import Terms, subterms, fields_in, calls_in, show, subst, parse_callee

TEMPLATE_REL = "crates/cgt-formatter-pdf/src/templates/report.typ"
MONEY_DIGITS = "2"     # "rounded to pence" (property statement)
QTY_DIGITS = "6"       # "in the PDF to six decimal places" (property statement)


# --------------------------------------------------------------------------------------------------------------- Rust side

def _proj_fields(j, out):
    """collect (field name → set of ADT paths) from raw MIR JSON"""
    if isinstance(j, dict):
        if "n" in j and "adt" in j and "f" in j:
            out.setdefault(j["n"], set()).add(j["adt"])
        for v in j.values():
            _proj_fields(v, out)
    elif isinstance(j, list):
        for v in j:
            _proj_fields(v, out)


def adt_field_names(F, adt):
    a = F.adts.get(adt)
    names = set()
    if a:
        for v in a.get("variants", []):
            for f in v.get("fields", []):
                names.add(f["name"])
    return names


def _classes(v):
    cs = calls_in(v)
    classes = set()
    if any("to_f64" in c or "to_f32" in c for c in cs):
        classes.add("decimal")
    for c in cs:
        if "IntoValue for" in c and c.endswith("into_value"):
            ty = c.split("IntoValue for ")[1].split(">::into_value")[0]
            if "dict::Dict" in ty:
                classes.add("dict")
            elif "Vec<" in ty:
                classes.add("list")
            elif ty in ("i64", "usize", "u64", "i32"):
                classes.add("int")
            elif "String" in ty or "str" in ty:
                classes.add("str")
            elif ty == "bool":
                classes.add("bool")
    return classes


def pdf_inserts(F):
    """every `Dict::insert(<const key>, value)` in the PDF crate: dict(body, key, term, classes, reads, site)"""
    out = []
    wrappers = {}
    for b in F.bodies.values():
        if b.crate != "cgt_formatter_pdf":
            continue
        tb = None
        for i, t in b.calls():
            if not t["callee"].endswith("dict::Dict::insert") or len(t["args"]) < 3:
                continue
            tb = tb or Terms(F, b)
            k = tb.operand(t["args"][1])
            key = None
            for x in subterms(k):
                if isinstance(x, tuple) and x and x[0] == "str":
                    key = x[1]
                    break
            v = tb.operand(t["args"][2])
            if key is None:
                # an insert helper `fn put(dict, key, value)`: the key is one of its parameters
                kp = [x for x in subterms(k) if isinstance(x, tuple) and x and x[0] == "param"]
                if kp and not b.parent:
                    wrappers[b.id] = (kp[0][1], v, b)
                continue
            classes = _classes(v)
            cs = ()
            out.append({"body": b, "key": key, "term": v, "classes": classes, "reads": {f for f in fields_in(v) if not f.isdigit()},
                        "site": b.loc(t["sp"])})
    if wrappers:
        for b in F.bodies.values():
            if b.crate != "cgt_formatter_pdf":
                continue
            tb = None
            for i, t in b.calls():
                w = wrappers.get(t["callee"])
                if not w:
                    continue
                kidx, wv, wb = w
                tb = tb or Terms(F, b)
                if kidx >= len(t["args"]):
                    continue
                k = tb.operand(t["args"][kidx])
                key = next((x[1] for x in subterms(k) if isinstance(x, tuple) and x and x[0] == "str"), None)
                if key is None:
                    continue
                argterms = [tb.operand(a) for a in t["args"]]
                v = subst(wv, argterms)
                out.append({"body": b, "key": key, "term": v, "classes": _classes(wv) | _classes(v), "reads": {f for f in fields_in(v) if not f.isdigit()},
                            "site": b.loc(t["sp"])})
    return out


def packed_values(F, rep):
    """R9"""
    ins = pdf_inserts(F)
    rep.count("pdf_dict_inserts", len(ins))
    if len(ins) < 20:
        rep.unresolved("R9", "pdf-dictionaries", f"only {len(ins)} Dict::insert sites with a constant key found in the PDF crate")
        return ins
    fam_fields = {}
    n = 0
    for it in ins:
        b = it["body"]
        root = b.parent or b.id
        if root not in fam_fields:
            m = {}
            for bid in F.family(root):
                bb = F.body(bid)
                if bb is not None:
                    _proj_fields(bb.blocks, m)
            fam_fields[root] = m
        if "decimal" not in it["classes"] and "int" not in it["classes"]:
            continue
        key = it["key"]
        owners = set()
        for f in it["reads"]:
            for adt in fam_fields[root].get(f, ()):
                if adt.startswith("cgt_core::") and key in adt_field_names(F, adt):
                    owners.add(adt)
        if not owners:
            continue
        n += 1
        ok = key in it["reads"]
        rep.ob("R9", f"{b.short}:{key}", ok, f"`{key}` is packed from the `{key}` field" if ok else
               f"the PDF data packs {sorted(it['reads'])} of {sorted(o.split('::')[-1] for o in owners)} under the key `{key}`, although that structure has "
               f"a field `{key}`: the PDF shows another figure than text/JSON under the same name", it["site"], key=f"R9:{b.short.split('::')[0]}:{key}")
    rep.count("pdf_keys_named_like_their_source", n)
    if n < 8:
        rep.unresolved("R9", "pdf-keys", f"only {n} packed keys named like a field of their source structure")
    return ins


# --------------------------------------------------------------------------------------------------------------- template

Q, M, U, R, ONE = "shares", "money", "money/share", "ratio", "number"


def key_dim(key, parent_key, table):
    """dimension of a numeric key as the Rust side fills it"""
    cls = table.get(key, set())
    if "decimal" not in cls:
        return None
    if key == "amount":
        # a currency dictionary is read as X.amount together with X.currency (the Rust side packs the two keys together)
        return M if parent_key == "<currency-dict>" else Q
    k = key.lower()
    if "ratio" in k:
        return R
    if "quantity" in k or k in ("shares", "units"):
        return Q
    if "price" in k or "unit" in k:
        return U
    return M


class Template:
    def __init__(self, root):
        self.path = os.path.join(root, TEMPLATE_REL)
        self.src = open(self.path, encoding="utf-8").read()
        self.nodes = T.parse(self.src)
        self.fns = T.functions(self.nodes)
        self.values = {k: T.value_of(body) for k, (params, body) in self.fns.items()}
        self.roles = {}
        self._roles()
        # expressions X of which both X.amount and X.currency are read
        reads = {}
        for top in self.nodes:
            for n in T.walk(top):
                if n[0] == "field" and n[2] in ("amount", "currency"):
                    reads.setdefault(T.show(n[1]), set()).add(n[2])
        self.currency_dicts = {k for k, v in reads.items() if v == {"amount", "currency"}}

    def params(self, fn):
        return [p for p, _ in self.fns[fn][0] if isinstance(p, str)]

    def calls_to(self, node, name):
        return [n for n in T.walk(node) if n[0] == "call" and T.callee_name(n) == name]

    def _roles(self):
        fns = self.fns
        # FIXED: rounds its first parameter with calc.round(.., digits: ..) / calc.floor / …
        for k, v in self.values.items():
            ps = self.params(k)
            rounders = [n for n in T.walk(v) if n[0] == "call" and (T.callee_name(n) or "").startswith("calc.") and
                        (T.callee_name(n) in ("calc.round", "calc.floor", "calc.ceil", "calc.trunc")) and n[2] and n[2][0] == ("ident", ps[0] if ps else "")]
            if rounders and len(ps) >= 1:
                self.roles.setdefault("FIXED", []).append(k)
        fixed = set(self.roles.get("FIXED", []))

        def reaches_fixed(v):
            return any(n[0] == "call" and T.callee_name(n) in fixed for n in T.walk(v))
        for k, v in self.values.items():
            if k in fixed:
                continue
            ps = self.params(k)
            lits = [n[1] for n in T.walk(v) if n[0] == "str"]
            if "£" in lits and reaches_fixed(v) and len(ps) == 1:
                self.roles.setdefault("MONEY", []).append(k)
        money = set(self.roles.get("MONEY", []))
        for k, v in self.values.items():
            ps = self.params(k)
            if k in money or k in fixed:
                continue
            if len(ps) == 2 and any(n[0] == "call" and T.callee_name(n) in money for n in T.walk(v)):
                self.roles.setdefault("CURRENCY", []).append(k)
            elif len(ps) == 1 and {"day", "month", "year"} <= {n[2] for n in T.walk(v) if n[0] == "field" and n[1] == ("ident", ps[0])}:
                self.roles.setdefault("DATE", []).append(k)
            elif len(ps) == 1 and any(n[0] == "call" and T.callee_name(n) == "calc.rem" and len(n[2]) == 2 and n[2][1] == ("num", "100") for n in T.walk(v)):
                self.roles.setdefault("TAXYEAR", []).append(k)
        # TRIM: a string helper with a .trim(..) of "0"; QTY: one parameter, reaches FIXED, no currency symbol
        for k, v in self.values.items():
            if any(n[0] == "method" and n[2] == "trim" and n[3] and n[3][0] == ("str", "0") for n in T.walk(v)):
                self.roles.setdefault("TRIM", []).append(k)
        for k, v in self.values.items():
            ps = self.params(k)
            if k in fixed or k in money or k in self.roles.get("CURRENCY", []):
                continue
            if len(ps) == 1 and reaches_fixed(v) and not any(n[0] == "str" and n[1] in ("£", ",") for n in T.walk(v)):
                self.roles.setdefault("QTY", []).append(k)
        # PAD2: if n < 10 { "0" + str(n) } else { str(n) }
        for k, v in self.values.items():
            ps = self.params(k)
            if len(ps) == 1 and v[0] == "if" and v[1] == ("bin", "<", ("ident", ps[0]), ("num", "10")):
                s = ("call", ("ident", "str"), [("ident", ps[0])], [])
                if v[2] == ("bin", "+", ("str", "0"), s) and v[3] == s:
                    self.roles.setdefault("PAD2", []).append(k)
        # GROUP: joins slices of its parameter with ","
        for k, v in self.values.items():
            if any(n[0] == "method" and n[2] == "join" and n[3] == [("str", ",")] for n in T.walk(v)):
                self.roles.setdefault("GROUP", []).append(k)

    def role_of(self, name):
        for r, ks in self.roles.items():
            if name in ks:
                return r
        return None


FORMATTER_ROLES = ("MONEY", "CURRENCY", "QTY", "DATE", "TAXYEAR", "FIXED", "TRIM", "PAD2", "GROUP")
PASS_THROUGH = ("calc.abs", "calc.max", "calc.min", "float", "calc.pow")
CMP = ("==", "!=", "<", "<=", ">", ">=", "in", "not in")


class Render:
    """R10: follow every numeric data field to the place where it becomes text"""

    def __init__(self, tpl, table, rep):
        self.t = tpl
        self.table = table
        self.rep = rep
        self.seen = set()
        self.n_reads = 0
        self.n_fmt = 0
        self.bad = []
        self.date_keys = {k for k, c in table.items() if "dict" in c and "date" in k}
        self.year_keys = {k for k, c in table.items() if "int" in c and "year" in k and k != "year"}

    # ---- dimensions of an expression (None = not a data figure)
    def dim(self, n, env):
        h = n[0]
        if h == "paren":
            return self.dim(n[1], env)
        if h == "ident":
            return env.get(n[1])
        if h == "field":
            parent = "<currency-dict>" if T.show(n[1]) in self.t.currency_dicts else None
            if n[2] in self.date_keys:
                return "date"
            if n[2] in self.year_keys:
                return "year"
            return key_dim(n[2], parent, self.table)
        if h == "bin" and n[1] in ("+", "-"):
            a, b = self.dim(n[2], env), self.dim(n[3], env)
            if a in (None, ONE):
                return b
            if b in (None, ONE):
                return a
            return a if a == b else f"{a}±{b}"
        if h == "bin" and n[1] == "*":
            a, b = self.dim(n[2], env), self.dim(n[3], env)
            if a in (None, ONE, R):
                return b
            if b in (None, ONE, R):
                return a
            if {a, b} == {U, Q}:
                return M
            return f"{a}×{b}"
        if h == "bin" and n[1] == "/":
            a, b = self.dim(n[2], env), self.dim(n[3], env)
            if b in (None, ONE, R):
                return a
            if a == M and b == Q:
                return U
            if a == b and a is not None:
                return R
            return f"{a}/{b}"
        if h == "un":
            return self.dim(n[2], env)
        if h == "call" and T.callee_name(n) in PASS_THROUGH and n[2]:
            return self.dim(n[2][0], env)
        if h == "if":
            ds = {self.dim(x, env) for x in (n[2], n[3]) if x is not None} - {None, ONE}
            return ds.pop() if len(ds) == 1 else (None if not ds else "mixed")
        if h == "block" or h == "join":
            v = T.value_of(n) if h == "block" else n
            if v[0] != "join":
                return self.dim(v, env)
        if h == "num":
            return ONE
        return None

    def accepts(self, role, d):
        if role in ("MONEY", "CURRENCY"):
            return d in (M, U)
        if role == "QTY":
            return d in (Q, R)
        if role == "DATE":
            return d == "date"
        if role == "TAXYEAR":
            return d == "year"
        return True

    # ---- walk
    def judge(self, n, env, sink, where):
        if not isinstance(n, tuple) or not n:
            return
        h = n[0]
        if h in ("str", "num", "none", "bool", "auto", "text", "import"):
            return
        d = self.dim(n, env) if h in ("ident", "field") else None
        if h in ("ident", "field") and d not in (None, ONE):
            self.n_reads += 1
            if sink is None:
                self.bad.append((where, T.show(n), d, "is rendered without a formatter"))
            return
        if h == "field":
            self.judge(n[1], env, "base", where)
            return
        if h == "bin" and n[1] in CMP + ("and", "or"):
            self.judge(n[2], env, "cmp", where)
            self.judge(n[3], env, "cmp", where)
            return
        if h == "un" and n[1] == "not":
            self.judge(n[2], env, "cmp", where)
            return
        if h == "call":
            name = T.callee_name(n)
            role = self.t.role_of(name) if name else None
            if role in ("MONEY", "CURRENCY", "QTY", "DATE", "TAXYEAR"):
                self.n_fmt += 1
                arg = n[2][0] if n[2] else None
                dd = self.dim(arg, env) if arg is not None else None
                if dd not in (None, ONE) and not self.accepts(role, dd):
                    self.bad.append((where, T.show(n), dd, f"goes through the {role.lower()} formatter `{name}`"))
                for a in n[2]:
                    self.judge(a, env, ("fmt", role), where)
                return
            if role in ("FIXED", "TRIM", "GROUP", "PAD2"):
                # a low-level helper used directly on a data figure outside the formatters
                for a in n[2]:
                    dd = self.dim(a, env)
                    if dd not in (None, ONE) and sink is None:
                        self.bad.append((where, T.show(n), dd, f"is rendered through the low-level helper `{name}` instead of the formatter of its kind"))
                    self.judge(a, env, ("fmt", role), where)
                return
            if name in PASS_THROUGH:
                for a in n[2]:
                    self.judge(a, env, sink, where)
                return
            if name in self.t.fns:
                # a user helper: its body is judged with the numeric arguments bound
                ps = self.t.params(name)
                cenv = {}
                for p, a in zip(ps, n[2]):
                    dd = self.dim(a, env)
                    if dd not in (None, ONE):
                        cenv[p] = dd
                    else:
                        self.judge(a, env, "cmp", where)
                sig = (name, tuple(sorted(cenv.items())))
                if sig not in self.seen:
                    self.seen.add(sig)
                    self.judge(self.t.fns[name][1], cenv, None, name)
                return
            if name == "str":
                for a in n[2]:
                    dd = self.dim(a, env)
                    if dd not in (None, ONE):
                        self.n_reads += 1
                        self.bad.append((where, T.show(n), dd, "is rendered with str() instead of the formatter of its kind"))
                    else:
                        self.judge(a, env, sink, where)
                return
            # layout builtins: named arguments configure, positional arguments are rendered
            self.judge(n[1], env, "base", where)
            for a in n[2]:
                self.judge(a, env, None, where)
            for k, v in n[3]:
                self.judge(v, env, None if v[0] in ("content", "closure", "call", "array", "if") else "cmp", where)
            return
        if h == "method":
            if n[2] in ("len", "enumerate", "keys", "contains", "starts-with", "ends-with", "at", "first", "last", "filter", "sorted", "rev", "flatten", "map",
                        "join", "pos", "slice", "sum", "fold", "any", "all", "find", "zip", "values", "pairs"):
                self.judge(n[1], env, "base" if n[2] not in ("sum",) else sink, where)
            else:
                self.judge(n[1], env, sink, where)
            for a in n[3]:
                self.judge(a, env, None, where)
            for k, v in n[4]:
                self.judge(v, env, None, where)
            return
        if h == "if":
            self.judge(n[1], env, "cmp", where)
            self.judge(n[2], env, sink, where)
            if n[3] is not None:
                self.judge(n[3], env, sink, where)
            return
        if h == "for":
            self.judge(n[2], env, "base", where)
            self.judge(n[3], env, None, where)
            return
        if h == "let":
            # a local figure: rendered wherever the name is used (the name is not tracked: judge the value as compared-only
            # unless it is numeric, in which case the binding joins env)
            dd = self.dim(n[2], env)
            if dd not in (None, ONE) and isinstance(n[1], str):
                env[n[1]] = dd
                self.judge(n[2], env, "cmp", where)
            else:
                self.judge(n[2], env, sink, where)
            return
        if h == "letfn":
            if self.t.role_of(n[1]) in FORMATTER_ROLES:
                return
            sig = (n[1], ())
            if sig not in self.seen:
                self.seen.add(sig)
                self.judge(n[3], {}, None, n[1])
            return
        if h == "closure":
            inner = {k: v for k, v in env.items() if k not in {p for p, _ in n[1] if isinstance(p, str)}}
            self.judge(n[2], inner, None, where)
            return
        if h == "bin" and n[1] in ("+", "-", "*", "/"):
            dd = self.dim(n, env)
            if dd not in (None, ONE) and sink is None:
                self.n_reads += 1
                self.bad.append((where, T.show(n), dd, "is rendered without a formatter"))
                return
            self.judge(n[2], env, sink, where)
            self.judge(n[3], env, sink, where)
            return
        if h in ("set", "show", "context"):
            return
        if h == "block":
            e2 = dict(env)
            for st in n[1]:
                self.judge(st, e2, sink, where)
            return
        if h == "content":
            e2 = dict(env)
            for st in n[1]:
                self.judge(st, e2, None, where)
            return
        for c in T.children(n):
            self.judge(c, env, sink, where)


def template_rendering(tpl, table, rep):
    r = Render(tpl, table, rep)
    env = {}
    for n in tpl.nodes:
        r.judge(n, env, None, "document")
    rep.count("template_figures_followed", r.n_reads)
    rep.count("template_formatter_calls", r.n_fmt)
    for where, what, d, why in r.bad:
        rep.ob("R10", f"template:{where}:{what}"[:120], False, f"in the PDF template ({where}) the {d} figure `{what}` {why}: the PDF would show it in another form "
               "than the other front-ends", TEMPLATE_REL, key=f"R10:{where}:{what}"[:160])
    rep.ob("R10", "template:figures-through-formatters", not r.bad, f"{r.n_reads} reads of numeric report figures in the template, {r.n_fmt} formatter calls; every "
           "figure reaches the page through the formatter of its kind or is only compared" if not r.bad else f"{len(r.bad)} figures are not rendered through the formatter of their kind",
           TEMPLATE_REL, key="R10:summary")
    if r.n_fmt < 15 or r.n_reads < 15:
        rep.unresolved("R10", "template-figures", f"only {r.n_reads} figure reads / {r.n_fmt} formatter calls recognised in the template")


def _one(tpl, rep, role, rule="R11"):
    ks = tpl.roles.get(role, [])
    if len(ks) != 1:
        rep.unresolved(rule, f"template-{role.lower()}", f"{len(ks)} template functions with the shape of the {role} helper ({ks})")
        return None
    return ks[0]


def _parts(v):
    out = []
    for p in T.flatten_add(v):
        if p[0] == "str" and out and out[-1][0] == "str":
            out[-1] = ("str", out[-1][1] + p[1])
        else:
            out.append(p)
    return out


def template_formats(tpl, rep):
    """R11"""
    pad = _one(tpl, rep, "PAD2")
    fixed = _one(tpl, rep, "FIXED")
    # ---- dates
    date = _one(tpl, rep, "DATE")
    if date and pad:
        p = tpl.params(date)[0]
        got = []
        for x in _parts(tpl.values[date]):
            if x[0] == "str":
                got.append(x[1])
            elif x[0] == "call" and T.callee_name(x) == pad and x[2] and x[2][0][0] == "field" and x[2][0][1] == ("ident", p):
                got.append("%02" + x[2][0][2])
            elif x[0] == "call" and T.callee_name(x) == "str" and x[2] and x[2][0][0] == "field" and x[2][0][1] == ("ident", p):
                got.append("%" + x[2][0][2])
            else:
                got.append("?" + T.show(x))
        want = ["%02day", "/", "%02month", "/", "%year"]
        rep.ob("R11", "template:date", got == want, "PDF dates are DD/MM/YYYY (two-digit day, two-digit month, year)" if got == want else
               f"the PDF date formatter `{date}` builds {got}, not DD/MM/YYYY", TEMPLATE_REL, key="R11:date-format")
    # ---- tax years
    ty = _one(tpl, rep, "TAXYEAR")
    if ty and pad:
        p = tpl.params(ty)[0]
        parts = _parts(tpl.values[ty])
        ok = len(parts) == 3 and parts[0] == ("call", ("ident", "str"), [("ident", p)], []) and parts[1] == ("str", "/")
        if ok:
            x = parts[2]
            ok = x[0] == "call" and T.callee_name(x) == pad and len(x[2]) == 1
            if ok:
                r = x[2][0]
                ok = (r[0] == "call" and T.callee_name(r) == "calc.rem" and len(r[2]) == 2 and r[2][1] == ("num", "100") and
                      T.flatten_add(r[2][0]) in ([("ident", p), ("num", "1")], [("num", "1"), ("ident", p)]))
        rep.ob("R11", "template:tax-year", ok, "PDF tax years are YYYY/YY with YY = (start + 1) rem 100, two digits" if ok else
               f"the PDF tax-year formatter `{ty}` builds {T.show(tpl.values[ty])}", TEMPLATE_REL, key="R11:tax-year-format")
    # ---- the rounding helper
    if fixed:
        ps = tpl.params(fixed)
        v = tpl.values[fixed]
        rc = [n for n in T.walk(v) if n[0] == "call" and (T.callee_name(n) or "") in ("calc.round", "calc.floor", "calc.ceil", "calc.trunc")]
        names = {T.callee_name(n) for n in rc}
        ok = names == {"calc.round"} and all(dict(n[3]).get("digits") == ("ident", ps[1]) if len(ps) > 1 else False for n in rc)
        rep.ob("R11", "template:rounding", ok, "figures are rounded with calc.round to the requested number of digits (half away from zero)" if ok else
               f"the PDF rounding helper `{fixed}` uses {sorted(names)} / digits {[T.show(dict(n[3]).get('digits')) for n in rc]}", TEMPLATE_REL, key="R11:rounding")
        # a too-long fraction is cut, a too-short one padded with zeros — both only AFTER rounding; nothing else may shorten it
    # ---- money
    for role in ("MONEY", "CURRENCY"):
        k = _one(tpl, rep, role)
        if not (k and fixed):
            continue
        v = tpl.values[k]
        p = tpl.params(k)[0]
        branches = [v]
        if role == "CURRENCY":
            branches = [x for x in (v[2], v[3]) if x is not None and not (x[0] == "call" and T.callee_name(x) in tpl.roles.get("MONEY", []))] if v[0] == "if" else [v]
            mcalls = [n for n in T.walk(v) if n[0] == "call" and T.callee_name(n) in tpl.roles.get("MONEY", [])]
            okc = v[0] == "if" and v[1] in (("bin", "==", ("ident", tpl.params(k)[1]), ("str", "GBP")), ("bin", "==", ("str", "GBP"), ("ident", tpl.params(k)[1]))) \
                and mcalls and all(n[2] == [("ident", p)] for n in mcalls)
            rep.ob("R11", "template:currency:gbp", bool(okc), "GBP amounts go through the £ formatter" if okc else
                   f"`{k}` does not hand a GBP amount to the £ formatter unchanged", TEMPLATE_REL, key="R11:currency:gbp-branch")
        for bi, br in enumerate(branches):
            tag = f"{role.lower()}" + (f":{bi}" if len(branches) > 1 else "")
            fcalls = [n for n in T.walk(br) if n[0] == "call" and T.callee_name(n) == fixed]
            digs = {T.show(dict(n[3]).get("digits")) if dict(n[3]).get("digits") is not None else "default" for n in fcalls}
            ok = bool(fcalls) and digs == {MONEY_DIGITS}
            rep.ob("R11", f"template:{tag}:pence", ok, "money is rounded to 2 decimal places" if ok else
                   f"`{k}` rounds money to {sorted(digs)} decimal places", TEMPLATE_REL, key=f"R11:{tag}:digits")
            parts = _parts(br)
            # sign
            sign = parts[0] if parts else None
            sign_ok = bool(sign) and sign[0] == "if" and sign[1] == ("bin", "<", ("ident", p), ("num", "0")) and sign[3] == ("str", "") and sign[2] != ("str", "")
            args_abs = all(n[2] and n[2][0] == ("call", ("field", ("ident", "calc"), "abs"), [("ident", p)], []) for n in fcalls)
            ok = sign_ok and args_abs
            rep.ob("R11", f"template:{tag}:sign", ok, "a minus sign is written first for values below zero and the digits are those of the absolute value" if ok else
                   f"`{k}`: sign part {T.show(sign) if sign else None}, rounding argument(s) {[T.show(n[2][0]) for n in fcalls if n[2]]} — sign and magnitude are not "
                   "the pair (value < 0 → minus, |value|)", TEMPLATE_REL, key=f"R11:{tag}:sign")
            if role == "MONEY":
                ok = len(parts) > 1 and parts[1] == ("str", "£") and sum(1 for n in T.walk(br) if n == ("str", "£")) == 1
                rep.ob("R11", f"template:{tag}:symbol", ok, "£ follows the sign" if ok else f"`{k}` does not write sign, then £: {T.show(br)[:160]}", TEMPLATE_REL,
                       key=f"R11:{tag}:symbol")
            grp = tpl.roles.get("GROUP", [])
            gcalls = [n for n in T.walk(br) if n[0] == "call" and T.callee_name(n) in grp]
            ok = len(gcalls) == 1 and any(m[0] == "method" and m[2] == "at" and m[3][:1] == [("num", "0")] for m in T.walk(gcalls[0])) and \
                any(x[0] == "method" and x[2] == "at" and x[3][:1] == [("num", "1")] for x in parts) and ("str", ".") in parts
            rep.ob("R11", f"template:{tag}:grouping", ok, "the integer part is grouped in thousands, then '.', then the two decimals" if ok else
                   f"`{k}` does not write grouped integer part, '.', fraction: {T.show(br)[:200]}", TEMPLATE_REL, key=f"R11:{tag}:grouping")
    for g in tpl.roles.get("GROUP", []):
        v = tpl.values[g]
        steps = {T.show(dict(n[3]).get("step")) for n in T.walk(tpl.fns[g][1]) if n[0] == "call" and T.callee_name(n) == "range" and dict(n[3]).get("step") is not None}
        ok = steps == {"3"}
        rep.ob("R11", "template:group:3", ok, "digit groups are three long, joined by ','" if ok else f"`{g}` groups by {sorted(steps)}", TEMPLATE_REL, key="R11:group:step")
    # ---- quantities
    q = _one(tpl, rep, "QTY")
    if q and fixed:
        v = tpl.values[q]
        fcalls = [n for n in T.walk(v) if n[0] == "call" and T.callee_name(n) == fixed]
        digs = {T.show(dict(n[3]).get("digits")) if dict(n[3]).get("digits") is not None else "default" for n in fcalls}
        ok = digs == {QTY_DIGITS} and all(n[2] == [("ident", tpl.params(q)[0])] for n in fcalls)
        rep.ob("R11", "template:quantity:six-places", ok, "quantities are rounded to 6 decimal places" if ok else
               f"`{q}` rounds quantities to {sorted(digs)} places / of {[T.show(n[2][0]) for n in fcalls if n[2]]}", TEMPLATE_REL, key="R11:quantity:digits")
    trims = []
    for k, (params, body) in tpl.fns.items():
        for n in T.walk(body):
            if n[0] == "method" and n[2] == "trim" and n[3] and n[3][0][0] == "str" and n[3][0][1].strip("0123456789.") == "" and n[3][0][1] != "":
                trims.append((k, n))
    for n0 in tpl.nodes:
        if n0[0] != "letfn":
            for n in T.walk(n0):
                if n[0] == "method" and n[2] == "trim" and n[3] and n[3][0][0] == "str" and n[3][0][1].strip("0123456789.") == "" and n[3][0][1] != "":
                    trims.append(("document", n))
    for k, n in trims:
        at = dict(n[4]).get("at")
        ok = at == ("ident", "end")
        rep.ob("R11", f"template:{k}:trim", ok, "digits are only stripped from the END of a fraction" if ok else
               f"`{k}` strips \"{n[3][0][1]}\" with {T.show(n)}: without `at: end` leading zeros of the fraction go too (0.05 → 0.5)", TEMPLATE_REL,
               key=f"R11:{k}:trim-side")
    if q and not trims:
        rep.note("R11: no digit-stripping trim in the template (quantities keep trailing zeros or are trimmed another way)")


def run(ctx, rep):
    F = ctx.F
    ins = packed_values(F, rep)
    table = {}
    for it in ins:
        table.setdefault(it["key"], set()).update(it["classes"])
    try:
        tpl = Template(ctx.root)
    except FileNotFoundError:
        rep.unresolved("R10", "template", f"{TEMPLATE_REL} not found")
        return
    except T.TypstError as e:
        rep.unresolved("R10", "template", f"the PDF template could not be read by the Typst subset parser: {e}")
        return
    rep.count("template_functions", len(tpl.fns))
    rep.note("template roles: " + ", ".join(f"{r}={ks}" for r, ks in sorted(tpl.roles.items())))
    template_rendering(tpl, table, rep)
    template_formats(tpl, rep)
