"""A small parser for the subset of Typst used by report templates, and a symbolic reader on top of it.

Nothing here evaluates the template: the source is parsed to a syntax tree (markup mode and code mode), `let`
bindings inside a function body are substituted, and rules look at the resulting terms (who renders which data field
through which helper, what a helper concatenates, which constants it uses).

AST nodes are tuples:
  ('str', s) ('num', text) ('ident', name) ('none',) ('bool', b) ('auto',)
  ('field', base, name)                       base.name
  ('call', fn, args, named)                   fn(args, name: v) incl. trailing content blocks as positional args
  ('method', recv, name, args, named)         recv.name(args)
  ('bin', op, a, b) ('un', op, a)
  ('if', cond, then, else|None)
  ('for', pattern, iterable, body)
  ('block', [stmts])                          { … }   (value = joined values of the statements)
  ('content', [nodes])                        [ … ]   markup; nodes are ('text', s) or embedded code nodes
  ('let', pattern, value)   ('letfn', name, params, body)
  ('closure', params, body)
  ('array', [items]) ('dict', [(k, v)]) ('spread', e) ('paren', e)
  ('set', …) ('show', …) ('import', …) ('context', e) ('return', e|None)
A pattern is a name or a list of names.  params are [(name, default|None)].
"""
import re


class TypstError(Exception):
    pass


KEYWORDS = {"let", "if", "else", "for", "in", "not", "and", "or", "none", "true", "false", "auto", "set", "show", "import",
            "context", "return", "while", "break", "continue", "include", "as"}

MODULES = {"calc", "sym", "table", "heading", "math", "sys", "grid", "std", "text", "page", "par", "enum", "list", "figure", "datetime"}

_ident_re = re.compile(r"[A-Za-z_][A-Za-z0-9_]*(?:-[A-Za-z0-9_]+)*")
_num_re = re.compile(r"(?:\d+\.\d+|\d+\.(?![A-Za-z.])|\.\d+|\d+)(?:e[+-]?\d+)?(?:%|[A-Za-z]+)?")


class P:
    def __init__(self, src):
        self.s = src
        self.i = 0
        self.n = len(src)

    # ------------------------------------------------------------------ low level
    def err(self, msg):
        line = self.s.count("\n", 0, self.i) + 1
        raise TypstError(f"line {line}: {msg} near {self.s[self.i:self.i + 30]!r}")

    def peekc(self, k=0):
        j = self.i + k
        return self.s[j] if j < self.n else ""

    def startswith(self, t):
        return self.s.startswith(t, self.i)

    def skip_ws(self, newlines=True):
        """skip spaces, comments and (optionally) line breaks in code mode"""
        while self.i < self.n:
            c = self.s[self.i]
            if c in " \t\r" or (newlines and c == "\n"):
                self.i += 1
            elif self.startswith("//"):
                while self.i < self.n and self.s[self.i] != "\n":
                    self.i += 1
            elif self.startswith("/*"):
                j = self.s.find("*/", self.i + 2)
                self.i = self.n if j < 0 else j + 2
            else:
                break

    def at_kw(self, kw):
        if not self.startswith(kw):
            return False
        j = self.i + len(kw)
        return not (j < self.n and (self.s[j].isalnum() or self.s[j] in "_-"))

    def eat(self, t):
        if self.startswith(t):
            self.i += len(t)
            return True
        return False

    def expect(self, t):
        self.skip_ws()
        if not self.eat(t):
            self.err(f"expected {t!r}")

    def ident(self):
        m = _ident_re.match(self.s, self.i)
        if not m:
            self.err("identifier expected")
        self.i = m.end()
        return m.group(0)

    # ------------------------------------------------------------------ markup
    def markup(self, until_bracket):
        """markup up to the closing ']' (not consumed by caller? consumed here) or the end of the file"""
        nodes = []
        buf = []
        depth = 0

        def flush():
            if buf:
                nodes.append(("text", "".join(buf)))
                buf.clear()
        while self.i < self.n:
            c = self.s[self.i]
            if c == "\\" and self.i + 1 < self.n:
                buf.append(self.s[self.i + 1])
                self.i += 2
            elif self.startswith("//"):
                while self.i < self.n and self.s[self.i] != "\n":
                    self.i += 1
            elif self.startswith("/*"):
                j = self.s.find("*/", self.i + 2)
                self.i = self.n if j < 0 else j + 2
            elif c == "[":
                depth += 1
                buf.append(c)
                self.i += 1
            elif c == "]":
                if depth == 0:
                    if until_bracket:
                        self.i += 1
                        flush()
                        return nodes
                    self.err("unbalanced ']' in markup")
                depth -= 1
                buf.append(c)
                self.i += 1
            elif c == "#":
                self.i += 1
                flush()
                nodes.append(self.embedded())
            else:
                buf.append(c)
                self.i += 1
        if until_bracket:
            self.err("unterminated content block")
        flush()
        return nodes

    def embedded(self):
        """code after '#' in markup: a keyword statement or a tight expression"""
        for kw in ("let", "set", "show", "import", "include", "if", "for", "while", "context", "return"):
            if self.at_kw(kw):
                e = self.statement()
                self.skip_ws(newlines=False)
                self.eat(";")
                return e
        c = self.peekc()
        if c == "(":
            e = self.primary()
        elif c == "[":
            e = self.primary()
        elif c == "{":
            e = self.primary()
        elif c == '"':
            e = self.primary()
        elif c.isdigit():
            e = self.primary()
        else:
            e = ("ident", self.ident())
        e = self.postfix(e, tight=True)
        self.eat(";")
        return e

    # ------------------------------------------------------------------ code: statements
    def statement(self):
        self.skip_ws()
        if self.at_kw("let"):
            self.i += 3
            self.skip_ws()
            if self.peekc() == "(":
                pat = self.pattern()
                self.skip_ws()
                self.expect("=")
                return ("let", pat, self.expr())
            name = self.ident()
            if self.peekc() == "(":
                params = self.params()
                self.skip_ws()
                self.expect("=")
                return ("letfn", name, params, self.expr())
            self.skip_ws(newlines=False)
            if self.peekc() == "=" and self.peekc(1) != "=":
                self.i += 1
                return ("let", name, self.expr())
            return ("let", name, ("none",))
        if self.at_kw("set"):
            self.i += 3
            e = self.expr()
            self.skip_ws(newlines=False)
            if self.at_kw("if"):
                self.i += 2
                self.expr()
            return ("set", e)
        if self.at_kw("show"):
            self.i += 4
            self.skip_ws(newlines=False)
            sel = None
            if self.peekc() != ":":
                sel = self.expr()
            self.skip_ws()
            self.expect(":")
            return ("show", sel, self.expr())
        if self.at_kw("import") or self.at_kw("include"):
            j = self.s.find("\n", self.i)
            txt = self.s[self.i:j if j >= 0 else self.n]
            self.i = j if j >= 0 else self.n
            return ("import", txt)
        if self.at_kw("return"):
            self.i += 6
            self.skip_ws(newlines=False)
            if self.peekc() in "\n;}" or self.i >= self.n:
                return ("return", None)
            return ("return", self.expr())
        if self.at_kw("break") or self.at_kw("continue"):
            return ("ident", self.ident())
        return self.expr()

    def pattern(self):
        self.expect("(")
        names = []
        while True:
            self.skip_ws()
            if self.eat(")"):
                break
            if self.eat(".."):
                pass
            names.append(self.ident())
            self.skip_ws()
            if self.eat(":"):
                self.skip_ws()
                names[-1] = self.ident()
            self.skip_ws()
            self.eat(",")
        return names

    def params(self):
        self.expect("(")
        out = []
        while True:
            self.skip_ws()
            if self.eat(")"):
                break
            if self.eat(".."):
                out.append(("..", None))
                self.skip_ws()
                if _ident_re.match(self.s, self.i):
                    out[-1] = (".." + self.ident(), None)
            elif self.peekc() == "(":
                out.append((tuple(self.pattern()), None))
            else:
                name = self.ident()
                self.skip_ws()
                d = None
                if self.eat(":"):
                    d = self.expr()
                out.append((name, d))
            self.skip_ws()
            self.eat(",")
        return out

    def block(self):
        """{ statements }"""
        self.expect("{")
        stmts = []
        while True:
            self.skip_ws()
            while self.eat(";"):
                self.skip_ws()
            if self.eat("}"):
                break
            if self.i >= self.n:
                self.err("unterminated block")
            stmts.append(self.statement())
        return ("block", stmts)

    # ------------------------------------------------------------------ code: expressions
    BINOPS = [
        ({"=", "+=", "-=", "*=", "/="}, "assign"),
        ({"or"}, "or"),
        ({"and"}, "and"),
        ({"==", "!=", "<", "<=", ">", ">=", "in", "not in"}, "cmp"),
        ({"+", "-"}, "add"),
        ({"*", "/"}, "mul"),
    ]

    def expr(self, level=0):
        if level == len(self.BINOPS):
            return self.unary()
        ops, _ = self.BINOPS[level]
        left = self.expr(level + 1)
        while True:
            save = self.i
            self.skip_ws(newlines=False)
            op = self.match_op(ops)
            if op is None:
                # an operator may also open the next line (`a\n  + b` is not Typst, but `x\n  .method()` is handled in postfix)
                self.i = save
                return left
            right = self.expr(level + 1) if level else self.expr(level)
            left = ("bin", op, left, right)

    def match_op(self, ops):
        for op in sorted(ops, key=len, reverse=True):
            if op[0].isalpha():
                if op == "not in":
                    if self.at_kw("not"):
                        j = self.i
                        self.i += 3
                        self.skip_ws(newlines=False)
                        if self.at_kw("in"):
                            self.i += 2
                            return op
                        self.i = j
                    continue
                if self.at_kw(op):
                    self.i += len(op)
                    return op
                continue
            if self.startswith(op):
                nxt = self.s[self.i + len(op):self.i + len(op) + 1]
                if op in ("=",) and nxt in ("=", ">"):
                    continue
                if op in ("<", ">", "+", "-", "*", "/") and nxt == "=":
                    continue
                if op == "/" and nxt in "/*":
                    continue
                self.i += len(op)
                return op
        return None

    def unary(self):
        self.skip_ws()
        if self.at_kw("not"):
            self.i += 3
            return ("un", "not", self.expr(3))
        if self.peekc() == "-" and not self.startswith("-="):
            self.i += 1
            return ("un", "-", self.unary())
        if self.peekc() == "+" and not self.startswith("+="):
            self.i += 1
            return self.unary()
        return self.postfix(self.primary())

    def primary(self):
        self.skip_ws()
        c = self.peekc()
        if c == "":
            self.err("expression expected")
        if c == '"':
            return ("str", self.string())
        if c == "(":
            return self.paren()
        if c == "{":
            return self.block()
        if c == "[":
            self.i += 1
            return ("content", self.markup(True))
        if c == "." and self.peekc(1) == ".":
            self.i += 2
            return ("spread", self.expr(1))
        m = _num_re.match(self.s, self.i)
        if m and (c.isdigit() or (c == "." and self.peekc(1).isdigit())):
            self.i = m.end()
            return ("num", m.group(0))
        if self.at_kw("if"):
            return self.if_expr()
        if self.at_kw("for"):
            self.i += 3
            self.skip_ws()
            pat = self.pattern() if self.peekc() == "(" else self.ident()
            self.skip_ws()
            if not self.at_kw("in"):
                self.err("'in' expected")
            self.i += 2
            it = self.expr(1)
            body = self.body()
            return ("for", pat, it, body)
        if self.at_kw("while"):
            self.i += 5
            cond = self.expr(1)
            return ("while", cond, self.body())
        if self.at_kw("context"):
            self.i += 7
            return ("context", self.expr())
        if self.at_kw("none"):
            self.i += 4
            return ("none",)
        if self.at_kw("auto"):
            self.i += 4
            return ("auto",)
        if self.at_kw("true"):
            self.i += 4
            return ("bool", True)
        if self.at_kw("false"):
            self.i += 5
            return ("bool", False)
        for kw in ("let", "set", "show", "import", "return"):
            if self.at_kw(kw):
                return self.statement()
        if _ident_re.match(self.s, self.i):
            name = self.ident()
            save = self.i
            self.skip_ws(newlines=False)
            if self.startswith("=>"):
                self.i += 2
                return ("closure", [(name, None)], self.expr())
            self.i = save
            return ("ident", name)
        self.err("unexpected character")

    def body(self):
        self.skip_ws()
        if self.peekc() == "{":
            return self.block()
        if self.peekc() == "[":
            self.i += 1
            return ("content", self.markup(True))
        self.err("block expected")

    def if_expr(self):
        self.i += 2
        cond = self.expr(1)
        then = self.body()
        save = self.i
        self.skip_ws()
        if self.at_kw("else"):
            self.i += 4
            self.skip_ws()
            if self.at_kw("if"):
                return ("if", cond, then, self.if_expr())
            return ("if", cond, then, self.body())
        self.i = save
        return ("if", cond, then, None)

    def string(self):
        assert self.peekc() == '"'
        self.i += 1
        out = []
        while self.i < self.n:
            c = self.s[self.i]
            if c == "\\":
                nx = self.peekc(1)
                if nx == "u" and self.peekc(2) == "{":
                    j = self.s.find("}", self.i)
                    out.append(chr(int(self.s[self.i + 3:j], 16)))
                    self.i = j + 1
                    continue
                out.append({"n": "\n", "t": "\t", "r": "\r"}.get(nx, nx))
                self.i += 2
            elif c == '"':
                self.i += 1
                return "".join(out)
            else:
                out.append(c)
                self.i += 1
        self.err("unterminated string")

    def paren(self):
        """( … ): parenthesised expression, array, dictionary, or closure parameters"""
        start = self.i
        # closure?  find the matching ')' and look for '=>'
        depth = 0
        j = self.i
        in_str = False
        while j < self.n:
            ch = self.s[j]
            if in_str:
                if ch == "\\":
                    j += 1
                elif ch == '"':
                    in_str = False
            elif ch == '"':
                in_str = True
            elif ch in "([{":
                depth += 1
            elif ch in ")]}":
                depth -= 1
                if depth == 0:
                    break
            j += 1
        k = j + 1
        while k < self.n and self.s[k] in " \t":
            k += 1
        if self.s.startswith("=>", k):
            params = self.params()
            self.skip_ws(newlines=False)
            self.expect("=>")
            return ("closure", params, self.expr())
        self.i = start + 1
        items = []
        named = []
        trailing_comma = False
        is_dict = False
        while True:
            self.skip_ws()
            if self.eat(")"):
                break
            if self.eat(":"):
                is_dict = True
                continue
            save = self.i
            key = None
            if self.peekc() == '"':
                s = self.string()
                self.skip_ws(newlines=False)
                if self.peekc() == ":":
                    self.i += 1
                    key = s
                else:
                    self.i = save
            elif _ident_re.match(self.s, self.i) and not any(self.at_kw(k) for k in ("if", "for", "not", "none", "true", "false", "auto", "context")):
                nm = self.ident()
                self.skip_ws(newlines=False)
                if self.peekc() == ":" :
                    self.i += 1
                    key = nm
                else:
                    self.i = save
            v = self.expr()
            if key is not None:
                named.append((key, v))
            else:
                items.append(v)
            self.skip_ws()
            trailing_comma = self.eat(",")
        if named or is_dict:
            return ("dict", named + [(None, x) for x in items])
        if len(items) == 1 and not trailing_comma and items[0][0] != "spread":
            return ("paren", items[0])
        return ("array", items)

    def args(self):
        """( positional, name: value, ..spread )"""
        self.expect("(")
        pos, named = [], []
        while True:
            self.skip_ws()
            if self.eat(")"):
                break
            save = self.i
            key = None
            if _ident_re.match(self.s, self.i) and not any(self.at_kw(k) for k in ("if", "for", "not", "none", "true", "false", "auto", "context")):
                nm = self.ident()
                self.skip_ws(newlines=False)
                if self.peekc() == ":":
                    self.i += 1
                    key = nm
                else:
                    self.i = save
            v = self.expr()
            if key is not None:
                named.append((key, v))
            else:
                pos.append(v)
            self.skip_ws()
            self.eat(",")
        return pos, named

    def postfix(self, e, tight=False):
        """field access, method calls, calls, trailing content blocks. `tight`: markup mode — no white space allowed"""
        while True:
            save = self.i
            if not tight:
                # a method chain may continue on the next line
                self.skip_ws(newlines=False)
                j = self.i
                self.skip_ws(newlines=True)
                if not (self.peekc() == "." and self.peekc(1) != "." and _ident_re.match(self.s, self.i + 1)):
                    self.i = j
            c = self.peekc()
            if c == "." and self.peekc(1) != "." and _ident_re.match(self.s, self.i + 1):
                self.i += 1
                name = self.ident()
                if self.peekc() == "(" or (self.peekc() == "[" and e[0] != "text"):
                    pos, named = self.args() if self.peekc() == "(" else ([], [])
                    while self.peekc() == "[":
                        self.i += 1
                        pos.append(("content", self.markup(True)))
                    c = chain(e)
                    if c and c[0] in MODULES:
                        e = ("call", ("field", e, name), pos, named)
                    else:
                        e = ("method", e, name, pos, named)
                else:
                    e = ("field", e, name)
                continue
            if c == "(" and self.i == save or (c == "(" and not tight and self.s[save:self.i].strip(" \t") == "" and self.i == save):
                pos, named = self.args()
                while self.peekc() == "[":
                    self.i += 1
                    pos.append(("content", self.markup(True)))
                e = ("call", e, pos, named)
                continue
            if c == "[" and self.i == save and e[0] in ("ident", "field", "call", "method"):
                pos = []
                while self.peekc() == "[":
                    self.i += 1
                    pos.append(("content", self.markup(True)))
                if e[0] == "call":
                    e = ("call", e[1], e[2] + pos, e[3])
                elif e[0] == "method":
                    e = ("method", e[1], e[2], e[3] + pos, e[4])
                else:
                    e = ("call", e, pos, [])
                continue
            self.i = save
            return e


def parse(src):
    """the whole file as markup: list of ('text', s) and embedded code nodes"""
    p = P(src)
    return p.markup(False)


# ---------------------------------------------------------------------------------------------------------------------
# walking


def children(n):
    if not isinstance(n, tuple) or not n:
        return
    h = n[0]
    if h in ("str", "num", "ident", "none", "bool", "auto", "text", "import"):
        return
    if h == "field":
        yield n[1]
    elif h == "call":
        yield n[1]
        yield from n[2]
        for _, v in n[3]:
            yield v
    elif h == "method":
        yield n[1]
        yield from n[3]
        for _, v in n[4]:
            yield v
    elif h == "bin":
        yield n[2]
        yield n[3]
    elif h == "un":
        yield n[2]
    elif h == "if":
        yield n[1]
        yield n[2]
        if n[3] is not None:
            yield n[3]
    elif h == "for":
        yield n[2]
        yield n[3]
    elif h == "while":
        yield n[1]
        yield n[2]
    elif h in ("block", "content", "array", "join"):
        yield from n[1]
    elif h == "loop":
        yield n[1]
    elif h == "dict":
        for _, v in n[1]:
            yield v
    elif h == "let":
        yield n[2]
    elif h == "letfn":
        for _, d in n[2]:
            if d is not None:
                yield d
        yield n[3]
    elif h == "closure":
        for _, d in n[1]:
            if d is not None:
                yield d
        yield n[2]
    elif h in ("spread", "paren", "context", "set"):
        if n[1] is not None:
            yield n[1]
    elif h == "return":
        if n[1] is not None:
            yield n[1]
    elif h == "show":
        if n[1] is not None:
            yield n[1]
        yield n[2]


def walk(n):
    yield n
    for c in children(n):
        yield from walk(c)


def functions(nodes):
    """top-level `#let name(params) = body` definitions"""
    out = {}
    for n in nodes:
        if isinstance(n, tuple) and n and n[0] == "letfn":
            out[n[1]] = (n[2], n[3])
    return out


def chain(n):
    """a.b.c → ['a','b','c'] for pure identifier/field chains, else None"""
    parts = []
    while isinstance(n, tuple) and n[0] == "field":
        parts.append(n[2])
        n = n[1]
    if isinstance(n, tuple) and n[0] == "ident":
        parts.append(n[1])
        return parts[::-1]
    return None


def callee_name(n):
    """name of a called function: ident or dotted chain (calc.round)"""
    if n[0] == "call":
        c = chain(n[1])
        return ".".join(c) if c else None
    return None


# ---------------------------------------------------------------------------------------------------------------------
# symbolic reading of helper functions


def subst(n, env):
    """replace identifiers bound in env (let-inlining)"""
    if not isinstance(n, tuple) or not n:
        return n
    h = n[0]
    if h == "ident":
        return env.get(n[1], n)
    if h in ("str", "num", "none", "bool", "auto", "text", "import"):
        return n
    if h == "field":
        return ("field", subst(n[1], env), n[2])
    if h == "call":
        return ("call", subst(n[1], env) if n[1][0] != "ident" or n[1][1] not in env else n[1], [subst(a, env) for a in n[2]], [(k, subst(v, env)) for k, v in n[3]])
    if h == "method":
        return ("method", subst(n[1], env), n[2], [subst(a, env) for a in n[3]], [(k, subst(v, env)) for k, v in n[4]])
    if h == "bin":
        return ("bin", n[1], subst(n[2], env), subst(n[3], env))
    if h == "un":
        return ("un", n[1], subst(n[2], env))
    if h == "if":
        return ("if", subst(n[1], env), value_of(n[2], env), value_of(n[3], env) if n[3] is not None else None)
    if h == "paren":
        return subst(n[1], env)
    if h == "array":
        return ("array", [subst(x, env) for x in n[1]])
    if h == "block":
        return value_of(n, env)
    if h == "closure":
        inner = {k: v for k, v in env.items() if k not in {p for p, _ in n[1] if isinstance(p, str)}}
        return ("closure", n[1], subst(n[2], inner))
    return n


def value_of(body, env=None):
    """the value of a function body with its single-assignment `let`s substituted; a block's value is its last
    expression (joined values of several expressions are returned as ('join', [...]))"""
    env = dict(env or {})
    if body is None:
        return None
    if body[0] == "paren":
        return value_of(body[1], env)
    if body[0] != "block":
        return subst(body, env)
    vals = []
    for st in body[1]:
        if st[0] == "let" and isinstance(st[1], str):
            env[st[1]] = subst(st[2], env)
        elif st[0] in ("let", "letfn", "set", "show", "import"):
            continue
        elif st[0] == "for" or st[0] == "while":
            vals.append(("loop", st))
        elif st[0] == "bin" and st[1] in ("=", "+=", "-=", "*=", "/="):
            tgt = st[2]
            if tgt[0] == "ident":
                env[tgt[1]] = ("mutated", tgt[1])
        elif st[0] == "return":
            vals.append(subst(st[1], env) if st[1] is not None else ("none",))
        else:
            vals.append(subst(st, env))
    vals = [v for v in vals if not (v[0] == "method" and v[2] in ("push", "insert"))]
    if len(vals) == 1:
        return vals[0]
    return ("join", vals)


def flatten_add(n):
    """a + b + c → [a, b, c]"""
    if isinstance(n, tuple) and n[0] == "bin" and n[1] == "+":
        return flatten_add(n[2]) + flatten_add(n[3])
    if isinstance(n, tuple) and n[0] == "paren":
        return flatten_add(n[1])
    return [n]


def show(n, depth=0):
    if not isinstance(n, tuple) or not n:
        return str(n)
    if depth > 7:
        return "…"
    h = n[0]
    d = depth + 1
    if h == "str":
        return '"' + n[1] + '"'
    if h in ("num", "ident"):
        return n[1]
    if h == "none":
        return "none"
    if h == "bool":
        return "true" if n[1] else "false"
    if h == "field":
        return f"{show(n[1], d)}.{n[2]}"
    if h == "call":
        return f"{show(n[1], d)}(" + ", ".join([show(a, d) for a in n[2]] + [f"{k}: {show(v, d)}" for k, v in n[3]]) + ")"
    if h == "method":
        return f"{show(n[1], d)}.{n[2]}(" + ", ".join([show(a, d) for a in n[3]] + [f"{k}: {show(v, d)}" for k, v in n[4]]) + ")"
    if h == "bin":
        return f"({show(n[2], d)} {n[1]} {show(n[3], d)})"
    if h == "un":
        return f"{n[1]} {show(n[2], d)}"
    if h == "if":
        return f"if {show(n[1], d)} {{{show(n[2], d)}}} else {{{show(n[3], d)}}}"
    if h == "paren":
        return show(n[1], d)
    if h == "array":
        return "(" + ", ".join(show(x, d) for x in n[1]) + ",)"
    if h == "join":
        return " ++ ".join(show(x, d) for x in n[1])
    if h == "content":
        return "[…]"
    return h
