"""May-panic analysis over MIR facts: explicit panics, Assert terminators, indexing, decimal overflow."""
import os
import re

from mir import (Terms, parse_callee, trait_base, op_place, op_const, place_proj, show, subterms,
                 is_decimal_arith, is_decimal_arith_assign, is_decimal_sum)
from flow import site_is_external, body_is_external, is_external_mac, root_of_operand

# --------------------------------------------------------------------------- entry points and reachability

ADT_IN_TY = re.compile(r"cgt_[a-z_]+(?:::[A-Za-z_][A-Za-z0-9_]*)+")


def entry_roots(F):
    """entry points: every public fn/method of the workspace libraries, the CLI main, the MCP handler
    methods and tool coroutines, the wasm exports"""
    roots = {}
    for b in F.bodies.values():
        if F.is_derive(b):
            continue
        if b.id == "cgt_tool::main":
            roots[b.id] = "cli"
        elif b.crate == "cgt_mcp" and ("ServerHandler" in b.id or b.id.endswith("run_server")):
            roots[b.id] = "mcp"
        elif b.vis == "Public" and b.kind in ("fn", "method"):
            roots[b.id] = "lib:" + b.crate
        elif b.kind == "method" and b.id.startswith("<") and " as cgt_" in b.id and not is_external_mac(b.mac):
            # impls of workspace traits (BrokerConverter::convert, Formatter::format)
            roots[b.id] = "lib:" + b.crate
    return roots


def mcp_tool_bodies(F):
    """async tool methods of the MCP server and their coroutine bodies"""
    out = {}
    for b in F.bodies.values():
        if b.crate != "cgt_mcp" or b.kind != "method":
            continue
        # rmcp's #[tool] attribute generates a sibling `<name>_tool_attr`
        if b.id.endswith("_tool_attr"):
            base = b.id[: -len("_tool_attr")]
            if base in F.bodies:
                out[base] = [c for c in F.children(base)]
    return out


_TRAIT_HINTS = (
    (("fmt::", "Argument", "to_string", "ToString"), ("Display", "Debug")),
    (("ser::", "::to_string", "to_value", "to_writer", "to_vec", "Serializ", "serialize"), ("Serialize",)),
    (("de::", "from_str", "from_value", "from_slice", "from_reader", "Deserializ", "deserialize", "next_value", "next_element", "next_key"),
     ("Deserialize", "Visitor", "DeserializeSeed")),
    (("clone", "to_vec", "cloned", "to_owned"), ("Clone",)),
    (("default", "or_default"), ("Default",)),
    (("schema", "Schema"), ("JsonSchema",)),
    (("cmp", "sort", "hash", "Hash", "BTree", "contains", "dedup", "position", "eq", "entry", "insert", "get", "remove"),
     ("PartialEq", "Eq", "Hash", "Ord", "PartialOrd")),
)


def _hinted_traits(callee):
    out = set()
    for needles, traits in _TRAIT_HINTS:
        if any(n in callee for n in needles):
            out.update(traits)
    return out


def extended_callgraph(F):
    """call graph + edges from generic external calls to trait impls of workspace types named in their
    generic arguments, restricted to the trait family the external callee can invoke (serde ser/de, fmt,
    Clone, Default, comparison); unknown external generics link to every impl of the named type"""
    if getattr(F, "_xcg", None) is not None:
        return F._xcg
    cg = {k: set(v) for k, v in F.callgraph().items()}
    impl_index = {}   # type path -> [(trait last segment, body id)]
    nested = {}       # type path -> nested visitor bodies of its derived Deserialize
    for bid in F.bodies:
        st, tr, m = parse_callee(bid)
        if st is None:
            continue
        mm = ADT_IN_TY.match(st.lstrip("&").strip())
        if not mm:
            continue
        ty = mm.group(0)
        inner = re.search(r" for (cgt_[A-Za-z0-9_:]+?)(?:<[^>]*>)?>::\w+::", st)
        if inner:
            # a type nested inside an impl block (serde's __Visitor / __Field): owned by that impl's type
            nested.setdefault(inner.group(1), []).append(bid)
            continue
        impl_index.setdefault(ty, []).append((trait_base(tr), bid))
    for b in F.bodies.values():
        extra = set()
        for _, t in b.calls():
            cal = t["callee"]
            if cal in F.bodies:
                continue
            hinted = _hinted_traits(cal)
            head = cal.lstrip("<&")
            if head.startswith(("core::", "alloc::", "std::")) or " as core::" in cal or " as alloc::" in cal or " as std::" in cal:
                # std generics can only reach the std traits in their bounds, never serde
                hinted = (hinted | {"Clone", "PartialEq", "Eq", "Ord", "PartialOrd", "Hash", "Default", "Display", "Debug"}) \
                    - {"Serialize", "Deserialize", "Visitor", "DeserializeSeed", "JsonSchema"}
            tys = list(t.get("gargs") or []) + list(t.get("aty") or [])
            for g in tys:
                for ty in set(ADT_IN_TY.findall(g)):
                    for trn, im in impl_index.get(ty, ()):
                        if not hinted or trn in hinted:
                            extra.add(im)
        st, tr, m = parse_callee(b.id)
        if st is not None and trait_base(tr) == "Deserialize":
            mm = ADT_IN_TY.match(st)
            if mm:
                extra.update(nested.get(mm.group(0), ()))
        cg.setdefault(b.id, set()).update(extra)
    F._xcg = cg
    return cg


def reachable(F, roots, stop=()):
    cg = extended_callgraph(F)
    seen = set()
    parent = {}
    st = [r for r in roots]
    while st:
        x = st.pop()
        if x in seen or x in stop:
            continue
        seen.add(x)
        for y in cg.get(x, ()):
            if y not in seen and y in F.bodies:
                parent.setdefault(y, x)
                st.append(y)
    return seen, parent


def path_from(parent, target, limit=12):
    p = [target]
    while p[-1] in parent and len(p) < limit:
        p.append(parent[p[-1]])
    return " <- ".join(x.split("::", 1)[-1] for x in p)


def catch_unwind_closures(F):
    """closures passed to std::panic::catch_unwind (bodies that run behind a panic barrier)"""
    out = set()
    for b in F.bodies.values():
        for _, t in b.calls():
            if t["callee"].startswith("std::panic::catch_unwind") or t["callee"].endswith("::catch_unwind"):
                for g in t.get("gargs") or []:
                    pass
                for a in t["args"]:
                    p = op_place(a)
                    if p is None:
                        continue
                    for d in b.defs().get(p["l"], []):
                        if d[0] == "assign" and d[3]["rv"]["k"] == "closure":
                            out.add(d[3]["rv"]["id"])
                        if d[0] == "assign" and d[3]["rv"]["k"] == "agg":
                            # AssertUnwindSafe(closure)
                            for o in d[3]["rv"]["ops"]:
                                q = op_place(o)
                                if q is not None:
                                    for d2 in b.defs().get(q["l"], []):
                                        if d2[0] == "assign" and d2[3]["rv"]["k"] == "closure":
                                            out.add(d2[3]["rv"]["id"])
    return out


# --------------------------------------------------------------------------- explicit panics

PANIC_CALLEES = re.compile(
    r"^(core::panicking::(panic|panic_fmt|panic_display|panic_explicit|unreachable_display|assert_failed\w*|panic_nounwind\w*|panic_str\w*|panic_const::\w+)"
    r"|std::rt::(begin_panic|panic_fmt)|std::panicking::begin_panic\w*"
    r"|core::option::(unwrap_failed|expect_failed)|core::result::unwrap_failed"
    r"|std::process::abort|core::intrinsics::abort"
    r"|core::option::Option::<T>::(unwrap|expect|unwrap_unchecked)"
    r"|core::result::Result::<T, E>::(unwrap|expect|unwrap_err|expect_err|unwrap_unchecked|into_ok)"
    r"|core::cell::RefCell::<T>::(borrow|borrow_mut|replace|swap|take)"
    r"|alloc::vec::Vec::<T, A>::(remove|swap_remove|insert|split_off|drain|splice|extend_from_within)"
    r"|alloc::collections::vec_deque::VecDeque::<T, A>::(remove|insert|swap|split_off)"
    r"|alloc::string::String::(remove|insert|insert_str|split_off|drain|replace_range|truncate)"
    r"|core::slice::<impl \[T\]>::(split_at|split_at_mut|swap|copy_from_slice|clone_from_slice|chunks|chunks_exact|windows|rotate_left|rotate_right|select_nth_unstable\w*)"
    r"|core::str::<impl str>::(split_at|split_at_mut)"
    r"|chrono::naive::date::NaiveDate::(from_ymd|from_yo|from_isoywd|from_num_days_from_ce|and_hms|and_hms_milli|and_hms_micro|and_hms_nano|succ|pred)"
    r"|chrono::time_delta::TimeDelta::(days|weeks|hours|minutes|seconds|milliseconds)"
    r"|<chrono::naive::(date::NaiveDate|datetime::NaiveDateTime) as core::ops::arith::(Add|Sub|AddAssign|SubAssign)<chrono::(time_delta::TimeDelta|month::Months|naive::Days|naive::date::Days)>>::(add|sub|add_assign|sub_assign)"
    r"|<chrono::time_delta::TimeDelta as core::ops::arith::(Add|Sub|Mul|Neg)(<.*>)?>::(add|sub|mul|neg)"
    r"|rust_decimal::decimal::Decimal::(new|from_i128_with_scale|from_parts_raw|powi|powu|powf|powd|sqrt|exp|ln|log10|rescale|set_scale|from_scientific)"
    r"|std::sync::(mutex::Mutex|rwlock::RwLock)<T>::(lock|read|write)"
    r"|core::iter::traits::iterator::Iterator::(step_by)"
    r")$")

INDEX_CALLEE = re.compile(r"(core::ops::index::Index(Mut)?(<.*>)?>::index(_mut)?$)|(<impl core::ops::index::Index(Mut)?<.*> for .*>::index(_mut)?$)")


def user_written(F, b):
    return not F.is_derive(b) and not body_is_external(F, b)


def explicit_panics(F, bodies):
    """yield (body, bb, term, discharge-reason-or-None) for explicit may-panic calls in user-written code"""
    for b in bodies:
        if not user_written(F, b):
            continue
        tb = None
        for i, t in b.calls():
            cal = t["callee"]
            if not PANIC_CALLEES.match(cal):
                continue
            if site_is_external(b, t):
                continue
            tb = tb or Terms(F, b, inline_depth=0)
            yield b, i, t, _discharge_call(F, b, tb, i, t)


def _discharge_call(F, b, tb, i, t):
    st, tr, m = parse_callee(t["callee"])
    cal = t["callee"]
    # constant small argument to TimeDelta::days etc.
    if cal.startswith("chrono::time_delta::TimeDelta::"):
        k = op_const(t["args"][0])
        if k is not None and "int" in k and abs(int(k["int"])) < 10 ** 6:
            return "constant argument"
        term = tb.operand(t["args"][0])
        bound = _range_bound(b, tb, t["args"][0]) or _closure_param_range_bound(F, b, tb, t["args"][0])
        if bound is not None and max(abs(bound[0]), abs(bound[1])) < 10 ** 6:
            return f"argument ranges over the constant interval {bound}"
        return None
    # s.truncate(s.trim_end…().len()): the new length is that of a prefix of the same string ending on a char boundary
    if cal.endswith("String::truncate") and len(t["args"]) == 2:
        n = tb.operand(t["args"][1])
        s0 = tb.operand(t["args"][0])
        if isinstance(n, tuple) and n and n[0] == "call" and parse_callee(n[1])[2] == "len" and n[2]:
            x = n[2][0]
            ok = False
            while isinstance(x, tuple) and x and x[0] == "call" and parse_callee(x[1])[2] in ("trim_end", "trim_end_matches", "trim_right", "trim_right_matches", "as_str", "deref"):
                ok = ok or parse_callee(x[1])[2].startswith("trim_")
                x = x[2][0]
            def var_of(z):
                return z[1] if isinstance(z, tuple) and z and z[0] == "var" else z
            if ok and var_of(x) == var_of(s0):
                return "new length is the length of a right-trimmed prefix of the same string (≤ len, on a char boundary)"
        return None
    # slice.windows(K) / chunks(K) … panic only for a size of zero
    if m in ("windows", "chunks", "chunks_exact", "rchunks", "rchunks_exact", "chunks_mut", "chunks_exact_mut") and "slice" in cal and len(t["args"]) == 2:
        k = op_const(t["args"][1])
        if k is not None and "int" in k and int(k["int"]) >= 1:
            return f"constant non-zero size {k['int']}"
        return None
    # Vec::remove(pos) where pos comes from position() on the same Vec
    if cal.endswith("::remove") and "Vec" in cal and len(t["args"]) == 2:
        term = tb.operand(t["args"][1])
        r0 = root_of_operand(b, t["args"][0])
        for x in subterms(term):
            if isinstance(x, tuple) and x and x[0] == "call" and parse_callee(x[1])[2] in ("position", "rposition"):
                return "index is the result of position() on the same Vec (Some arm)"
    return None


_ELEMENT_ADAPTERS = ("map", "find_map", "filter_map", "for_each", "flat_map", "try_for_each", "any", "all", "find", "filter",
                     "position", "take_while", "skip_while", "map_while", "inspect")


def _const_range_in(term):
    for y in subterms(term):
        if isinstance(y, tuple) and y and y[0] == "call" and "RangeInclusive" in y[1] and y[1].endswith("::new") and len(y[2]) == 2:
            a, c = y[2][0], y[2][1]
            if a[0] == "int" and c[0] == "int":
                return (a[1], c[1])
        if isinstance(y, tuple) and y and y[0] == "agg" and y[1].endswith("ops::range::Range"):
            fs = dict(y[3])
            if fs.get("start", ("",))[0] == "int" and fs.get("end", ("",))[0] == "int":
                return (fs["start"][1], fs["end"][1] - 1)
    return None


def _closure_param_range_bound(F, b, tb, op):
    """the operand is the element parameter of a closure handed to an iterator adapter over a constant integer range
    (`(1..=7).find_map(|k| …)`): return the range"""
    if b.kind != "closure" or b.parent not in F.bodies:
        return None
    term = tb.operand(op)
    if not (isinstance(term, tuple) and term and term[0] == "param" and term[1] == 1):
        return None
    pb = F.bodies[b.parent]
    ptb = Terms(F, pb, inline_depth=0)
    for i, t in pb.calls():
        if parse_callee(t["callee"])[2] not in _ELEMENT_ADAPTERS or "iter" not in t["callee"]:
            continue
        args = [ptb.operand(a) for a in t["args"]]
        if any(isinstance(a, tuple) and a and a[0] == "closure" and a[1] == b.id for a in args[1:]):
            recv = args[0]
            # only adapters that pass the range's own elements on (rev) may sit in between
            x = recv
            while isinstance(x, tuple) and x and x[0] == "call" and parse_callee(x[1])[2] in ("rev", "into_iter", "by_ref"):
                x = x[2][0]
            r = _const_range_in(x) if not (isinstance(x, tuple) and x and x[0] == "call" and not ("Range" in x[1])) else None
            if r is not None:
                return r
    return None


def _range_bound(b, tb, op):
    """if the operand is the element of a `for x in a..=b` loop over constants, return (a, b)"""
    term = tb.operand(op)
    for x in subterms(term):
        if isinstance(x, tuple) and x and x[0] == "call" and parse_callee(x[1])[2] == "next":
            for y in subterms(x):
                if isinstance(y, tuple) and y and y[0] == "call" and (y[1].endswith("RangeInclusive::<Idx>::new") or "RangeInclusive" in y[1] and y[1].endswith("::new")):
                    a, c = y[2][0], y[2][1]
                    if a[0] == "int" and c[0] == "int":
                        return (a[1], c[1])
                if isinstance(y, tuple) and y and y[0] == "agg" and y[1].endswith("ops::range::Range"):
                    fs = dict(y[3])
                    if fs.get("start", ("",))[0] == "int" and fs.get("end", ("",))[0] == "int":
                        return (fs["start"][1], fs["end"][1] - 1)
    return None


# --------------------------------------------------------------------------- Assert terminators

def shape(t, names=None):
    """term rendering with variable/parameter names canonicalised (robust to renaming)"""
    names = names if names is not None else {}

    def go(t):
        if not isinstance(t, tuple) or not t:
            return t
        if t[0] == "var":
            n = names.setdefault(("v", t[1]), "v%d" % len([k for k in names if k[0] == "v"]))
            return ("var", n)
        if t[0] == "param":
            return ("param", t[1], "p%d" % t[1])
        return tuple(go(x) if isinstance(x, tuple) else x for x in t)

    return show(go(t))


def divisor_of(b, t):
    """for Division/RemainderByZero asserts: the operand compared with 0"""
    p = op_place(t["cond"])
    if p is None:
        return None
    for d in b.defs().get(p["l"], []):
        if d[0] == "assign" and d[3]["rv"]["k"] == "bin" and d[3]["rv"]["op"] == "Eq":
            return d[3]["rv"]["a"]
    return None


def assert_sites(F, bodies):
    """yield (body, bb, term, kind, operand-terms, discharge-reason-or-None)"""
    for b in bodies:
        if not user_written(F, b):
            continue
        tb = None
        for i, t in b.terms_of_kind("assert"):
            msg = t["msg"]
            if msg.startswith("Resumed") or "Pointer" in msg or "InvalidEnum" in msg:
                continue
            if site_is_external(b, t):
                continue
            tb = tb or Terms(F, b, inline_depth=0)
            ops = [tb.operand(o) for o in t["ops"]]
            yield b, i, t, msg, ops, _discharge_assert(F, b, tb, i, t, msg, ops)


def _is_index_like(b, tb, op, term, depth=0):
    """usize value bounded by the length of a live allocation: enumerate index, len(), position/find result,
    a sum of two such, or a counter initialised from one and only incremented under a `< len` guard"""
    if op is not None:
        nl = named_root(b, op)
        if nl is not None and counter_ok(b, tb, nl):
            return True
    if isinstance(term, tuple) and term:
        h = term[0]
        if h == "int":
            return 0 <= term[1] < 2 ** 31
        if h == "field" and term[2] == "0":
            # element .0 of enumerate().next()
            for x in subterms(term):
                if isinstance(x, tuple) and x and x[0] == "call" and parse_callee(x[1])[2] == "next":
                    return _from_enumerate(x)
        if h == "some":
            inner = term[1]
            if isinstance(inner, tuple) and inner and inner[0] == "call":
                m = parse_callee(inner[1])[2]
                if m in ("find", "rfind", "position", "rposition"):
                    return True
        if h == "call":
            m = parse_callee(term[1])[2]
            if m in ("len", "count", "position", "find"):
                return True
            hb = tb.facts.bodies.get(term[1])
            if hb is not None and depth < 3 and _returns_counter(tb.facts, hb):
                return True
        if h == "un" and term[1] == "PtrMetadata":
            return True
        if h == "bin" and term[1] in ("Add",) and depth < 3:
            return _is_index_like(b, tb, None, term[2], depth + 1) and _is_index_like(b, tb, None, term[3], depth + 1)
        if h == "bin" and term[1] == "Div" and depth < 3:
            return _is_index_like(b, tb, None, term[2], depth + 1)
        if h == "phi" and depth < 3:
            return all(_is_index_like(b, tb, None, x, depth + 1) for x in term[1])
        if h == "var":
            return _guarded_counter(b, tb, term)
    return False


def _from_enumerate(next_call):
    for y in subterms(next_call):
        if isinstance(y, tuple) and y and y[0] in ("call",) and parse_callee(y[1])[2] == "enumerate":
            return True
        if isinstance(y, tuple) and y and y[0] == "var" and len(y) > 2:
            for z in subterms(y[2]):
                if isinstance(z, tuple) and z and z[0] == "call" and parse_callee(z[1])[2] == "enumerate":
                    return True
    return False


def named_root(b, op, depth=0):
    """follow plain copies of an operand back to a named local (or a parameter)"""
    p = op_place(op)
    if p is None or place_proj(p):
        return None
    l = p["l"]
    for _ in range(8):
        if b.local_name(l) or 1 <= l <= b.argc:
            return l
        ds = b.defs().get(l, [])
        if len(ds) != 1 or ds[0][0] != "assign" or ds[0][3]["rv"]["k"] != "use":
            return None
        q = op_place(ds[0][3]["rv"]["op"])
        if q is None or place_proj(q):
            return None
        l = q["l"]
    return None


def counter_ok(b, tb, l, seen=()):
    """usize local whose every definition is a constant, a copy of another such counter, or
    `self + 1` executed under a dominating `self < len(..)` guard with no write in between"""
    if l in seen:
        return True
    if b.local_ty(l) != "usize":
        return False
    ds = b.defs().get(l, [])
    if not ds and 1 <= l <= b.argc and l not in getattr(b, "mutated", {}):
        return _param_index_like(tb.facts, b, l)
    if not ds or l in getattr(b, "mutated", {}):
        return False
    for d in ds:
        if d[0] == "call" and not place_proj(d[2].get("dest") or {}):
            # the value a workspace helper returns, when that helper returns a length-bounded counter of its own
            if _returns_counter(tb.facts, tb.facts.bodies.get(d[2]["callee"])):
                continue
            return False
        if d[0] != "assign":
            return False
        rv = d[3]["rv"]
        if rv["k"] != "use":
            return False
        k = op_const(rv["op"])
        if k is not None:
            if "int" in k:
                continue
            return False
        q = op_place(rv["op"])
        if q is None:
            return False
        # increment: (AddWithOverflow(copy l, 1)).0
        if place_proj(q) and len(place_proj(q)) == 1 and isinstance(place_proj(q)[0], dict) and place_proj(q)[0].get("f") == 0:
            td = b.defs().get(q["l"], [])
            if len(td) == 1 and td[0][0] == "assign" and td[0][3]["rv"]["k"] == "bin" and td[0][3]["rv"]["op"] == "AddWithOverflow":
                a_, c_ = td[0][3]["rv"]["a"], td[0][3]["rv"]["b"]
                kc = op_const(c_)
                if named_root(b, a_) == l and kc is not None and kc.get("int") == "1":
                    if _dominated_by_lt_len_fresh(b, tb, d[1], l):
                        continue
            return False
        m = named_root(b, rv["op"])
        if m is None or not counter_ok(b, tb, m, seen + (l,)):
            return False
    return True


_PIL_BUSY = set()
_RC_BUSY = set()


def _user_call_sites(F, fn):
    return [(cb, ci, ct) for cb, ci, ct in F.call_sites(lambda cal, fid=fn.id: cal == fid) if user_written(F, cb)]


def _param_index_like(F, b, l):
    """usize parameter #l of a private/workspace function: EVERY workspace call site passes an operand that is itself bounded by the
    length of a live allocation (an enumerate index, a len, a guarded counter …). No call site ⇒ not proven."""
    if b.kind not in ("fn", "method"):
        return False
    if (b.id, l) in _PIL_BUSY:
        return True
    sites = _user_call_sites(F, b)
    if not sites:
        return False
    _PIL_BUSY.add((b.id, l))
    try:
        for cb, ci, ct in sites:
            if len(ct["args"]) < l:
                return False
            ctb = Terms(F, cb, inline_depth=0)
            op = ct["args"][l - 1]
            term = ctb.operand(op)
            if any(isinstance(x, tuple) and x and x[0] == "bin" for x in subterms(term)) and named_root(cb, op) is None:
                return False        # arithmetic on the way in (`f(i + k)`) is not covered by the inductive argument
            if not _is_index_like(cb, ctb, op, term):
                return False
        return True
    finally:
        _PIL_BUSY.discard((b.id, l))


def _returns_counter(F, h):
    """workspace fn returning usize whose returned local is a length-bounded counter (counter_ok) in its own body"""
    if h is None or h.kind not in ("fn", "method") or h.ret != "usize" or not user_written(F, h):
        return False
    if h.id in _RC_BUSY:
        return True         # inductive: assumed while its own proof is in progress (every quantity in the cycle starts bounded and stays so)
    htb = Terms(F, h, inline_depth=0)
    ds = h.defs().get(0, [])
    if not ds:
        return False
    _RC_BUSY.add(h.id)
    try:
        for d in ds:
            if d[0] != "assign" or d[3]["rv"]["k"] != "use":
                return False
            r = named_root(h, d[3]["rv"]["op"])
            if r is None or not counter_ok(h, htb, r):
                return False
        return True
    finally:
        _RC_BUSY.discard(h.id)


def scan_summary(F, h):
    """(slice-param, start-param) if h is a SCAN helper `fn(xs: &[T] | &Vec<T>, start: usize) -> usize` that returns a counter c with
    c = start initially and otherwise only `c += 1` under a dominating `c < xs.len()` on the same slice: then start ≤ ret, and
    ret ≤ len(xs) whenever start ≤ len(xs). None otherwise."""
    if h is None or h.kind not in ("fn", "method") or h.ret != "usize" or not user_written(F, h):
        return None
    htb = Terms(F, h, inline_depth=0)
    ds = h.defs().get(0, [])
    if len(ds) != 1 or ds[0][0] != "assign" or ds[0][3]["rv"]["k"] != "use":
        return None
    c = named_root(h, ds[0][3]["rv"]["op"])
    if c is None or 1 <= c <= h.argc or c in getattr(h, "mutated", {}):
        return None
    start = slc = None
    for d in h.defs().get(c, []):
        if d[0] != "assign" or d[3]["rv"]["k"] != "use":
            return None
        q = op_place(d[3]["rv"]["op"])
        if q is None:
            return None
        if place_proj(q):
            # (AddWithOverflow(c, 1)).0 under `c < len(param)` fresh
            td = h.defs().get(q["l"], [])
            if not (len(td) == 1 and td[0][0] == "assign" and td[0][3]["rv"]["k"] == "bin" and td[0][3]["rv"]["op"] == "AddWithOverflow"):
                return None
            a_, c_ = td[0][3]["rv"]["a"], td[0][3]["rv"]["b"]
            kc = op_const(c_)
            if named_root(h, a_) != c or kc is None or kc.get("int") != "1":
                return None
            ok = None
            for k in range(1, h.argc + 1):
                if _dominated_by_lt_len_fresh(h, htb, d[1], c, ("param", k - 1, h.local_name(k))):
                    ok = k
            if ok is None:
                return None
            if slc is not None and slc != ok:
                return None
            slc = ok
        else:
            m = named_root(h, d[3]["rv"]["op"])
            if m is None or not (1 <= m <= h.argc) or h.local_ty(m) != "usize" or (start is not None and start != m):
                return None
            start = m
    if start is None or slc is None:
        return None
    return slc, start


def _iteration_counter(b, op):
    """the operand is a usize local that starts at a constant and is otherwise only written by `self + 1`, every increment
    sitting in a loop driven by Iterator::next and no two increments (nor one twice) executing in the same iteration"""
    l = named_root(b, op)
    if l is None or b.local_ty(l) != "usize":
        return False
    incs = []
    for d in b.defs().get(l, []):
        if d[0] != "assign":
            return False
        rv = d[3]["rv"]
        if rv["k"] != "use":
            return False
        k = op_const(rv["op"])
        if k is not None and "int" in k:
            continue
        q = op_place(rv["op"])
        pj = place_proj(q) if q is not None else None
        if not (pj and len(pj) == 1 and isinstance(pj[0], dict) and pj[0].get("f") == 0):
            return False
        td = b.defs().get(q["l"], [])
        if not (len(td) == 1 and td[0][0] == "assign" and td[0][3]["rv"]["k"] == "bin" and td[0][3]["rv"]["op"] == "AddWithOverflow"):
            return False
        kc = op_const(td[0][3]["rv"]["b"])
        if not (named_root(b, td[0][3]["rv"]["a"]) == l and kc is not None and kc.get("int") == "1"):
            return False
        incs.append(d[1])
    if not incs or l in getattr(b, "mutated", {}):
        return False
    loops = b.loops()
    for blk in incs:
        inner = [(h, bl) for h, bl in loops if blk in bl]
        if not inner:
            return False
        h, bl = min(inner, key=lambda x: len(x[1]))
        if not any(parse_callee(b.term(x).get("callee", ""))[2] == "next" for x in bl if b.term(x)["k"] == "call"):
            return False
        # from this increment no other increment (nor itself) is reachable without passing the loop header
        after = set()
        for s_ in b.succ(blk):
            after |= b.reach_from(s_, removed_blocks=(h,))
        if any(o in after for o in incs):
            return False
    return True


def _field_writes_anywhere(F, adt, name):
    """(body, block, stmt) for every assignment through a place whose last projection is field `name` of `adt`"""
    out = []
    for b in F.bodies.values():
        for i, si, s in b.assigns():
            pj = place_proj(s["lhs"])
            last = next((e for e in reversed(pj) if isinstance(e, dict) and "f" in e), None) if pj else None
            if last is not None and last.get("n") == name and last.get("adt") == adt:
                out.append((b, i, s))
    return out


def _field_event_counter(F, b, a):
    """`self.count += 1` in a `&mut self` method of a per-run instance: the field is written only by methods of that type, each
    call of an entry method (one that code outside the type calls) performs at most one increment — none in a loop, no two events
    (increments or calls of other incrementing methods) on one path — every construction starts the field at 0, and every
    outside call happens at most once per element of an in-memory sequence: in an iterator-driven loop, or in a closure handed to
    `for_each` / `try_for_each` / `map` of such an iterator, on an instance that is local to the caller."""
    if not (isinstance(a, tuple) and a and a[0] == "field" and isinstance(a[1], tuple) and a[1] and a[1][0] == "param" and a[1][1] == 0 and b.kind == "method"):
        return False
    name = a[2]
    sty = b.local_ty(1).replace("'_ ", "")
    if not sty.startswith("&mut "):
        return False
    adt = sty[5:].strip()
    if "<" in adt:
        adt = adt[:adt.index("<")]          # RowCollector<'_>
    ws = _field_writes_anywhere(F, adt, name)
    if not ws:
        return False
    writers = {}
    for wb, i, s in ws:
        if wb.kind != "method" or wb.local_ty(1).replace("'_ ", "") != sty:
            return False        # written from outside the type's own `&mut self` methods
        writers.setdefault(wb.id, []).append((wb, i, s))
    if b.id not in writers:
        return False
    # family: the type's methods that (transitively) reach a writer
    fam = dict((wid, F.bodies[wid]) for wid in writers)
    changed = True
    while changed:
        changed = False
        for m in F.bodies.values():
            if m.id in fam or m.kind != "method" or m.argc < 1 or m.local_ty(1).replace("'_ ", "") not in (sty, "&" + sty[5:]):
                continue
            if any(t["callee"] in fam for _, t in m.calls()):
                fam[m.id] = m
                changed = True
    for mid, m in fam.items():
        events = []
        for wb, i, s in writers.get(mid, []):
            rv = s["rv"]
            q = op_place(rv.get("op", {})) if rv["k"] == "use" else None
            pj = place_proj(q) if q is not None else None
            td = m.defs().get(q["l"], []) if q is not None else []
            if not (pj and len(pj) == 1 and isinstance(pj[0], dict) and pj[0].get("f") == 0 and len(td) == 1 and td[0][0] == "assign"
                    and td[0][3]["rv"]["k"] == "bin" and td[0][3]["rv"]["op"] == "AddWithOverflow" and (op_const(td[0][3]["rv"]["b"]) or {}).get("int") == "1"):
                return False
            events.append(i)
        events += [i for i, t in m.calls() if t["callee"] in fam]
        for i in events:
            if m.in_loop(i):
                return False
            after = set()
            for s_ in m.succ(i):
                after |= m.reach_from(s_)
            if any(o in after for o in events):
                return False
    # every construction of the struct starts the counter at 0 (or leaves it to Default)
    for cb in F.bodies.values():
        for i, si, s in cb.assigns():
            rv = s["rv"]
            if rv["k"] == "agg" and rv.get("adt") == adt and name in (rv.get("fields") or []):
                k = op_const(rv["ops"][rv["fields"].index(name)])
                if cb.mac and cb.mac.startswith("derive:"):
                    continue
                if k is None or k.get("int") != "0":
                    return False
    # every call from outside the family: once per element of an in-memory sequence, on a local instance
    sites = [(cb, ci, ct) for cb, ci, ct in F.call_sites(lambda cal: cal in fam) if user_written(F, cb) and cb.id not in fam]
    if not sites:
        return False
    for cb, ci, ct in sites:
        r = root_of_operand(cb, ct["args"][0])
        if not r:
            return False
        if cb.kind == "closure" and cb.parent in F.bodies:
            # the closure is called once per element by for_each / try_for_each / map of an in-memory iterator, the instance is
            # captured from a local of the parent, and the closure calls the method once
            pb = F.bodies[cb.parent]
            if r[0] != 1 or cb.in_loop(ci):
                return False
            after = set()
            for s_ in cb.succ(ci):
                after |= cb.reach_from(s_)
            if ci in after or any(t2["callee"] in fam and j != ci for j, t2 in cb.calls()):
                return False
            used = False
            for pi, pt in pb.calls():
                if parse_callee(pt["callee"])[2] in ("for_each", "try_for_each", "map", "filter_map", "flat_map") and len(pt["args"]) >= 2:
                    p2 = op_place(pt["args"][1])
                    d2 = pb.defs().get(p2["l"], []) if p2 is not None else []
                    if any(d[0] == "assign" and d[3]["rv"]["k"] == "closure" and d[3]["rv"]["id"] == cb.id for d in d2):
                        aty = " ".join(pt.get("aty") or [])
                        if ("IntoIter" in aty or "slice::iter::Iter" in aty or "Enumerate" in aty) and not pb.in_loop(pi):
                            used = True
            if not used:
                return False
            continue
        if r[0] <= cb.argc:
            return False
        inner = [(h, bl) for h, bl in cb.loops() if ci in bl]
        if not inner:
            return False
        h, bl = min(inner, key=lambda x: len(x[1]))
        if not any(parse_callee(cb.term(x).get("callee", ""))[2] == "next" for x in bl if cb.term(x)["k"] == "call"):
            return False
        after = set()
        for s_ in cb.succ(ci):
            after |= cb.reach_from(s_, removed_blocks=(h,))
        if ci in after:
            return False
    return True


def _is_count_of(t):
    return isinstance(t, tuple) and t and t[0] == "call" and parse_callee(t[1])[2] in ("count", "len")


def _same_sequence(cnt, idx):
    """cnt = count(chars(X)) / len(X) and idx = enumerate(chars(X)).next().0 over the same X"""
    def base(t):
        for _ in range(24):
            if not (isinstance(t, tuple) and t):
                break
            if t[0] == "call" and parse_callee(t[1])[2] in ("count", "len", "chars", "iter", "enumerate", "next", "bytes", "char_indices", "into_iter") and t[2]:
                t = t[2][0]
            elif t[0] in ("some", "field") and len(t) >= 2:
                t = t[1]
            elif t[0] == "var" and len(t) > 2:
                t = t[2]
            else:
                break
        return t
    return base(cnt) == base(idx) and base(cnt) is not None


def _year_param_from_taxperiod(F, b, term):
    """term is a parameter of b (or a parameter of the enclosing function captured by the closure b) and every
    user-written caller passes `TaxPeriod::start_year(..)`"""
    fn, k = b, None
    if isinstance(term, tuple) and term and term[0] == "param" and b.kind != "closure":
        k = term[1]
    elif b.kind == "closure" and b.parent in F.bodies:
        # captured by value or by reference: (*env).j — find what the parent stored there
        u = None
        t = term
        while isinstance(t, tuple) and t and t[0] == "field":
            if isinstance(t[1], tuple) and t[1] and t[1][0] == "param" and t[1][1] == 0:
                u = t[2]
            t = t[1]
        if u is None:
            return False
        pb = F.bodies[b.parent]
        ptb = Terms(F, pb, inline_depth=0)
        for i, si, s in pb.assigns():
            if s["rv"]["k"] == "closure" and s["rv"]["id"] == b.id:
                try:
                    cap = ptb.operand(s["rv"]["ops"][int(u)])
                except (ValueError, IndexError):
                    return False
                if isinstance(cap, tuple) and cap and cap[0] == "param":
                    fn, k = pb, cap[1]
    if k is None:
        return False
    sites = [(cb, ct) for cb, ci, ct in F.call_sites(lambda cal, fid=fn.id: cal == fid) if user_written(F, cb)]
    if not sites:
        return False
    for cb, ct in sites:
        a = Terms(F, cb, inline_depth=0).operand(ct["args"][k])
        if not any(isinstance(x, tuple) and x and x[0] == "call" and x[1].endswith("TaxPeriod::start_year") for x in subterms(a)):
            return False
    return True


def _guarded_counter(b, tb, var_term):
    return False


def _dominated_by_lt_len(b, tb, bb, local):
    """block bb is edge-dominated by the true edge of `local < len(...)`"""
    name = b.local_name(local)
    for s in b.reachable():
        t = b.term(s)
        if t["k"] != "switch":
            continue
        cond = tb.operand(t["discr"])
        if not (isinstance(cond, tuple) and cond and cond[0] == "bin" and cond[1] == "Lt"):
            continue
        lhs, rhs = cond[2], cond[3]
        if not (_mentions_var(lhs, name)):
            continue
        if not _is_len(rhs):
            continue
        # true edge = otherwise (switch on bool: 0 -> false target)
        true_t = t["otherwise"]
        if b.edge_dominates((s, true_t), bb):
            return True
    return False


def _mentions_var(t, name):
    if isinstance(t, tuple) and t and t[0] == "var" and t[1] == name:
        return True
    if isinstance(t, tuple) and t and t[0] == "phi":
        return any(_mentions_var(x, name) for x in t[1])
    return False


def _is_len(t):
    if isinstance(t, tuple) and t:
        if t[0] == "call" and parse_callee(t[1])[2] == "len":
            return True
        if t[0] == "un" and t[1] == "PtrMetadata":
            return True
    return False


def _discharge_assert(F, b, tb, i, t, msg, ops):
    if msg in ("DivisionByZero", "RemainderByZero"):
        d = divisor_of(b, t)
        if d is not None:
            k = op_const(d)
            if k is not None and "int" in k and int(k["int"]) != 0:
                return f"constant divisor {k['int']}"
        return None
    if msg in ("Overflow(Rem)", "Overflow(Div)"):
        k = op_const(t["ops"][1])
        if k is not None and "int" in k and int(k["int"]) not in (0, -1):
            return f"constant divisor {k['int']} (MIN / -1 impossible)"
        return None
    if msg == "BoundsCheck":
        # ops = [len, index]; index must be dominated by an `index < len` guard with no intervening write
        idx = t["ops"][1]
        p = op_place(idx)
        k = op_const(idx)
        if p is not None and _bounds_guard(b, tb, i, p["l"], _len_container(tb.operand(t["ops"][0]))):
            return "dominated by `index < len` of the indexed container on the same counter"
        kt = tb.operand(idx)
        if isinstance(kt, tuple) and kt and kt[0] == "int":
            # slice[K] in a function that receives the slice: the assert's own length operand names the container
            cont = _len_container(tb.operand(t["ops"][0]))
            if cont is not None and _len_guard_const(b, tb, i, None, kt[1], cont_term=cont):
                return f"constant index {kt[1]} under a dominating length test on the same slice"
            why = _window_element(F, b, cont, kt[1])
            if why:
                return why
        why = _callers_guard_index(F, b, tb, idx, _len_container(tb.operand(t["ops"][0])))
        if why:
            return why
        return None
    if msg.startswith("Overflow(Add)") or msg.startswith("Overflow(Sub)"):
        tys = [_op_ty(b, o) for o in t["ops"]]
        if tys[0] == "?" and len(tys) > 1 and tys[1] not in ("?", ""):
            tys[0] = tys[1]     # both operands of a checked +/- have one type
        a, c = ops
        if isinstance(a, tuple) and isinstance(c, tuple) and a[:1] == ("int",) and c[:1] == ("int",):
            # both operands are compile-time constants (`MAX_LEN - 3`): the result is known
            r = a[1] + c[1] if msg.startswith("Overflow(Add)") else a[1] - c[1]
            ty = tys[0]
            w = 64 if ty in ("usize", "isize") else _WIDTH.get(ty)
            if w:
                lo, hi = (-(2 ** (w - 1)), 2 ** (w - 1) - 1) if ty.startswith("i") else (0, 2 ** w - 1)
                if lo <= r <= hi:
                    return f"both operands are constants ({a[1]}, {c[1]}): the result {r} fits {ty}"
        if tys[0] == "usize":
            if msg.startswith("Overflow(Add)") and _find_position(a) is not None and _small_const_len(c) is not None and 0 <= _small_const_len(c) <= 4096:
                return "position returned by str::find (≤ len ≤ isize::MAX) plus a small constant"
            if msg.startswith("Overflow(Add)") and _is_index_like(b, tb, t["ops"][0], a) and _is_index_like(b, tb, t["ops"][1], c):
                return "usize operands bounded by the length of a live allocation (≤ isize::MAX each)"
            if msg.startswith("Overflow(Add)") and c == ("int", 1) and _field_event_counter(F, b, a):
                return "event counter kept in a struct field: starts at 0, grows by 1 at most once per call, and the only caller invokes the method at most once per iteration of a loop over an in-memory collection, on a local instance"
            if msg.startswith("Overflow(Add)") and c == ("int", 1) and _iteration_counter(b, t["ops"][0]):
                return "event counter: starts at a constant and grows by 1 at most once per iteration of a loop over an in-memory collection (≤ isize::MAX iterations)"
            if msg.startswith("Overflow(Sub)") and _is_count_of(a) and isinstance(c, tuple) and c[0] == "field" and c[2] == "0" and _same_sequence(a, c):
                return "count − enumerate index of the same sequence (index < count)"
            if msg.startswith("Overflow(Sub)"):
                # len(X) - i where i is the enumerate index over X
                if _is_len(a) and isinstance(c, tuple) and c[0] == "field" and c[2] == "0":
                    return "len − enumerate index of the same sequence (index < len)"
            return None
        if tys[0] in ("i64", "i128", "u64", "u128", "i32") and c[0] == "int" and abs(c[1]) <= 1 and _widened(b, t["ops"][0], tys[0]):
            return "operand was widened from a narrower integer type, so ±1 cannot overflow"
        if tys[0] in ("i32", "i64") and c[0] == "int" and abs(c[1]) <= 1:
            if _chrono_year(b, tb, i, t["ops"][0], a):
                return "operand is a chrono year (|y| ≤ 262 143): taken from Datelike::year or already accepted by from_ymd_opt on a dominating edge"
            return None
        if tys[0] == "u16" and c[0] == "int" and c[1] == 1:
            if _taxperiod_field(b, a, tb):
                return "TaxPeriod invariant 1900 ≤ start_year ≤ 2100 (constructor checked, C07-R2)"
            if _year_param_from_taxperiod(F, b, a):
                return "u16 parameter that every workspace caller fills with TaxPeriod::start_year() (≤ 2100, C07-R2)"
            return None
    return None


_WIDTH = {"u8": 8, "i8": 8, "u16": 16, "i16": 16, "u32": 32, "i32": 32, "u64": 64, "i64": 64, "u128": 128, "i128": 128}


def _callers_guard_index(F, b, tb, idx_op, cont):
    """`xs[i]` where i and xs are both PARAMETERS of a workspace function: every workspace call site passes (X, j) with the call
    dominated by `j < len(X)` on the same X, j not written in between"""
    if b.kind not in ("fn", "method") or not (isinstance(cont, tuple) and cont and cont[0] == "param"):
        return None
    pi = named_root(b, idx_op)
    if pi is None or not (1 <= pi <= b.argc) or pi in getattr(b, "mutated", {}) or b.defs().get(pi):
        return None
    qi = cont[1] + 1
    sites = _user_call_sites(F, b)
    if not sites:
        return None
    for cb, ci, ct in sites:
        if len(ct["args"]) < max(pi, qi):
            return None
        ctb = Terms(F, cb, inline_depth=0)
        j = named_root(cb, ct["args"][pi - 1])
        if j is None:
            return None
        x = _strip_refs(ctb.operand(ct["args"][qi - 1]))
        if not _dominated_by_lt_len_fresh(cb, ctb, ci, j, x):
            return None
    return f"index and slice are parameters: each of the {len(sites)} workspace call sites passes an index tested `< len` of the slice it passes"


def _scan_helper_range(F, b, tb, site_bb, range_op, cont_term):
    """`c[s..e]` with `e = scan(c, s)` where scan is a scan helper (scan_summary): s ≤ e ≤ len(c), given s < len(c) at the call (dominating
    guard on the same container) and s not written between the call and the slice"""
    rl = _range_locals(b, range_op)
    if rl is None or rl[0] is None or rl[1] is None:
        return None
    s_, e_, _ = rl
    ds = b.defs().get(e_, [])
    if len(ds) != 1:
        return None
    d = ds[0]
    call_t = None
    if d[0] == "call":
        call_t, call_bb = d[2], d[1]
    elif d[0] == "assign" and d[3]["rv"]["k"] == "use":
        q = op_place(d[3]["rv"]["op"])
        qd = b.defs().get(q["l"], []) if q is not None and not place_proj(q) else []
        if len(qd) == 1 and qd[0][0] == "call":
            call_t, call_bb = qd[0][2], qd[0][1]
    if call_t is None:
        return None
    h = F.bodies.get(call_t["callee"])
    sm = scan_summary(F, h)
    if sm is None:
        return None
    slc, start = sm
    if len(call_t["args"]) < max(slc, start) or named_root(b, call_t["args"][start - 1]) != s_:
        return None
    x = _strip_refs(tb.operand(call_t["args"][slc - 1]))
    if not _same_container(x, cont_term):
        return None
    if not _dominated_by_lt_len_fresh(b, tb, call_bb, s_, x):
        return None
    if not b.dominates(call_bb, site_bb):
        return None
    for w in b.defs().get(s_, []):
        # a write of s between the call and the slice would break s ≤ e
        if w[1] != call_bb and site_bb in b.reach_from(w[1], removed_blocks=(call_bb,)) and w[1] in b.reach_from(call_bb) and w[1] != site_bb:
            return None
    return f"scan slice s..e with e = {h.short}(c, s): the helper starts at s and only steps under `< len(c)`, and s < len(c) at the call"


def _window_element(F, b, cont, n):
    """`w[n]` in a closure whose parameter is an item of `slice.windows(K)` / `chunks_exact(K)` with a constant K > n"""
    if b.kind != "closure" or b.parent not in F.bodies:
        return None
    c = cont
    while isinstance(c, tuple) and c and c[0] in ("field", "deref", "ref") and len(c) > 1 and isinstance(c[1], tuple):
        c = c[1]
    if not (isinstance(c, tuple) and c and c[0] == "param" and c[1] >= 1):
        return None
    pb = F.bodies[b.parent]
    ptb = Terms(F, pb, inline_depth=0)
    for i, t in pb.calls():
        if parse_callee(t["callee"])[2] not in _ELEMENT_ADAPTERS or len(t["args"]) < 2:
            continue
        clo = ptb.operand(t["args"][1])
        if not (isinstance(clo, tuple) and clo and clo[0] == "closure" and clo[1] == b.id):
            continue
        recv = ptb.operand(t["args"][0])
        for x in subterms(recv):
            if isinstance(x, tuple) and x and x[0] == "call" and parse_callee(x[1])[2] in ("windows", "chunks_exact", "rchunks_exact") and len(x[2]) == 2 \
                    and isinstance(x[2][1], tuple) and x[2][1][:1] == ("int",) and x[2][1][1] > n:
                return f"constant index {n} into an item of {parse_callee(x[1])[2]}({x[2][1][1]}) (every item has exactly that many elements)"
    return None


def _widened(b, op, ty):
    p = op_place(op)
    if p is None or place_proj(p):
        return False
    l = p["l"]
    for _ in range(6):
        ds = b.defs().get(l, [])
        if len(ds) != 1:
            return False
        d = ds[0]
        if d[0] == "call":
            st, tr, m = parse_callee(d[2]["callee"])
            if m == "from" and st in _WIDTH and tr and "From<" in tr:
                src = tr.split("From<", 1)[1].rstrip(">")
                return src in _WIDTH and _WIDTH[src] < _WIDTH[st]
            return False
        rv = d[3]["rv"]
        if rv["k"] == "cast":
            q = op_place(rv["op"])
            if q is not None and not place_proj(q):
                src = b.local_ty(q["l"])
                return src in _WIDTH and ty in _WIDTH and _WIDTH[src] < _WIDTH[ty]
            return False
        if rv["k"] == "use":
            q = op_place(rv["op"])
            if q is None or place_proj(q):
                return False
            l = q["l"]
            continue
        return False
    return False


def _op_ty(b, o):
    p = op_place(o)
    if p is not None and not place_proj(p):
        return b.local_ty(p["l"])
    k = op_const(o)
    if k is not None:
        return k.get("ty", "")
    if p is not None:
        # a projected place: the other operand of a checked arithmetic op has the same type
        return "?"
    return ""


def _bounds_guard(b, tb, bb, idx_local, cont=None):
    name = b.local_name(idx_local)
    # the index operand is usually a fresh copy of the counter: find the counter it copies
    src = idx_local
    defs = b.defs().get(idx_local, [])
    if len(defs) == 1 and defs[0][0] == "assign" and defs[0][3]["rv"]["k"] == "use":
        q = op_place(defs[0][3]["rv"]["op"])
        if q is not None and not place_proj(q):
            src = q["l"]
    return _dominated_by_lt_len_fresh(b, tb, bb, src, cont)


def _same_container(x, y):
    """two container terms name the same allocation: equal after stripping references / derefs (Vec vs its slice)"""
    def norm(t):
        t = _strip_refs(t)
        while isinstance(t, tuple) and t and t[0] == "call" and parse_callee(t[1])[2] in ("deref", "as_slice", "as_ref", "borrow") and t[2]:
            t = _strip_refs(t[2][0])
        return t
    return norm(x) == norm(y)


def _dominated_by_lt_len_fresh(b, tb, bb, local, cont=None):
    for s in b.reachable():
        t = b.term(s)
        if t["k"] != "switch":
            continue
        p = op_place(t["discr"])
        if p is None:
            continue
        cd = b.defs().get(p["l"], [])
        if len(cd) != 1 or cd[0][0] != "assign":
            continue
        rv = cd[0][3]["rv"]
        if rv["k"] != "bin" or rv["op"] != "Lt":
            continue
        a = op_place(rv["a"])
        if a is None:
            continue
        # a is a copy of the counter
        al = a["l"]
        ad = b.defs().get(al, [])
        if al != local:
            if not (len(ad) == 1 and ad[0][0] == "assign" and ad[0][3]["rv"]["k"] == "use"
                    and (op_place(ad[0][3]["rv"]["op"]) or {}).get("l") == local):
                continue
        rhs = tb.operand(rv["b"])
        if not _is_len(rhs):
            continue
        if cont is not None and not _same_container(_len_container(rhs), cont):
            if os.environ.get("VERIF_DBG_CONT"):
                print("DBG container mismatch", b.short, _len_container(rhs), "vs", cont)
            continue
        true_t = t["otherwise"]
        if not b.edge_dominates((s, true_t), bb):
            continue
        # no write to the counter between the guard's true edge and the use
        between = b.reach_from(true_t, removed_blocks=(s,))
        can_reach = {x for x in between if bb in b.reach_from(x, removed_blocks=(s,))}
        writes = [d for d in b.defs().get(local, []) if d[1] in can_reach and d[1] != bb]
        if not writes:
            return True
    return False


def _chrono_year(b, tb, bb, op, term):
    for x in subterms(term):
        if isinstance(x, tuple) and x and x[0] == "call" and parse_callee(x[1])[2] == "year" and "Datelike" in x[1] or \
                (isinstance(x, tuple) and x and x[0] == "call" and x[1].endswith("::year") and "chrono" in x[1]):
            return True
    # dominated by success of from_ymd_opt(<same operand>, …) — directly, or inside a workspace helper that is
    # handed the same operand and passes its parameter to from_ymd_opt
    F = tb.facts
    for i, t in b.calls():
        hit = False
        if t["callee"].endswith("NaiveDate::from_ymd_opt") and t["args"]:
            hit = tb.operand(t["args"][0]) == term
        elif t["callee"] in F.bodies:
            cb = F.bodies[t["callee"]]
            for k, a in enumerate(t["args"]):
                if tb.operand(a) == term and k < cb.argc:
                    ctb = Terms(F, cb, inline_depth=0)
                    for _, u in cb.calls():
                        if u["callee"].endswith("NaiveDate::from_ymd_opt") and u["args"] and ctb.operand(u["args"][0]) == ("param", k, cb.local_name(k + 1)):
                            hit = "Result" in cb.ret or "Option" in cb.ret
        if hit and b.dominates(i, bb) and i != bb and _passes_success_edge(b, i, bb):
            return True
    return False


def _passes_success_edge(b, call_bb, use_bb):
    """between call_bb and use_bb there is a switch one of whose arms leaves the function (the failure arm)"""
    seen = b.reach_from(call_bb)
    for s in seen:
        t = b.term(s)
        if t["k"] == "switch" and b.dominates(call_bb, s) and b.dominates(s, use_bb) and s != use_bb:
            for tgt in b.succ(s):
                if use_bb not in b.reach_from(tgt):
                    return True
    return False


def _taxperiod_field(b, term, tb=None):
    t = term
    # a pure accessor of the validated field (`self.start_year()`), seen through its summary
    if tb is not None and isinstance(t, tuple) and t and t[0] == "call" and t[1] in tb.facts.bodies and len(t[2]) == 1:
        from mir import summary, subst
        s = summary(tb.facts, t[1], 1)
        if s is not None:
            t = subst(s, list(t[2]))
    if isinstance(t, tuple) and t and t[0] == "field" and t[2] == "0":
        base = t[1]
        if isinstance(base, tuple) and base and base[0] == "param":
            return "TaxPeriod" in b.local_ty(base[1] + 1)
    return False


# --------------------------------------------------------------------------- Index::index calls

def index_sites(F, bodies):
    """yield (body, bb, term, container-type, index-term, discharge-or-None) for Index/IndexMut calls"""
    for b in bodies:
        if not user_written(F, b):
            continue
        tb = None
        for i, t in b.calls():
            if not INDEX_CALLEE.search(t["callee"]):
                continue
            if site_is_external(b, t):
                continue
            tb = tb or Terms(F, b, inline_depth=0)
            cont = (t.get("aty") or ["?"])[0]
            ity = (t.get("aty") or ["?", "?"])[1] if len(t.get("aty") or []) > 1 else "?"
            idx = tb.operand(t["args"][1]) if len(t["args"]) > 1 else ("unknown",)
            yield b, i, t, cont, ity, idx, _discharge_index(F, b, tb, i, t, cont, ity, idx)


def _find_position(t):
    """t is the position returned by `hay.find(NEEDLE)` with a constant str needle -> (hay term, needle) else None"""
    if isinstance(t, tuple) and t and t[0] == "some" and isinstance(t[1], tuple) and t[1] and t[1][0] == "call" \
            and parse_callee(t[1][1])[2] in ("find", "rfind") and len(t[1][2]) == 2:
        hay, needle = t[1][2]
        if isinstance(needle, tuple) and needle and needle[0] == "str" and isinstance(needle[1], str):
            return hay, needle[1]
    return None


def _small_const_len(t):
    """an integer constant, or the byte length of a constant str (`NEEDLE.len()`) -> int, else None"""
    if isinstance(t, tuple) and t:
        if t[0] == "int":
            return t[1]
        if t[0] == "call" and parse_callee(t[1])[2] == "len" and len(t[2]) == 1 and isinstance(t[2][0], tuple) and t[2][0] and t[2][0][0] == "str" \
                and isinstance(t[2][0][1], str):
            return len(t[2][0][1].encode("utf-8"))
    return None


def _after_needle(idx_term, cont_term):
    """`&hay[pos + K ..]` / `&hay[.. pos]` / `&hay[pos ..]` where pos = hay.find(NEEDLE) on the SAME hay: in bounds and on a char
    boundary iff K ≤ len(NEEDLE) bytes and NEEDLE[..K] ends on a char boundary (any K for an ASCII needle)"""
    if not (isinstance(idx_term, tuple) and idx_term and idx_term[0] == "agg" and idx_term[1].startswith("core::ops::range::Range")):
        return None
    for name, v in idx_term[3]:
        k = 0
        base = v
        if isinstance(v, tuple) and v and v[0] == "bin" and v[1] == "Add" and _small_const_len(v[3]) is not None:
            base, k = v[2], _small_const_len(v[3])
        fp = _find_position(base)
        if fp is None:
            return None
        hay, needle = fp
        if _strip_refs(hay) != _strip_refs(cont_term):
            return None
        nb = needle.encode("utf-8")
        if k > len(nb):
            return None
        try:
            nb[:k].decode("utf-8")
        except UnicodeDecodeError:
            return None
    return "bounds are the position of a constant needle found in the same str, advanced by at most the needle's own length"


def _range_locals(b, op):
    """the named locals that are the start and end of the Range aggregate an operand holds"""
    p = op_place(op)
    if p is None or place_proj(p):
        return None
    l = p["l"]
    for _ in range(6):
        ds = b.defs().get(l, [])
        if len(ds) != 1 or ds[0][0] != "assign":
            return None
        rv = ds[0][3]["rv"]
        if rv["k"] == "agg" and rv["adt"].startswith("core::ops::range::Range") and len(rv["ops"]) == 2:
            return named_root(b, rv["ops"][0]), named_root(b, rv["ops"][1]), ds[0][1]
        if rv["k"] == "use":
            q = op_place(rv["op"])
            if q is None or place_proj(q):
                return None
            l = q["l"]
            continue
        return None
    return None


def _scan_range(b, tb, site_bb, range_op):
    """`c[s..e]` in a scan `while s < len { let mut e = s; while e < len && .. { e += 1 } .. c[s..e] .. ; s = e }`:
    both ends are counters that never exceed a length (constants, copies of such counters, +1 only under `self < len`), `e` is
    initialised from `s` on every way to the slice and only grows, and `s` is not written between that initialisation and the
    slice — so s ≤ e ≤ len. Anything else (`e + 1`, an unrelated start) is not recognised."""
    rl = _range_locals(b, range_op)
    if rl is None or rl[0] is None or rl[1] is None:
        return None
    s, e, _ = rl
    if s == e or not counter_ok(b, tb, s) or not counter_ok(b, tb, e):
        return None
    inits = []
    for d in b.defs().get(e, []):
        if d[0] != "assign" or d[3]["rv"]["k"] != "use":
            return None
        op = d[3]["rv"]["op"]
        if op_const(op) is not None:
            return None             # a constant start of e says nothing about s ≤ e
        if named_root(b, op) == s:
            inits.append(d[1])
    if len(inits) != 1 or not b.dominates(inits[0], site_bb):
        return None
    for d in b.defs().get(s, []):
        if d[1] == inits[0]:
            continue
        # a write of s must not reach the slice without passing the (re-)initialisation of e
        if d[0] == "assign" and op_const(d[3]["rv"].get("op", {})) is not None and b.dominates(d[1], inits[0]) and d[1] != site_bb:
            continue
        if site_bb in b.reach_from(d[1], removed_blocks=(inits[0],)):
            return None
    return "scan slice s..e: both ends are length-bounded counters, e starts at s on every way here and only grows"


def _discharge_index(F, b, tb, i, t, cont, ity, idx):
    if "Range<usize>" in ity and len(t["args"]) > 1:
        why = _scan_range(b, tb, i, t["args"][1])
        if why:
            return why
        why = _scan_helper_range(F, b, tb, i, t["args"][1], _strip_refs(tb.operand(t["args"][0])))
        if why:
            return why
    if cont.endswith("str") and "Range" in ity:
        why = _after_needle(idx, tb.operand(t["args"][0]))
        if why:
            return why
    if ity == "usize":
        k = op_const(t["args"][1])
        p = op_place(t["args"][1])
        if k is not None and "int" in k:
            n = int(k["int"])
            # v[0] dominated by a non-empty / len test
            if _len_guard_const(b, tb, i, t["args"][0], n, cont_term=_strip_refs(tb.operand(t["args"][0]))):
                return f"constant index {n} under a dominating length test on the same container"
            if b.kind == "closure" and b.parent in F.bodies:
                # container captured from the parent: the closure is created under the length test there
                r = root_of_operand(b, t["args"][0])
                pb = F.bodies[b.parent]
                if r and r[0] == 1 and r[1]:
                    for pi, psi, ps in pb.assigns():
                        rv = ps["rv"]
                        if rv["k"] == "closure" and rv["id"] == b.id:
                            try:
                                cap = rv["ops"][int(r[1][0])] if r[1][0].isdigit() else None
                            except (IndexError, ValueError):
                                cap = None
                            if cap is not None:
                                ptb = Terms(F, pb, inline_depth=0)
                                if _len_guard_const(pb, ptb, pi, cap, n, cont_term=_strip_refs(ptb.operand(cap))):
                                    return (f"constant index {n}: the closure is created in {pb.short} under a dominating "
                                            "length test on the captured container")
            return None
        if p is not None and _bounds_guard(b, tb, i, p["l"], _strip_refs(tb.operand(t["args"][0]))):
            return "dominated by `index < len` of the indexed container on the same counter"
        return None
    return None


def _strip_refs(t):
    while isinstance(t, tuple) and t and t[0] in ("ref", "deref", "addr") and len(t) >= 2 and isinstance(t[-1], tuple):
        t = t[-1]
    return t


def _len_container(t):
    """the container whose length the term is (`len(x)` call or the PtrMetadata of a slice), references stripped"""
    if isinstance(t, tuple) and t:
        if t[0] == "call" and parse_callee(t[1])[2] == "len" and t[2]:
            return _strip_refs(t[2][0])
        if t[0] == "un" and t[1] == "PtrMetadata":
            return _strip_refs(t[2])
    return None


def _len_guard_const(b, tb, bb, cont_op, n, cont_term=None):
    for s in b.reachable():
        t = b.term(s)
        if t["k"] != "switch":
            continue
        cond = tb.operand(t["discr"])
        # is_empty() false edge
        if isinstance(cond, tuple) and cond and cond[0] == "call" and parse_callee(cond[1])[2] == "is_empty" \
                and (cont_term is None or (cond[2] and _strip_refs(cond[2][0]) == cont_term)):
            false_t = [tb_ for v, tb_ in t["targets"] if v == "0"]
            if false_t and n == 0 and b.edge_dominates((s, false_t[0]), bb):
                return True
        # len == k / len != k with k > n
        if isinstance(cond, tuple) and cond and cond[0] == "bin" and cond[1] in ("Eq", "Ne", "Gt", "Ge", "Lt"):
            lhs, rhs = cond[2], cond[3]
            if cont_term is not None and _len_container(lhs) != cont_term:
                continue
            if _is_len(lhs) and rhs[0] == "int":
                kk = rhs[1]
                if cond[1] == "Eq" and kk > n and b.edge_dominates((s, t["otherwise"]), bb):
                    return True
                if cond[1] == "Ne" and kk > n:
                    ft = [tb_ for v, tb_ in t["targets"] if v == "0"]
                    if ft and b.edge_dominates((s, ft[0]), bb):
                        return True
                if cond[1] == "Gt" and kk >= n and b.edge_dominates((s, t["otherwise"]), bb):
                    return True
                if cond[1] == "Ge" and kk > n and b.edge_dominates((s, t["otherwise"]), bb):
                    return True
    return False


# --------------------------------------------------------------------------- decimal overflow

def decimal_op_sites(F, bodies):
    """yield (body, bb, term) for Decimal operator-trait calls and sums (panic on overflow / ÷0)"""
    for b in bodies:
        if F.is_derive(b):
            continue
        for i, t in b.calls():
            cal = t["callee"]
            if is_decimal_arith(cal) or is_decimal_arith_assign(cal):
                yield b, i, t
            elif is_decimal_sum(cal) and any("Decimal" in g for g in (t.get("gargs") or []) + [t.get("dty", "")]):
                yield b, i, t


# --------------------------------------------------------------------------- Decimal division guards

def decimal_division_sites(F, bodies):
    """yield (body, bb, term, divisor-term, discharge-or-None) for Decimal `/`, `/=`, `%` in user-written code"""
    from roles import guards_of, truth
    for b in bodies:
        if not user_written(F, b):
            continue
        tb = None
        for i, t in b.calls():
            k = is_decimal_arith(t["callee"]) or is_decimal_arith_assign(t["callee"])
            if k not in ("Div", "DivAssign", "Rem", "RemAssign"):
                continue
            tb = tb or Terms(F, b, inline_depth=0)
            dv = tb.operand(t["args"][1])
            yield b, i, t, dv, _discharge_division(F, b, tb, i, t, dv)


def _nonzero_guard(cond, val, dv):
    """switch condition `cond` taking branch value `val` implies dv != 0"""
    from roles import truth
    tv = truth(val)
    z = ("const", "Decimal::ZERO")
    if isinstance(cond, tuple) and cond and cond[0] == "cmp":
        op, a, c = cond[1], cond[2], cond[3]
        if c == z and a == dv:
            pass
        elif a == z and c == dv:
            op = {"Lt": "Gt", "Gt": "Lt", "Le": "Ge", "Ge": "Le"}.get(op, op)
        else:
            return False
        if op == "Ne" and tv:
            return True
        if op == "Eq" and not tv:
            return True
        if op in ("Gt", "Lt") and tv:
            return True
        if op in ("Le", "Ge") and not tv:
            return True
        return False
    if isinstance(cond, tuple) and cond and cond[0] == "call" and parse_callee(cond[1])[2] == "is_zero" and cond[2] and cond[2][0] == dv:
        return not tv
    return False


def _discharge_division(F, b, tb, i, t, dv):
    from roles import guards_of
    for cond, val, s in guards_of(b, tb, i):
        if _nonzero_guard(cond, val, dv):
            return "dominated by a `divisor != 0` test on the same value"
    # the divisor is a parameter of a small helper: every caller must hand it a value it has tested `!= 0`
    if isinstance(dv, tuple) and dv and dv[0] == "param" and b.kind in ("fn", "method") and dv[1] < b.argc:
        sites = [(cb, ci, ct) for cb, ci, ct in F.call_sites(lambda cal, bid=b.id: cal == bid) if user_written(F, cb)]
        if sites:
            ok_all = True
            for cb, ci, ct in sites:
                ctb = Terms(F, cb, inline_depth=0)
                a = ctb.operand(ct["args"][dv[1]])
                ok = any(_nonzero_guard(cond, val, a) for cond, val, s in guards_of(cb, ctb, ci))
                if not ok and cb.kind == "closure" and cb.parent in F.bodies and isinstance(a, tuple) and len(a) == 3 and a[0] == "field" \
                        and isinstance(a[1], tuple) and a[1] and a[1][0] == "param" and a[1][1] == 0:
                    pb = F.bodies[cb.parent]
                    ptb = Terms(F, pb, inline_depth=0)
                    for pi, psi, ps in pb.assigns():
                        if ps["rv"]["k"] == "closure" and ps["rv"]["id"] == cb.id:
                            try:
                                cap = ptb.operand(ps["rv"]["ops"][int(a[2])])
                            except (ValueError, IndexError):
                                continue
                            ok = ok or any(_nonzero_guard(cond, val, cap) for cond, val, s in guards_of(pb, ptb, pi))
                ok_all = ok_all and ok
            if ok_all:
                return "the divisor is a parameter and every caller passes a value it tested `!= 0`"
    # inside a closure: the divisor is a captured value that the enclosing function tested before creating the closure
    if b.kind == "closure" and b.parent in F.bodies:
        u = None
        x = dv
        while isinstance(x, tuple) and x and x[0] == "field":
            if isinstance(x[1], tuple) and x[1] and x[1][0] == "param" and x[1][1] == 0:
                u = x[2]
            x = x[1]
        if u is not None and dv[0] == "field" and (dv[1] == ("param", 0, dv[1][2] if len(dv[1]) > 2 else None) or True):
            pb = F.bodies[b.parent]
            ptb = Terms(F, pb, inline_depth=0)
            for pi, psi, ps in pb.assigns():
                if ps["rv"]["k"] == "closure" and ps["rv"]["id"] == b.id:
                    try:
                        cap = ptb.operand(ps["rv"]["ops"][int(u)])
                    except (ValueError, IndexError):
                        continue
                    # only a capture used as the divisor itself (not a field of it)
                    if dv == ("field", dv[1], u) and isinstance(dv[1], tuple) and dv[1][0] == "param" and dv[1][1] == 0:
                        for cond, val, s in guards_of(pb, ptb, pi):
                            if _nonzero_guard(cond, val, cap):
                                return "the divisor is captured from the enclosing function, which tested it `!= 0` before creating the closure"
    # divisor read from an element of an iterator filtered on `field > 0`
    if isinstance(dv, tuple) and dv and dv[0] == "field":
        fname = dv[2]
        for x in subterms(dv):
            if isinstance(x, tuple) and x and x[0] == "var" and len(x) > 2:
                for y in subterms(x[2]):
                    if isinstance(y, tuple) and y and y[0] == "call" and parse_callee(y[1])[2] == "filter" and len(y[2]) == 2:
                        clo = y[2][1]
                        if isinstance(clo, tuple) and clo[0] == "closure" and clo[1] in F.bodies:
                            ct = Terms(F, F.bodies[clo[1]], inline_depth=0)
                            r = ct.local(0)
                            for z in subterms(r):
                                if isinstance(z, tuple) and z and z[0] == "cmp" and z[1] == "Gt" and z[3] == ("const", "Decimal::ZERO") and \
                                        isinstance(z[2], tuple) and z[2][0] == "field" and z[2][2] == fname:
                                    return f"the element comes from an iterator filtered on `{fname} > 0`"
        # …or from a local Vec that is only ever filled by pushes guarded by `element.field != 0`
        for x in subterms(dv):
            if isinstance(x, tuple) and x and x[0] == "var" and len(x) > 2 and isinstance(x[2], tuple) and x[2] and x[2][0] == "call" \
                    and x[2][1].endswith("Vec::<T>::new"):
                vname = x[1]
                pushes = []
                for j, u in b.calls():
                    if parse_callee(u["callee"])[2] in ("push", "insert", "extend", "append", "extend_from_slice", "push_within_capacity") and "Vec" in u["callee"]:
                        r = root_of_operand(b, u["args"][0])
                        if r and not r[1] and b.local_name(r[0]) == vname:
                            pushes.append((j, u))
                if pushes and all(parse_callee(u["callee"])[2] == "push" and
                                  any(_nonzero_guard(cond, val, ("field", tb.operand(u["args"][1]), fname)) for cond, val, s in guards_of(b, tb, j))
                                  for j, u in pushes):
                    return f"the element comes from a local Vec filled only by pushes guarded by `{fname} != 0`"
    return None


DISCARDING = ("ok", "unwrap_or", "unwrap_or_default", "unwrap_or_else", "is_ok", "is_err", "map_or", "map_or_else", "err")


def dropped_errors(F, bodies, crate_prefixes=("cgt_",)):
    """[(body, site, callee, how)] for every call of a workspace function returning `Result<_, E>` whose result is handed straight to a
    combinator that discards the error (`.ok()`, `.unwrap_or*()`, `.is_ok()`, `.map_or*()`): the refusal of the callee becomes an
    absence or a default in the caller, and whatever the caller was building goes on without the element"""
    from mir import Terms, parse_callee
    out = []
    class _Item:      # stands for "the items of the iterator" where the refused value is not one named function's result
        def __init__(self, short):
            self.short = short
    for b in bodies:
        tb = None
        for i, t in b.calls():
            m0 = parse_callee(t["callee"])[2]
            if m0 == "flat_map" and "iter::traits::iterator::Iterator" in t["callee"]:
                # `Result` is IntoIterator (0 or 1 item): flat_map over a closure returning Result<_, E> drops every Err silently
                ga = t.get("gargs") or []
                if len(ga) > 1 and ga[1].startswith("core::result::Result<") and any(p in ga[1] for p in crate_prefixes):
                    out.append((b, b.loc(t["sp"]), _Item("the closure (" + ga[1].split("<", 1)[1].rsplit(",", 1)[-1].strip(" >").split("::")[-1] + ")"), "flat_map"))
                continue
            if m0 == "flatten" and "iter::traits::iterator::Iterator" in t["callee"]:
                dty = t.get("dty") or ""
                tb = tb or Terms(F, b, inline_depth=0)
                src = tb.operand(t["args"][0]) if t.get("args") else None
                # the flattened items are Results when the adaptor below maps through a workspace function returning Result
                from mir import subterms as _st
                hs = [F.bodies.get(x[1]) for x in _st(src) if isinstance(x, tuple) and x and x[0] in ("call", "fnitem") and isinstance(x[1], str)] if src else []
                if "core::result::Result<" in dty and any(p in dty for p in crate_prefixes):
                    out.append((b, b.loc(t["sp"]), _Item("the iterator's items"), "flatten"))
                continue
            if "core::result::Result" not in t["callee"]:
                continue
            m = parse_callee(t["callee"])[2]
            if m not in DISCARDING or not t.get("args"):
                continue
            tb = tb or Terms(F, b, inline_depth=0)
            recv = tb.operand(t["args"][0])
            while isinstance(recv, tuple) and recv and recv[0] in ("ref", "deref") and len(recv) > 1:
                recv = recv[1]
            if isinstance(recv, tuple) and recv and recv[0] == "call":
                h = F.bodies.get(recv[1])
                if h is not None and any(h.crate.startswith(p) for p in crate_prefixes) and "Result<" in h.ret:
                    out.append((b, b.loc(t["sp"]), h, m))
    return out
