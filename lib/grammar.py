"""Static model of a pest grammar (AST from pest_meta): child-token languages under pest's implicit
skipping, nullable/alphabet computations, and a token-level matcher for symbolic strings (templates).
Nothing is parsed at run time by pest; this is language enumeration over the grammar AST."""

BUILTIN_SILENT = {"SOI", "ANY", "ASCII_DIGIT", "ASCII_ALPHA", "ASCII_ALPHANUMERIC", "ASCII_ALPHA_UPPER",
                  "ASCII_ALPHA_LOWER", "ASCII_HEX_DIGIT", "ASCII_NONZERO_DIGIT", "ASCII", "PEEK", "POP", "DROP"}


class Grammar:
    def __init__(self, gj):
        self.rules = {r["name"]: r for r in gj["rules"]}
        self.order = [r["name"] for r in gj["rules"]]
        self._seq = {}
        self._endc = {}
        self.unroll = 2          # iterations of an unbounded repetition that child_seqs enumerates beyond its minimum

    def ty(self, name):
        return self.rules[name]["ty"] if name in self.rules else "builtin"

    def is_atomic(self, name):
        return self.ty(name) in ("atomic", "compound_atomic")

    def emits_token(self, name):
        if name == "EOI":
            return True
        if name not in self.rules:
            return False
        return self.ty(name) != "silent"

    @property
    def comment_emits(self):
        return "COMMENT" in self.rules and self.rules["COMMENT"]["ty"] != "silent"

    @property
    def has_comment(self):
        return "COMMENT" in self.rules

    # ---- nullable
    def nullable(self, e, stack=()):
        k = e["k"]
        if k in ("str", "insens"):
            return e["s"] == ""
        if k == "range":
            return False
        if k == "ident":
            n = e["s"]
            if n in ("SOI", "EOI"):
                return True
            if n not in self.rules or n in stack:
                return False
            return self.nullable(self.rules[n]["expr"], stack + (n,))
        if k in ("pos", "neg"):
            return True
        if k == "seq":
            return self.nullable(e["a"], stack) and self.nullable(e["b"], stack)
        if k == "choice":
            return self.nullable(e["a"], stack) or self.nullable(e["b"], stack)
        if k == "opt":
            return True
        if k == "rep":
            return e["min"] == 0 or self.nullable(e["e"], stack)
        if k == "push":
            return self.nullable(e["e"], stack)
        return False

    def starts_eol(self, e, stack=()):
        """e can begin with a line break or EOI"""
        k = e["k"]
        if k == "ident":
            n = e["s"]
            if n in ("NEWLINE", "EOI"):
                return True
            if n in self.rules and n not in stack and self.rules[n]["ty"] == "silent":
                return self.starts_eol(self.rules[n]["expr"], stack + (n,))
            return False
        if k in ("str", "insens"):
            return e["s"][:1] in ("\n", "\r")
        if k == "seq":
            return self.starts_eol(e["a"], stack) or (self.nullable(e["a"]) and self.starts_eol(e["b"], stack))
        if k == "choice":
            return self.starts_eol(e["a"], stack) or self.starts_eol(e["b"], stack)
        if k in ("opt", "rep", "push"):
            return self.starts_eol(e["e"], stack)
        return False

    # ---- child token sequences of a non-atomic rule
    # result: set of (tuple(tokens), ended_with_comment: bool, unbounded: bool)
    def child_seqs(self, name):
        if name in self._seq:
            return self._seq[name]
        self._seq[name] = set()  # recursion guard
        r = self.rules[name]
        if self.is_atomic(name):
            res = {((), False)}
        else:
            res = self._seqs(r["expr"], (name,))
        self._seq[name] = res
        return res

    def can_end_with_comment(self, name):
        """a production of rule `name` consumes a trailing COMMENT in one of its own implicit skips"""
        if not self.has_comment or name not in self.rules or self.is_atomic(name):
            return False
        return any(c for _, c in self.child_seqs(name))

    def _seqs(self, e, stack):
        k = e["k"]
        if k in ("str", "insens", "range", "pos", "neg", "peek", "skip"):
            return {((), False)}
        if k == "ident":
            n = e["s"]
            if n == "EOI":
                return {(("EOI",), False)}
            if n in BUILTIN_SILENT or n not in self.rules:
                return {((), False)}
            if n in stack:
                return {((), False)}
            r = self.rules[n]
            if r["ty"] == "silent":
                if n in ("WHITESPACE",):
                    return {((), False)}
                return self._seqs(r["expr"], stack + (n,))
            out = {((n,), False)}
            if self.can_end_with_comment(n):
                out.add(((n,), True))
            if n == "COMMENT":
                # an explicit COMMENT reference is itself line-terminal
                out = {((n,), True)}
            return out
        if k == "seq":
            out = set()
            A = self._seqs(e["a"], stack)
            B = self._seqs(e["b"], stack)
            b_null = self.nullable(e["b"])
            b_eol = self.starts_eol(e["b"])
            cm = ("COMMENT",) if self.comment_emits else ()
            for s1, c1 in A:
                if c1:
                    # at end of line: the remainder must match empty or begin with a line break / EOI
                    if b_null:
                        for z in self._null_seqs(e["b"], stack):
                            out.add((s1 + z, True))
                    if b_eol:
                        for s2, c2 in B:
                            out.add((s1 + s2, c2))
                    continue
                for s2, c2 in B:
                    out.add((s1 + s2, c2))
                # a COMMENT swallowed by the implicit skip between a and b (it runs to the end of the line)
                if self.has_comment:
                    if b_null:
                        for z in self._null_seqs(e["b"], stack):
                            out.add((s1 + cm + z, True))
                    if b_eol:
                        for s2, c2 in B:
                            out.add((s1 + cm + s2, c2))
            return out
        if k == "choice":
            return self._seqs(e["a"], stack) | self._seqs(e["b"], stack)
        if k == "opt":
            return self._seqs(e["e"], stack) | {((), False)}
        if k == "rep":
            inner = self._seqs(e["e"], stack)
            lo = e["min"]
            hi = e["max"] if e["max"] is not None else max(lo, 0) + self.unroll
            cur = {((), False)}
            out = set()
            if lo == 0:
                out |= cur
            for n in range(1, hi + 1):
                nxt = set()
                for s1, c1 in cur:
                    for s2, c2 in inner:
                        # a comment-terminated iteration can be followed by further iterations only after a
                        # newline, which the repeated expression itself must consume; keep both
                        nxt.add((s1 + s2, c2))
                cur = nxt
                if n >= lo:
                    out |= cur
                if len(cur) > 5000:
                    break
            return out
        if k == "push":
            return self._seqs(e["e"], stack)
        return {((), False)}

    # ---- line-level language of a list rule: PEG acceptance of abstract words
    def peg_accepts(self, name, word):
        """Does rule `name` accept the abstract word (a list of line-level tokens)?  Tokens: 'N' for NEWLINE, 'COMMENT' for
        an explicit COMMENT reference, the rule name for every other token-emitting rule; silent rules are expanded; SOI/EOI
        test the position; "" matches empty and every other string terminal matches nothing.  Ordered choice and greedy
        repetition are evaluated the way a PEG does (no back-tracking into a successful repetition/option)."""
        n = len(word)
        implicit = "COMMENT" in self.rules

        def skip(pos):
            # pest inserts its implicit skip after every `~` and between repetitions of a non-atomic rule
            while implicit and pos < n and word[pos] == "COMMENT":
                pos += 1
            return pos

        def go(e, pos, stack):
            k = e["k"]
            if k in ("str", "insens"):
                return pos if e["s"] == "" else None
            if k == "ident":
                r = e["s"]
                if r == "SOI":
                    return pos if pos == 0 else None
                if r == "EOI":
                    return pos if pos == n else None
                if r == "NEWLINE":
                    return pos + 1 if pos < n and word[pos] == "N" else None
                if r == "COMMENT":
                    return pos + 1 if pos < n and word[pos] == "COMMENT" else None
                if r not in self.rules or r in stack:
                    return None
                if self.rules[r]["ty"] == "silent":
                    return go(self.rules[r]["expr"], pos, stack + (r,))
                return pos + 1 if pos < n and word[pos] == r else None
            if k == "seq":
                m = go(e["a"], pos, stack)
                return None if m is None else go(e["b"], skip(m), stack)
            if k == "choice":
                m = go(e["a"], pos, stack)
                return m if m is not None else go(e["b"], pos, stack)
            if k == "opt":
                m = go(e["e"], pos, stack)
                return pos if m is None else m
            if k == "rep":
                cnt = 0
                while e["max"] is None or cnt < e["max"]:
                    m = go(e["e"], skip(pos) if cnt else pos, stack)
                    if m is None or m == pos:
                        break
                    pos = m
                    cnt += 1
                return pos if cnt >= e["min"] or self.nullable(e["e"]) else None
            if k == "pos":
                return pos if go(e["e"], pos, stack) is not None else None
            if k == "neg":
                return pos if go(e["e"], pos, stack) is None else None
            if k == "push":
                return go(e["e"], pos, stack)
            return None
        return go(self.rules[name]["expr"], 0, (name,)) == n

    # ---- lexical language of a token rule: character-level PEG acceptance (no implicit skipping inside atomic rules)
    _CLASSES = {
        "ASCII_DIGIT": lambda ch: ch.isdigit() and ch.isascii(),
        "ASCII_NONZERO_DIGIT": lambda ch: ch in "123456789",
        "ASCII_ALPHA": lambda ch: ch.isascii() and ch.isalpha(),
        "ASCII_ALPHA_UPPER": lambda ch: ch.isascii() and ch.isalpha() and ch.isupper(),
        "ASCII_ALPHA_LOWER": lambda ch: ch.isascii() and ch.isalpha() and ch.islower(),
        "ASCII_ALPHANUMERIC": lambda ch: ch.isascii() and ch.isalnum(),
        "ASCII_HEX_DIGIT": lambda ch: ch in "0123456789abcdefABCDEF",
        "ASCII": lambda ch: ch.isascii(),
        "ANY": lambda ch: True,
    }

    def lex_accepts(self, name, s):
        """does token rule `name` match exactly the string s (PEG semantics, character level)?"""
        n = len(s)

        def go(e, pos, stack):
            k = e["k"]
            if k == "str":
                return pos + len(e["s"]) if s.startswith(e["s"], pos) else None
            if k == "insens":
                return pos + len(e["s"]) if s[pos:pos + len(e["s"])].lower() == e["s"].lower() else None
            if k == "range":
                return pos + 1 if pos < n and e["a"] <= s[pos] <= e["b"] else None
            if k == "ident":
                r = e["s"]
                if r == "SOI":
                    return pos if pos == 0 else None
                if r == "EOI":
                    return pos if pos == n else None
                if r in self._CLASSES and r not in self.rules:
                    return pos + 1 if pos < n and self._CLASSES[r](s[pos]) else None
                if r not in self.rules or r in stack:
                    return None
                return go(self.rules[r]["expr"], pos, stack + (r,))
            if k == "seq":
                m = go(e["a"], pos, stack)
                return None if m is None else go(e["b"], m, stack)
            if k == "choice":
                m = go(e["a"], pos, stack)
                return m if m is not None else go(e["b"], pos, stack)
            if k == "opt":
                m = go(e["e"], pos, stack)
                return pos if m is None else m
            if k == "rep":
                cnt = 0
                while e["max"] is None or cnt < e["max"]:
                    m = go(e["e"], pos, stack)
                    if m is None or m == pos:
                        break
                    pos = m
                    cnt += 1
                return pos if cnt >= e["min"] else None
            if k == "pos":
                return pos if go(e["e"], pos, stack) is not None else None
            if k == "neg":
                return pos if go(e["e"], pos, stack) is None else None
            if k == "push":
                return go(e["e"], pos, stack)
            return None
        return go(self.rules[name]["expr"], 0, (name,)) == n

    def strings_under(self, e, stack=()):
        """string terminals reachable as alternatives of e (through choices and rule references)"""
        k = e["k"]
        if k in ("str", "insens"):
            return [e["s"]]
        if k == "ident" and e["s"] in self.rules and e["s"] not in stack:
            return self.strings_under(self.rules[e["s"]]["expr"], stack + (e["s"],))
        if k == "choice":
            return self.strings_under(e["a"], stack) + self.strings_under(e["b"], stack)
        return []

    def _null_seqs(self, e, stack=()):
        """token sequences e emits while consuming no input (EOI matches empty but still emits its token)"""
        k = e["k"]
        if k in ("str", "insens"):
            return {()} if e["s"] == "" else set()
        if k == "ident":
            n = e["s"]
            if n == "EOI":
                return {("EOI",)}
            if n == "SOI":
                return {()}
            if n not in self.rules or n in stack:
                return set()
            inner = self._null_seqs(self.rules[n]["expr"], stack + (n,))
            if self.rules[n]["ty"] == "silent":
                return inner
            return {(n,)} if inner else set()
        if k in ("pos", "neg"):
            return {()}
        if k == "seq":
            return {a + b for a in self._null_seqs(e["a"], stack) for b in self._null_seqs(e["b"], stack)}
        if k == "choice":
            return self._null_seqs(e["a"], stack) | self._null_seqs(e["b"], stack)
        if k == "opt":
            return {()} | self._null_seqs(e["e"], stack)
        if k == "rep":
            return ({()} if e["min"] == 0 else set()) | self._null_seqs(e["e"], stack)
        if k == "push":
            return self._null_seqs(e["e"], stack)
        return set()

    def alphabet(self, name):
        toks = set()
        for s, _ in self.child_seqs(name):
            toks.update(s)
        return toks

    def has_unbounded_rep(self, name):
        def go(e):
            k = e["k"]
            if k == "rep" and e["max"] is None:
                return True
            return any(go(e[x]) for x in ("a", "b", "e") if isinstance(e.get(x), dict))
        return go(self.rules[name]["expr"])

    # ---- terminals
    def terminals(self):
        """yield (rule, kind, text) for every string terminal"""
        def go(rn, e):
            k = e["k"]
            if k in ("str", "insens"):
                yield rn, k, e["s"]
            for x in ("a", "b", "e"):
                if isinstance(e.get(x), dict):
                    yield from go(rn, e[x])
        for n in self.order:
            yield from go(n, self.rules[n]["expr"])

    def choice_list(self, e):
        if e["k"] == "choice":
            return self.choice_list(e["a"]) + self.choice_list(e["b"])
        return [e]

    def seq_list(self, e):
        if e["k"] == "seq":
            return self.seq_list(e["a"]) + self.seq_list(e["b"])
        return [e]


# --------------------------------------------------------------------------- consumer patterns

def arm_accepts(pattern, seq):
    """pattern: list of {rule, variadic}; seq: tuple of token names"""
    def go(pi, si):
        if pi == len(pattern):
            return si == len(seq)
        p = pattern[pi]
        if p.get("variadic"):
            k = si
            while True:
                if go(pi + 1, k):
                    return True
                if k < len(seq) and seq[k] == p["rule"]:
                    k += 1
                else:
                    return False
        return si < len(seq) and seq[si] == p["rule"] and go(pi + 1, si + 1)
    return go(0, 0)


# --------------------------------------------------------------------------- symbolic strings vs grammar

class Hole:
    def __init__(self, kind, term=None, label=""):
        self.kind = kind    # 'date' | 'decimal' | 'ticker' | 'code' | 'str:<const>' | 'text'
        self.term = term
        self.label = label

    def __repr__(self):
        return f"<{self.kind}:{self.label}>"


def tokenize(parts):
    """parts: list of str | Hole  ->  list of tokens (str word | Hole); None if two holes/words touch without space"""
    toks = []
    glued = False
    prev_space = True
    for p in parts:
        if isinstance(p, Hole):
            if not prev_space:
                glued = True
            toks.append(p)
            prev_space = False
        else:
            s = p
            i = 0
            while i < len(s):
                if s[i].isspace():
                    prev_space = True
                    i += 1
                    continue
                j = i
                while j < len(s) and not s[j].isspace():
                    j += 1
                if not prev_space:
                    glued = True
                toks.append(s[i:j])
                prev_space = False
                i = j
    return toks, glued


ATOM_KIND = {"date": "date", "ticker": "ticker", "quantity": "decimal", "ratio": "decimal", "decimal": "decimal",
             "currency_code": "code"}


class TokenMatcher:
    """matches a token list against a grammar rule at token granularity; returns derivations as nested
    (rule, [children]) trees where leaves are (atomic_rule, Hole|str)"""

    def __init__(self, g):
        self.g = g

    def match_rule(self, name, toks):
        res = []
        for end, tree in self._rule(name, toks, 0):
            if end == len(toks):
                res.append(tree)
        return res

    def _rule(self, name, toks, i):
        g = self.g
        r = g.rules[name]
        if g.is_atomic(name):
            if i < len(toks):
                t = toks[i]
                want = ATOM_KIND.get(name)
                if isinstance(t, Hole):
                    if want and (t.kind == want or (want == "decimal" and t.kind == "decimal")):
                        yield i + 1, (name, t)
                    elif t.kind.startswith("str:") and want == "code":
                        c = t.kind[4:]
                        if len(c) == 3 and c.isalpha():
                            yield i + 1, (name, t)
                    elif t.kind.startswith("str:") and want == "ticker" and t.kind[4:].isalnum():
                        yield i + 1, (name, t)
                else:
                    if want == "decimal" and t.replace(".", "", 1).isdigit():
                        yield i + 1, (name, t)
                    elif want == "code" and len(t) == 3 and t.isalpha():
                        yield i + 1, (name, t)
                    elif want == "ticker" and t.isalnum():
                        yield i + 1, (name, t)
            return
        for end, kids in self._expr(r["expr"], toks, i):
            if r["ty"] == "silent":
                yield end, ("_" + name, kids)
            else:
                yield end, (name, kids)

    def _expr(self, e, toks, i):
        k = e["k"]
        if k in ("str", "insens"):
            s = e["s"]
            if s == "":
                yield i, []
                return
            if i < len(toks):
                t = toks[i]
                lit = t.kind[4:] if isinstance(t, Hole) and t.kind.startswith("str:") else (t if isinstance(t, str) else None)
                if lit is not None:
                    if (k == "insens" and lit.upper() == s.upper()) or (k == "str" and lit == s):
                        yield i + 1, []
            return
        if k == "ident":
            n = e["s"]
            if n in ("SOI", "EOI"):
                yield i, []
                return
            if n not in self.g.rules:
                return
            for end, tree in self._rule(n, toks, i):
                if tree[0].startswith("_"):
                    yield end, tree[1]
                else:
                    yield end, [tree]
            return
        if k == "seq":
            for m, k1 in self._expr(e["a"], toks, i):
                for n, k2 in self._expr(e["b"], toks, m):
                    yield n, k1 + k2
            return
        if k == "choice":
            yield from self._expr(e["a"], toks, i)
            yield from self._expr(e["b"], toks, i)
            return
        if k == "opt":
            yield from self._expr(e["e"], toks, i)
            yield i, []
            return
        if k in ("pos", "neg"):
            yield i, []
            return
        if k == "rep":
            # token-level repetition is only needed for list rules; bounded expansion
            def rep(pos, n, acc):
                if n >= e["min"]:
                    yield pos, acc
                if e["max"] is not None and n >= e["max"]:
                    return
                if n > 64:
                    return
                for m, kk in self._expr(e["e"], toks, pos):
                    if m == pos:
                        continue
                    yield from rep(m, n + 1, acc + kk)
            yield from rep(i, 0, [])
            return
        return


def tree_children(tree):
    return [c[0] for c in tree[1]] if isinstance(tree[1], list) else []


def find_nodes(tree, name):
    out = []
    if tree[0] == name:
        out.append(tree)
    if isinstance(tree[1], list):
        for c in tree[1]:
            out += find_nodes(c, name)
    return out


# --------------------------------------------------------------------------- parser-source facts (srcfacts)

def consumers(S):
    """name -> fn facts of the pest_consume consumers, with two source-level normalisations so that extracting a helper
    does not hide anything from a rule: (1) a consumer that merely delegates to a local function containing the
    `match_nodes!` takes over that function's arms; (2) calls of local zero-argument functions whose body is one
    expression (`zero_gbp()`) are replaced by that expression inside the struct literals of every arm."""
    import copy
    import re as _re
    fns = {}
    for f in S["rust"]:
        for fn in f.get("fns", []):
            if fn["name"] not in fns or fn.get("impl"):
                fns[fn["name"]] = fn
    consts = {n: fn["tail"] for n, fn in fns.items() if fn.get("nargs") == 0 and fn.get("tail")}

    def inline(txt):
        def rep(m):
            return consts.get(m.group(1), m.group(0)) if m.group(1) in consts else m.group(0)
        return _re.sub(r"\b(?:Self\s*::\s*)?(\w+)\s*\(\s*\)", rep, txt)
    out = {}
    for name, fn in fns.items():
        fn = copy.deepcopy(fn)
        if not fn["match_nodes"] and not fn["rule_matches"]:
            for c in fn.get("calls", []):
                h = fns.get(c.split("::")[-1])
                if h is not None and h["name"] != name and h["match_nodes"] and h.get("nargs", 0) >= 1:
                    fn["match_nodes"] = copy.deepcopy(h["match_nodes"])
                    fn["delegated_to"] = h["name"]
                    break
        for m in fn["match_nodes"]:
            for a in m["arms"]:
                a["body"] = inline(a["body"])
                for st in a["structs"]:
                    st["fields"] = {k: inline(v) for k, v in st["fields"].items()}
        out[name] = fn
    return out
