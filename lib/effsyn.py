"""Effect synthesis: what one pass through a piece of code (typically one iteration of a row loop) does, path by path.

For every CFG path from `start` to one of `stops` / a return, with workspace helpers evaluated recursively (their
parameters bound to the caller's argument terms), the walk records
  * the branch conditions taken (with the enum type and variant name when the branch is a `match` on an enum),
  * every `push` / `extend` onto a Vec whose element type is tracked (vector and element as terms of the ROOT function),
  * increments of usize counters (`x += 1` on a named local or a struct field),
  * how the path ends (back at a stop block, a return with its value term).
Values are path-sensitive: every assignment on the path overrides the merged (φ) term of the local, so that
`let outcome = convert_row(row)?; state.record(outcome)` is followed arm by arm — a `match` on a value whose variant is
known on this path is folded instead of forked. Loops nested inside the region are not unrolled (effects inside them are
reported as happening an unknown number of times). Nothing is executed; terms are the same symbolic terms as everywhere
else in this code base.
"""
from mir import Terms, parse_callee, op_place, op_const, place_proj, subterms, mk_field, show
from flow import root_of_operand

MAX_ALTS = 600


class TooManyPaths(Exception):
    pass


class PathTerms(Terms):
    """Terms whose locals can be overridden by the values assigned on the path walked so far"""

    def __init__(self, facts, body, param_terms=None, over=None, base=None):
        super().__init__(facts, body, inline_depth=0, param_terms=param_terms)
        self.over = over if over is not None else {}
        # locals not assigned on the path keep their path-independent (merged) term: computed by a separate, memoising
        # builder so that path values never leak into a cached term
        self.base = base if base is not None else Terms(facts, body, inline_depth=0, param_terms=param_terms)

    def local(self, l):
        if l in self.over:
            return self.over[l]
        return self.base.local(l)


class Alt:
    def __init__(self, over=None, guards=None, pushes=None, counts=None, notes=None):
        self.over = dict(over or {})
        self.guards = list(guards or [])
        self.pushes = list(pushes or [])
        self.counts = list(counts or [])
        self.notes = list(notes or [])
        self.exit = None
        self.ret = None

    def fork(self):
        return Alt(self.over, self.guards, self.pushes, self.counts, self.notes)


class EffSyn:
    def __init__(self, F, tracked=lambda ty: True, place_type=None, helper_ok=None, max_depth=3):
        self.F = F
        self.tracked = tracked          # element-type predicate for Vec pushes
        self.place_type = place_type    # (F, body, place) -> enum adt path or ""
        self.helper_ok = helper_ok or (lambda hb: True)
        self.max_depth = max_depth
        self.n = 0

    # ---- public
    def run(self, body, start=0, stops=(), param_terms=None, depth=0):
        self.n = 0
        return self._run(body, start, tuple(stops), param_terms, depth)

    def _run(self, body, start, stops, param_terms, depth, guards=None):
        done = []
        pt = PathTerms(self.F, body, param_terms=param_terms)
        self._walk(body, pt, start, stops, Alt(guards=guards), done, depth, frozenset(), first=True)
        return done

    # ---- helpers
    def _variant_index(self, adt, vname):
        a = self.F.adts.get(adt)
        if not a:
            return None
        for i, v in enumerate(a["variants"]):
            if v["name"] == vname:
                return i
        return None

    def _fold(self, cond):
        """discriminant value of a term whose variant is known, else None"""
        if isinstance(cond, tuple) and cond and cond[0] == "discr":
            x = cond[1]
            if isinstance(x, tuple) and x and x[0] == "agg":
                if x[1].endswith("control_flow::ControlFlow"):
                    return {"Continue": 0, "Break": 1}.get(x[2])
                if x[1].endswith("result::Result"):
                    return {"Ok": 0, "Err": 1}.get(x[2])
                if x[1].endswith("option::Option"):
                    return {"None": 0, "Some": 1}.get(x[2])
                return self._variant_index(x[1], x[2])
        if isinstance(cond, tuple) and cond and cond[0] == "int":
            return cond[1]
        if isinstance(cond, tuple) and cond and cond[0] == "const" and cond[1] in ("true", "false"):
            return 1 if cond[1] == "true" else 0
        return None

    def _discr_info(self, body, bb, t):
        """(enum type, {value: variant name}) for a switch on a discriminant read in this block"""
        p = op_place(t["discr"])
        if p is None or self.place_type is None:
            return None, {}
        for st in reversed(body.stmts(bb)):
            if st.get("lhs", {}).get("l") == p["l"] and st.get("rv", {}).get("k") == "discr":
                ety = self.place_type(self.F, body, st["rv"]["p"])
                a = self.F.adts.get(ety)
                if a:
                    return ety, {str(i): v["name"] for i, v in enumerate(a["variants"])}
                return ety, {}
        return None, {}

    def _walk(self, body, pt, bb, stops, alt, done, depth, seen, first=False):
        loops = dict(body.loops())
        while True:
            if bb in stops and not first:
                alt.exit = "stop"
                self._finish(alt, done)
                return
            first = False
            if bb in seen:
                if bb in loops:
                    # an inner loop: not unrolled
                    alt.notes.append(("inner-loop", body.short, bb))
                    blks = loops[bb]
                    for x_ in blks:      # effects inside the loop happen an unknown number of times
                        tx_ = body.term(x_)
                        if tx_["k"] == "call" and parse_callee(tx_["callee"])[2] in ("push", "extend", "append", "insert") and "Vec" in tx_["callee"] \
                                and self.tracked(" ".join(tx_.get("aty") or [])):
                            alt.pushes.append(("loop-push", None, None, body.loc(tx_.get("sp")), " ".join(tx_.get("aty") or [])))
                    exits = sorted({t_ for s_ in blks for t_ in body.succ(s_) if t_ not in blks and body.term(t_)["k"] != "unreachable"})
                    if not exits:
                        alt.exit = "diverges"
                        self._finish(alt, done)
                        return
                    for e in exits[1:]:
                        self._walk(body, PathTerms(self.F, body, pt.param_terms, alt.over, pt.base), e, stops, alt.fork(), done, depth, seen)
                    bb = exits[0]
                    continue
                alt.exit = "cycle"
                self._finish(alt, done)
                return
            seen = seen | {bb}
            pt.over = alt.over
            for s in body.stmts(bb):
                self._stmt(body, pt, alt, bb, s)
            t = body.term(bb)
            k = t["k"]
            if k == "return":
                alt.exit = "return"
                alt.ret = pt.local(0)
                self._finish(alt, done)
                return
            if k in ("goto", "drop", "assert"):
                if t.get("target") is None:
                    alt.exit = "diverges"
                    self._finish(alt, done)
                    return
                bb = t["target"]
                continue
            if k == "call":
                outs = self._call(body, pt, alt, bb, t, depth)
                nxt = t.get("target")
                if nxt is None:
                    for a in outs:
                        a.exit = "diverges"
                        self._finish(a, done)
                    return
                if len(outs) == 1:
                    alt = outs[0]
                    pt.over = alt.over
                    bb = nxt
                    continue
                for a in outs:
                    self._walk(body, PathTerms(self.F, body, pt.param_terms, a.over, pt.base), nxt, stops, a, done, depth, seen)
                return
            if k == "switch":
                cond = pt.operand(t["discr"])
                v = self._fold(cond)
                succs = [s_ for s_ in body.succ(bb) if body.term(s_)["k"] != "unreachable"]
                if v is not None:
                    tgt = [x for val, x in t["targets"] if val.lstrip("-").isdigit() and int(val) == v]
                    bb = tgt[0] if tgt else t["otherwise"]
                    continue
                if len(succs) == 1:
                    bb = succs[0]
                    continue
                ety, names = self._discr_info(body, bb, t)
                explicit = {x for _, x in t["targets"]}
                # a second branch on a condition already decided on this path (same term) is not a new choice
                prior = [g for g in alt.guards if g[0] == cond]
                if prior:
                    fixed = [g[1] for g in prior if g[1] != "otherwise" and isinstance(g[1], str)]
                    excl = set().union(*[set(g[4]) for g in prior if g[1] == "otherwise" and len(g) > 4]) if any(g[1] == "otherwise" for g in prior) else set()
                    if fixed:
                        tgt = [x for val, x in t["targets"] if val == fixed[0]]
                        bb = tgt[0] if tgt else t["otherwise"]
                        continue
                    succs = [s_ for s_ in succs if not ({val for val, x in t["targets"] if x == s_} and
                                                        {val for val, x in t["targets"] if x == s_} <= excl)] or succs
                    if len(succs) == 1:
                        bb = succs[0]
                        continue
                for s_ in succs:
                    vals = [val for val, x in t["targets"] if x == s_]
                    a = alt.fork()
                    if vals:
                        for val in vals[:1] if len(vals) == 1 else [tuple(vals)]:
                            vn = names.get(val) if isinstance(val, str) else tuple(names.get(x_) for x_ in val)
                            a.guards.append((cond, val, ety, vn, ()))
                    else:
                        rest = sorted(set(names) - {val for val, _ in t["targets"]})
                        a.guards.append((cond, "otherwise", ety, tuple(names[r] for r in rest) if names else None, tuple(val for val, _ in t["targets"])))
                    self._walk(body, PathTerms(self.F, body, pt.param_terms, a.over, pt.base), s_, stops, a, done, depth, seen)
                return
            alt.exit = "diverges"
            self._finish(alt, done)
            return

    def _finish(self, alt, done):
        done.append(alt)
        self.n += 1
        if self.n > MAX_ALTS:
            raise TooManyPaths(f"more than {MAX_ALTS} paths")

    def _stmt(self, body, pt, alt, bb, s):
        lhs = s.get("lhs")
        if not lhs:
            return
        rv = s["rv"]
        if place_proj(lhs):
            # `x.count = (x.count + 1).0` — a counter kept in a struct field
            if rv["k"] == "use":
                q = op_place(rv["op"])
                if q is not None and place_proj(q) and len(place_proj(q)) == 1 and isinstance(place_proj(q)[0], dict) and place_proj(q)[0].get("f") == 0:
                    td = body.defs().get(q["l"], [])
                    if len(td) == 1 and td[0][0] == "assign" and td[0][3]["rv"]["k"] == "bin" and td[0][3]["rv"]["op"] == "AddWithOverflow":
                        kc = op_const(td[0][3]["rv"]["b"])
                        if kc is not None and kc.get("int") == "1":
                            alt.counts.append((pt.place(lhs), body.loc(s.get("sp"))))
            return
        l = lhs["l"]
        if rv["k"] == "use":
            q = op_place(rv["op"])
            # `n = (n + 1).0` on a plain local
            if q is not None and place_proj(q) and len(place_proj(q)) == 1 and isinstance(place_proj(q)[0], dict) and place_proj(q)[0].get("f") == 0:
                td = body.defs().get(q["l"], [])
                if len(td) == 1 and td[0][0] == "assign" and td[0][3]["rv"]["k"] == "bin" and td[0][3]["rv"]["op"] == "AddWithOverflow":
                    kc = op_const(td[0][3]["rv"]["b"])
                    src = op_place(td[0][3]["rv"]["a"])
                    if kc is not None and kc.get("int") == "1" and src is not None and src["l"] == l:
                        alt.counts.append((("var", body.local_name(l) or f"_{l}"), body.loc(s.get("sp"))))
                        return
        try:
            alt.over[l] = pt.rvalue(rv)
        except Exception:
            alt.over.pop(l, None)

    def _call(self, body, pt, alt, bb, t, depth):
        cal = t["callee"]
        st, tr, m = parse_callee(cal)
        args = [pt.operand(a) for a in t["args"]]
        d = t.get("dest")
        dl = d["l"] if d and not place_proj(d) else None
        site = body.loc(t.get("sp"))
        aty = t.get("aty") or []
        if m == "push" and "Vec" in cal and len(args) == 2 and self.tracked(aty[1] if len(aty) > 1 else ""):
            alt.pushes.append(("push", args[0], args[1], site, aty[1] if len(aty) > 1 else ""))
            return [alt]
        if m in ("extend", "append", "insert", "extend_from_slice") and "Vec" in (aty[0] if aty else "") and len(args) >= 2 and self.tracked(" ".join(aty)):
            alt.pushes.append((m, args[0], args[-1], site, " ".join(aty)))
            return [alt]
        if m == "branch" and tr and "Try" in tr and len(args) == 1 and dl is not None:
            x = args[0]
            if isinstance(x, tuple) and x and x[0] == "agg" and x[1].endswith("result::Result"):
                alt.over[dl] = ("agg", "core::ops::control_flow::ControlFlow", "Continue" if x[2] == "Ok" else "Break", (("0", dict(x[3]).get("0")),))
                return [alt]
            if isinstance(x, tuple) and x and x[0] == "agg" and x[1].endswith("option::Option"):
                alt.over[dl] = ("agg", "core::ops::control_flow::ControlFlow", "Continue" if x[2] == "Some" else "Break",
                                (("0", dict(x[3]).get("0")),))
                return [alt]
        if m == "from_residual" and dl is not None and len(args) == 1:
            # `?` on a failed helper: the function's own result is Err(<converted error>)
            alt.over[dl] = ("agg", "core::result::Result", "Err", (("0", mk_field(args[0], "0")),))
            return [alt]
        hb = self.F.bodies.get(cal)
        if hb is not None and hb.kind in ("fn", "method") and depth < self.max_depth and self.helper_ok(hb) and len(hb.blocks) <= 400:
            try:
                subs = self._run(hb, 0, (), args, depth + 1, guards=alt.guards)   # decisions already taken stay taken
            except RecursionError:
                subs = None
            if subs:
                outs = []
                for sa in subs:
                    a = alt.fork() if len(subs) > 1 else alt
                    a.guards = list(sa.guards)
                    a.pushes += sa.pushes
                    a.counts += sa.counts
                    a.notes += sa.notes
                    if sa.exit != "return":
                        a.notes.append(("helper-exit", hb.short, sa.exit))
                    if dl is not None:
                        if sa.ret is not None:
                            a.over[dl] = sa.ret
                        else:
                            a.over.pop(dl, None)
                    outs.append(a)
                return outs
        if dl is not None:
            try:
                alt.over[dl] = pt.apply(cal, args, t)
            except Exception:
                alt.over.pop(dl, None)
        return [alt]
