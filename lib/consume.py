"""Symbolic evaluation of the pest_consume consumers over the derivation trees of the grammar.

The grammar is non-recursive below the list rule, so every rule has finitely many derivation trees (rule, [child trees]);
they are enumerated from the grammar AST (Grammar.child_seqs, i.e. under pest's implicit skipping).  For one tree the
consumer of its rule is evaluated *symbolically* on the syn AST that srcfacts emits: the first `match_nodes!` arm whose
pattern accepts the child sequence is selected (that is what the macro does), its bindings are bound to the values of
the children's consumers (a `rule(x)..` binding to the concrete list of them), and the arm body is evaluated to a term:

    ('atom', rule)                      value produced by the consumer of an atomic rule (derived from the node text)
    ('struct', path, {field: term})     ('tuple', [terms])      ('call', fn, [terms])      ('path', 'A::B')
    ('some', t) / ('none',)             ('iter', [terms], pos)  ('opaque', text)

Local helper functions are inlined, closures are applied, `let` bindings and tuple destructuring are followed and the
Option/Iterator combinators that occur in such code (`next`, `unwrap_or`, `unwrap_or_else`, `unwrap_or_default`, `map`,
`collect`, `into_iter`, `ok_or`/`?`) have models.  Nothing is executed: it is partial evaluation of source text."""

from grammar import arm_accepts

MAX_TREES = 4000
LOSSY = {"skip", "take", "filter", "filter_map", "step_by", "skip_while", "take_while", "nth", "rev", "find", "find_map", "min",
         "max", "min_by_key", "max_by_key", "reduce", "fold", "position", "any", "all"}


class Trees:
    def __init__(self, g):
        self.g = g
        self._memo = {}

    def trees(self, name):
        """all derivation trees of rule `name` (atomic rules are leaves)"""
        if name in self._memo:
            return self._memo[name]
        g = self.g
        if name == "EOI" or name == "COMMENT" or name not in g.rules or g.is_atomic(name):
            res = [(name, ())]
        else:
            self._memo[name] = [(name, ())]          # recursion guard (the grammar is non-recursive; a mutant may not be)
            res = []
            for seq in sorted({s for s, _ in g.child_seqs(name)}):
                combos = [()]
                for tok in seq:
                    sub = self.trees(tok)
                    combos = [c + (t,) for c in combos for t in sub]
                    if len(combos) > MAX_TREES:
                        combos = combos[:MAX_TREES]
                res += [(name, c) for c in combos]
                if len(res) > MAX_TREES:
                    res = res[:MAX_TREES]
                    break
        self._memo[name] = res
        return res


def tokens_of(tree):
    out = [tree[0]]
    for c in tree[1]:
        out += tokens_of(c)
    return out


def show_tree(tree):
    if not tree[1]:
        return tree[0]
    return tree[0] + "[" + " ".join(show_tree(c) for c in tree[1]) + "]"


class Unknown(Exception):
    pass


class Evaluator:
    def __init__(self, g, fns):
        self.g = g
        self.fns = fns            # name -> fn facts (params, body_ast)
        self.depth = 0

    # ---- consumers
    def _match_nodes_of(self, fn, seen=()):
        """the match_nodes! AST node that produces this consumer's value, with the environment needed to evaluate it"""
        found = []

        def walk(e):
            if isinstance(e, dict):
                if e.get("k") == "match_nodes":
                    found.append(e["mn"])
                    return
                for v in e.values():
                    walk(v)
            elif isinstance(e, list):
                for v in e:
                    walk(v)
        walk(fn.get("body_ast"))
        if found:
            return found[0]
        # delegation: `money_operand(input)`
        body = fn.get("body_ast") or {}
        t = body.get("t")
        if t and t.get("k") == "call" and t["f"].get("k") == "path":
            h = self.fns.get(t["f"]["s"].split("::")[-1])
            if h is not None and h["name"] not in seen:
                return self._match_nodes_of(h, seen + (fn["name"],))
        return None

    def consume(self, tree):
        name, kids = tree[0], tree[1]
        fn = self.fns.get(name)
        if fn is None or self.g.is_atomic(name) or name == "EOI":
            # a marked tree (name, kids, marker) keeps apart two tokens of the same kind (the quantity's number, the price's)
            return ("atom", name) if len(tree) < 3 else ("atom", name, tree[2])
        mn = self._match_nodes_of(fn)
        if mn is None:
            # the consumer has no match_nodes! of its own and does not merely delegate in tail position: evaluate its whole
            # body with the parameter bound to this node (`let (t, r) = ratio_args(input)?; Ok((t, Operation::Split { ratio: r }))`);
            # a match_nodes! met on the way is evaluated against the node in scope
            if fn.get("body_ast") and fn.get("params") and self.depth < 6:
                env = {}
                self.bind(fn["params"][0], ("node", tree), env)
                self.depth += 1
                try:
                    v = self.ev(fn["body_ast"], env)
                finally:
                    self.depth -= 1
                if v and v[0] == "ok":
                    v = v[1]
                if v and v[0] in ("tuple", "struct", "some", "iter", "array"):
                    return v
            return ("atom", name)
        return self._eval_mn(mn, tree)

    def _eval_mn(self, mn, tree):
        name, kids = tree[0], tree[1]
        seq = tuple(k[0] for k in kids)
        for arm in mn["arms"]:
            if not arm_accepts(arm["pattern"], seq):
                continue
            env = {}
            i = 0
            # bind greedily the way arm_accepts does (variadic elements take the maximal run that still lets the rest match)
            pat = arm["pattern"]

            def assign(pi, si):
                if pi == len(pat):
                    return [] if si == len(seq) else None
                p = pat[pi]
                if p.get("variadic"):
                    k = si
                    while k < len(seq) and seq[k] == p["rule"]:
                        k += 1
                    while k >= si:
                        r = assign(pi + 1, k)
                        if r is not None:
                            return [(p, list(range(si, k)))] + r
                        k -= 1
                    return None
                if si < len(seq) and seq[si] == p["rule"]:
                    r = assign(pi + 1, si + 1)
                    if r is not None:
                        return [(p, [si])] + r
                return None
            asg = assign(0, 0)
            if asg is None:
                continue
            for p, idxs in asg:
                vals = [self.consume(kids[j]) for j in idxs]
                val = ("iter", vals, 0) if p.get("variadic") else vals[0]
                if p.get("bind_ast"):
                    self.bind(p["bind_ast"], val, env)
            if arm.get("body_ast") is None:
                return ("opaque", arm["body"][:80])
            return self.ev(arm["body_ast"], env)
        return ("rejected", name, seq)

    # ---- patterns
    def bind(self, pat, val, env):
        k = pat["k"]
        if k == "id":
            env[pat["s"]] = val
        elif k == "tuple":
            if val[0] == "tuple" and len(val[1]) == len(pat["e"]):
                for p, v in zip(pat["e"], val[1]):
                    self.bind(p, v, env)
            else:
                for i, p in enumerate(pat["e"]):
                    self.bind(p, ("proj", val, i), env)
        elif k == "ts" and pat["path"].split("::")[-1] == "Some" and val[0] == "some":
            self.bind(pat["e"][0], val[1], env)
        elif k == "other" and "{" in pat.get("s", "") and pat["s"].rstrip().endswith("}"):
            # a struct pattern `TradeArgs { ticker, amount: qty, .. }` (srcfacts hands it over as text)
            inner = pat["s"][pat["s"].index("{") + 1:pat["s"].rstrip().rindex("}")]
            for part in inner.split(","):
                part = part.strip()
                if not part or part == "..":
                    continue
                fld, _, bnd = part.partition(":")
                fld, bnd = fld.strip(), (bnd.strip() or fld.strip())
                for w in ("ref ", "mut "):
                    fld = fld.replace(w, "").strip()
                    bnd = bnd.replace(w, "").strip()
                if not bnd.isidentifier():
                    continue
                env[bnd] = val[2][fld] if val[0] == "struct" and fld in val[2] else ("proj", val, fld)
        # wildcards and the rest bind nothing

    def pat_matches(self, pat, val):
        k = pat["k"]
        if k in ("id", "wild"):
            return True
        if k == "ts":
            last = pat["path"].split("::")[-1]
            if last == "Some":
                return True if val[0] == "some" else (False if val[0] == "none" else None)
            if last in ("Ok", "Err"):
                return None
        if k == "path":
            last = pat["s"].split("::")[-1]
            if last == "None":
                return True if val[0] == "none" else (False if val[0] == "some" else None)
        return None

    # ---- expressions
    def ev(self, e, env):
        if e is None:
            return ("unit",)
        k = e["k"]
        if k == "lit":
            return ("lit", e["s"])
        if k == "path":
            s = e["s"]
            if s in env:
                return env[s]
            return ("path", s)
        if k == "tuple":
            return ("tuple", [self.ev(x, env) for x in e["e"]])
        if k == "array":
            return ("array", [self.ev(x, env) for x in e["e"]])
        if k == "struct":
            return ("struct", e["path"], {n: self.ev(x, env) for n, x in e["fields"]})
        if k == "closure":
            return ("closure", e["p"], e["b"], dict(env))
        if k == "block":
            env = dict(env)
            for s in e["s"]:
                if s["k"] == "let" and s.get("e") is not None:
                    self.bind(s["p"], self.ev(s["e"], env), env)
                elif s["k"] == "expr":
                    self.ev(s["e"], env)
            return self.ev(e["t"], env) if e.get("t") is not None else ("unit",)
        if k == "try":
            v = self.ev(e["e"], env)
            return v[1] if v[0] in ("ok", "some") else ("try", v)
        if k == "field":
            v = self.ev(e["e"], env)
            if v[0] == "tuple" and e["m"].isdigit() and int(e["m"]) < len(v[1]):
                return v[1][int(e["m"])]
            if v[0] == "struct" and e["m"] in v[2]:
                return v[2][e["m"]]
            return ("proj", v, e["m"])
        if k == "call":
            return self.call(e, env)
        if k == "mcall":
            return self.mcall(e, env)
        if k == "if":
            c = e["c"]
            if c["k"] == "letcond":
                v = self.ev(c["e"], env)
                m = self.pat_matches(c["p"], v)
                if m is True:
                    env2 = dict(env)
                    self.bind(c["p"], v, env2)
                    return self.ev(e["t"], env2)
                if m is False:
                    return self.ev(e["e"], env) if e.get("e") is not None else ("unit",)
            return ("opaque", "if")
        if k == "match":
            v = self.ev(e["e"], env)
            for a in e["arms"]:
                m = self.pat_matches(a["p"], v)
                if m is True and a.get("g") is None:
                    env2 = dict(env)
                    self.bind(a["p"], v, env2)
                    return self.ev(a["b"], env2)
                if m is None:
                    return ("opaque", "match")
            return ("opaque", "match")
        if k == "match_nodes":
            nodes = [v for v in env.values() if isinstance(v, tuple) and v and v[0] == "node"]
            if len(nodes) == 1 and e.get("mn"):
                return self._eval_mn(e["mn"], nodes[0][1])
            return ("opaque", "match_nodes")
        if k == "macro":
            return ("macro", e["name"], e["tokens"])
        if k == "return":
            return self.ev(e["e"], env) if e.get("e") is not None else ("unit",)
        if k in ("un", "bin"):
            return ("op", e["op"], [self.ev(e[x], env) for x in ("a", "b", "e") if isinstance(e.get(x), dict)])
        return ("opaque", e.get("s", k)[:60])

    def apply(self, f, args):
        if f[0] == "closure":
            _, pats, body, cenv = f
            env = dict(cenv)
            for p, a in zip(pats, args):
                self.bind(p, a, env)
            return self.ev(body, env)
        if f[0] == "path":
            return self.call_named(f[1], args)
        return ("call", "?", args)

    def call_named(self, name, args):
        last = name.split("::")[-1]
        if last in ("Ok", "Some") and len(args) == 1:
            return ("ok" if last == "Ok" else "some", args[0])
        if last == "None" and not args:
            return ("none",)
        h = self.fns.get(last) if ("::" not in name or name.startswith("Self::")) else None
        if h is not None and h.get("body_ast") and len(h.get("params", [])) == len(args) and self.depth < 6 \
                and (not self.g.rules.get(last) or not h.get("impl") or any(isinstance(a, tuple) and a and a[0] == "node" for a in args)):
            env = {}
            for p, a in zip(h["params"], args):
                self.bind(p, a, env)
            self.depth += 1
            try:
                return self.ev(h["body_ast"], env)
            finally:
                self.depth -= 1
        return ("call", name, args)

    def call(self, e, env):
        args = [self.ev(a, env) for a in e["a"]]
        f = e["f"]
        if f["k"] == "path" and f["s"] not in env:
            return self.call_named(f["s"], args)
        return self.apply(self.ev(f, env), args)

    def mcall(self, e, env):
        r = self.ev(e["r"], env)
        m = e["m"]
        args = [self.ev(a, env) for a in e["a"]]
        if r[0] == "iter":
            _, vals, pos = r
            if m == "next" and not args:
                # `let mut it`: the binding is not updated here; helpers that call next() once are what occurs in this code
                return ("some", vals[pos]) if pos < len(vals) else ("none",)
            if m in ("into_iter", "iter", "by_ref", "peekable", "fuse"):
                return r
            if m == "collect":
                return ("vec", vals[pos:])
            if m == "map" and args:
                return ("iter", [self.apply(args[0], [v]) for v in vals[pos:]], 0)
            if m in ("last",):
                return ("some", vals[-1]) if vals[pos:] else ("none",)
            if m == "count":
                return ("lit", str(len(vals) - pos))
            if m in LOSSY:
                # adapters that can drop or reorder elements: the elements are not known to reach the result
                return ("lossy", m)
        if r[0] in ("some", "none"):
            if m == "unwrap_or" and args:
                return r[1] if r[0] == "some" else args[0]
            if m == "unwrap_or_else" and args:
                return r[1] if r[0] == "some" else self.apply(args[0], [])
            if m == "unwrap_or_default":
                return r[1] if r[0] == "some" else ("default",)
            if m in ("map",) and args:
                return ("some", self.apply(args[0], [r[1]])) if r[0] == "some" else r
            if m == "map_or" and len(args) == 2:
                return self.apply(args[1], [r[1]]) if r[0] == "some" else args[0]
            if m == "map_or_else" and len(args) == 2:
                return self.apply(args[1], [r[1]]) if r[0] == "some" else self.apply(args[0], [])
            if m in ("ok_or", "ok_or_else"):
                return ("ok", r[1]) if r[0] == "some" else ("err",)
            if m in ("unwrap", "expect") and r[0] == "some":
                return r[1]
            if m in ("or", "or_else") and args:
                return r if r[0] == "some" else (args[0] if m == "or" else self.apply(args[0], []))
        if r[0] == "vec" and m in ("into_iter", "iter"):
            return ("iter", r[1], 0)
        if m in ("clone", "to_owned", "into", "to_string", "as_str", "as_ref", "borrow", "copied", "cloned") and not args:
            return r
        return ("mcall", m, r, args)


def marked(tree, path=()):
    """copy of a derivation tree whose every node carries its position as a third component"""
    kids = tree[1] if len(tree) > 1 and isinstance(tree[1], (list, tuple)) else []
    return (tree[0], [marked(k, path + (i,)) for i, k in enumerate(kids) if isinstance(k, tuple)], path)


def atoms_in(term):
    out = set()
    if isinstance(term, tuple) and len(term) == 3 and term[0] == "atom":
        out.add(term)
    elif isinstance(term, (tuple, list)):
        for x in term:
            out |= atoms_in(x)
    elif isinstance(term, dict):
        for x in term.values():
            out |= atoms_in(x)
    return out


def contains(term, sub):
    if term == sub:
        return True
    if isinstance(term, (tuple, list)):
        return any(contains(x, sub) for x in term)
    if isinstance(term, dict):
        return any(contains(x, sub) for x in term.values())
    return False


def find_structs(term, prefix):
    out = []
    if isinstance(term, tuple) and term and term[0] == "struct" and term[1].startswith(prefix):
        out.append(term)
    if isinstance(term, (tuple, list)):
        for x in term:
            out += find_structs(x, prefix)
    elif isinstance(term, dict):
        for x in term.values():
            out += find_structs(x, prefix)
    return out
