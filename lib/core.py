"""Check harness: fact extraction/caching, rule reporting, evidence, known findings."""
import fcntl
import hashlib
import json
import os
import shutil
import subprocess
import sys
import time

VERIF = os.path.dirname(os.path.dirname(os.path.abspath(__file__)))
REPO = os.environ.get("CGT_REPO", "/repo")
CACHE = os.path.join(VERIF, ".cache")
DRIVER = os.path.join(VERIF, "driver", "target", "release", "mirfacts")
SRCFACTS = os.path.join(VERIF, "srcfacts", "target", "release", "srcfacts")
POSCTL = os.path.join(VERIF, "fixtures", "posctl")
KNOWN = os.path.join(VERIF, "known_findings.json")
EXPECTED_CRATES = {
    "cgt_core", "cgt_money", "cgt_format", "cgt_formatter_plain", "cgt_formatter_pdf",
    "cgt_converter", "cgt_mcp", "cgt_wasm", "cgt_tool",
}
# body-count floors per crate, counted on the pinned tree (a drop below 60 % means the
# extraction went blind, not that the code shrank)
BODY_FLOOR = {"cgt_core": 400, "cgt_money": 60, "cgt_converter": 90, "cgt_mcp": 80, "cgt_tool": 10,
              "cgt_format": 8, "cgt_formatter_plain": 5, "cgt_formatter_pdf": 20, "cgt_wasm": 5}

SRC_EXT = (".rs", ".pest", ".toml", ".lock", ".typ")


class Broken(Exception):
    """the check itself cannot run (build failure, missing tool) — exit 2, never a VIOLATION"""


def sh(cmd, **kw):
    return subprocess.run(cmd, shell=isinstance(cmd, str), stdout=subprocess.PIPE,
                          stderr=subprocess.STDOUT, text=True, **kw)


def nightly_sysroot():
    r = sh("rustc +nightly --print sysroot")
    if r.returncode != 0:
        raise Broken("nightly toolchain not available: " + r.stdout[-300:])
    return r.stdout.strip().splitlines()[-1]


def tree_hash(root):
    """hash of the source files of a tree (tracked + untracked, target/ excluded)"""
    h = hashlib.sha256()
    files = []
    for base, dirs, fns in os.walk(root):
        rel = os.path.relpath(base, root)
        parts = rel.split(os.sep)
        if parts[0] in ("target", ".git", "web", "node_modules"):
            dirs[:] = []
            continue
        for fn in fns:
            if fn.endswith(SRC_EXT):
                files.append(os.path.join(base, fn))
    for f in sorted(files):
        h.update(os.path.relpath(f, root).encode())
        h.update(b"\0")
        try:
            with open(f, "rb") as fh:
                h.update(fh.read())
        except OSError:
            pass
        h.update(b"\0")
    for tool in (os.path.join(VERIF, "driver", "src", "main.rs"), os.path.join(VERIF, "srcfacts", "src", "main.rs")):
        with open(tool, "rb") as fh:
            h.update(fh.read())
    return h.hexdigest()[:20]


def ensure_tools():
    env = dict(os.environ, CARGO_NET_OFFLINE="true")
    if not os.path.exists(DRIVER) or os.path.getmtime(DRIVER) < os.path.getmtime(os.path.join(VERIF, "driver", "src", "main.rs")):
        r = sh("cargo build --release --offline", cwd=os.path.join(VERIF, "driver"), env=env)
        if r.returncode != 0:
            raise Broken("mirfacts driver does not build:\n" + r.stdout[-2000:])
    if not os.path.exists(SRCFACTS) or os.path.getmtime(SRCFACTS) < os.path.getmtime(os.path.join(VERIF, "srcfacts", "src", "main.rs")):
        r = sh("cargo build --release --offline", cwd=os.path.join(VERIF, "srcfacts"), env=env)
        if r.returncode != 0:
            raise Broken("srcfacts does not build:\n" + r.stdout[-2000:])


class Lock:
    def __init__(self, name="extract"):
        os.makedirs(CACHE, exist_ok=True)
        self.path = os.path.join(CACHE, name + ".lock")

    def __enter__(self):
        self.fh = open(self.path, "w")
        fcntl.flock(self.fh, fcntl.LOCK_EX)
        return self

    def __exit__(self, *a):
        fcntl.flock(self.fh, fcntl.LOCK_UN)
        self.fh.close()


def _clear_member_fingerprints(target_dir, names):
    fp = os.path.join(target_dir, "debug", ".fingerprint")
    if not os.path.isdir(fp):
        return
    for d in os.listdir(fp):
        base = d.rsplit("-", 1)[0]
        if base in names:
            shutil.rmtree(os.path.join(fp, d), ignore_errors=True)


MEMBER_PKGS = {"cgt-core", "cgt-money", "cgt-format", "cgt-formatter-plain", "cgt-formatter-pdf",
               "cgt-converter", "cgt-mcp", "cgt-wasm", "cgt-cli"}


def run_driver(src_root, out_dir, target_dir, member_pkgs, workspace=True):
    """cargo +nightly check with the mirfacts wrapper; returns (ok, log)"""
    os.makedirs(out_dir, exist_ok=True)
    _clear_member_fingerprints(target_dir, member_pkgs)
    env = dict(os.environ)
    env.update({
        "LD_LIBRARY_PATH": nightly_sysroot() + "/lib:" + env.get("LD_LIBRARY_PATH", ""),
        "RUSTFLAGS": "-Zmir-opt-level=0 -Awarnings",
        "RUSTC_WORKSPACE_WRAPPER": DRIVER,
        "MIRFACTS_OUT": out_dir,
        "CARGO_TARGET_DIR": target_dir,
        "CARGO_NET_OFFLINE": "true",
    })
    env.pop("RUSTC_WRAPPER", None)
    cmd = "cargo +nightly check --offline" + (" --workspace" if workspace else "")
    r = sh(cmd, cwd=src_root, env=env)
    return r.returncode == 0, r.stdout


def extract(src_root=None, label=None):
    """facts directory for the tree at src_root (default /repo), extracting if not cached"""
    src_root = src_root or REPO
    ensure_tools()
    h = tree_hash(src_root)
    final = os.path.join(CACHE, "facts", h)
    if os.path.exists(os.path.join(final, "ok")):
        return final
    # VERIF_EXTRACT_SLOT=<k>: a private target dir and lock per matrix worker (tools/fast_matrix.py run several times in parallel);
    # registered checks never set it
    slot = os.environ.get("VERIF_EXTRACT_SLOT", "")
    with Lock("extract" + slot):
        if os.path.exists(os.path.join(final, "ok")):
            return final
        tmp = final + ".tmp%d" % os.getpid()
        shutil.rmtree(tmp, ignore_errors=True)
        os.makedirs(tmp)
        t0 = time.time()
        ok, log = run_driver(src_root, tmp, os.path.join(CACHE, "target" + slot), MEMBER_PKGS)
        if not ok:
            shutil.rmtree(tmp, ignore_errors=True)
            raise Broken("cargo +nightly check of %s failed:\n%s" % (src_root, log[-3000:]))
        got = set()
        for fn in os.listdir(tmp):
            if fn.endswith(".json"):
                got.add(fn.split(".")[0])
        missing = EXPECTED_CRATES - got
        if missing:
            shutil.rmtree(tmp, ignore_errors=True)
            raise Broken("fact files missing for crates %s (driver skipped?)" % sorted(missing))
        # syntax facts
        gram = os.path.join(src_root, "crates/cgt-core/src/parser.pest")
        files = [os.path.join(src_root, p) for p in (
            "crates/cgt-core/src/parser.rs",)]
        r = subprocess.run([SRCFACTS, gram] + files, stdout=subprocess.PIPE, stderr=subprocess.PIPE, text=True)
        if r.returncode != 0:
            shutil.rmtree(tmp, ignore_errors=True)
            raise Broken("srcfacts failed: " + r.stderr[-1000:])
        with open(os.path.join(tmp, "srcfacts.json"), "w") as fh:
            fh.write(r.stdout)
        with open(os.path.join(tmp, "ok"), "w") as fh:
            fh.write(json.dumps({"hash": h, "root": src_root, "wall_s": round(time.time() - t0, 1)}))
        shutil.rmtree(final, ignore_errors=True)
        os.rename(tmp, final)
        _gc_facts(keep=final)
    return final


def _gc_facts(keep):
    """bounded cache: the 3 newest fact sets of /repo itself and the 8 newest of scratch trees (mutants) survive;
    fact sets younger than 10 minutes are never removed (another check may be reading them)"""
    d = os.path.join(CACHE, "facts")
    mine, other = [], []
    now = time.time()
    for x in os.listdir(d):
        e = os.path.join(d, x)
        if not os.path.isdir(e) or e == keep:
            continue
        root = None
        try:
            root = json.load(open(os.path.join(e, "ok"))).get("root")
        except (OSError, ValueError):
            pass
        (mine if root == REPO else other).append(e)
    def mtime(e):
        # another process may be finishing or collecting the same directory (temporary extraction dirs vanish)
        try:
            return os.path.getmtime(e)
        except OSError:
            return now

    for lst, n in ((mine, 3), (other, 8)):
        lst.sort(key=mtime, reverse=True)
        for e in lst[n:]:
            if now - mtime(e) > 600:
                shutil.rmtree(e, ignore_errors=True)


def extract_posctl():
    """facts for the positive-control crate (cached on its own hash)"""
    ensure_tools()
    h = hashlib.sha256()
    for base, dirs, fns in os.walk(POSCTL):
        if "target" in dirs:
            dirs.remove("target")
        for fn in sorted(fns):
            with open(os.path.join(base, fn), "rb") as fh:
                h.update(fn.encode() + fh.read())
    with open(os.path.join(VERIF, "driver", "src", "main.rs"), "rb") as fh:
        h.update(fh.read())
    hx = h.hexdigest()[:20]
    final = os.path.join(CACHE, "posctl", hx)
    if os.path.exists(os.path.join(final, "ok")):
        return final
    with Lock("posctl"):
        if os.path.exists(os.path.join(final, "ok")):
            return final
        tmp = final + ".tmp%d" % os.getpid()
        shutil.rmtree(tmp, ignore_errors=True)
        os.makedirs(tmp)
        ok, log = run_driver(POSCTL, tmp, os.path.join(CACHE, "target-posctl"), {"posctl"}, workspace=False)
        if not ok or not any(f.startswith("posctl") for f in os.listdir(tmp)):
            shutil.rmtree(tmp, ignore_errors=True)
            raise Broken("positive-control crate does not build:\n" + log[-2000:])
        with open(os.path.join(tmp, "ok"), "w") as fh:
            fh.write("ok")
        shutil.rmtree(final, ignore_errors=True)
        os.rename(tmp, final)
    return final


class Ctx:
    """facts of one tree: MIR facts (F) and syntax facts (S)"""

    def __init__(self, facts_dir, root):
        import mir
        self.root = root
        self.dir = facts_dir
        self.F = mir.Facts(facts_dir)
        sf = os.path.join(facts_dir, "srcfacts.json")
        self.S = json.load(open(sf)) if os.path.exists(sf) else None


# --------------------------------------------------------------------------- reporting

class Report:
    def __init__(self, prop, tier="quick", seed=0):
        self.prop = prop
        self.tier = tier
        self.seed = seed
        self.obligations = []   # dicts
        self.violations = []    # dicts
        self.controls = []      # (rule, fired, detail)
        self.notes = []
        self.analysed = {}
        self.t0 = time.time()
        self.mutants = []

    def ob(self, rule, instance, ok, detail="", site="", key=None):
        """one rule instance. key identifies the violation without line numbers."""
        rec = {"rule": rule, "instance": instance, "ok": bool(ok), "site": site, "detail": detail}
        self.obligations.append(rec)
        if not ok:
            v = dict(rec)
            v["key"] = key or f"{rule}:{instance}"
            self.violations.append(v)
        return ok

    def unresolved(self, rule, role, why):
        """a structural anchor the rule needs is absent: reported as a violation (fail closed)"""
        return self.ob(rule, f"role:{role}", False,
                       f"unproven: structural anchor '{role}' not resolved — {why}", key=f"{rule}:role:{role}")

    def control(self, rule, fired, detail=""):
        self.controls.append({"rule": rule, "fired": bool(fired), "detail": detail})

    def note(self, s):
        self.notes.append(s)

    def count(self, k, n):
        self.analysed[k] = n


def load_known():
    if not os.path.exists(KNOWN):
        return []
    return json.load(open(KNOWN)).get("findings", [])


# evidence/ and replay/ describe /repo only: a run against another tree (--root) writes under .cache/alt instead
OUT_DIR = None


def finish(rep, explanation, trusted_base, level="other", replay_only=None):
    """print result lines, write evidence, return exit code"""
    known = [k for k in load_known() if k.get("property") == rep.prop]
    open_keys = {k["key"]: k for k in known if k.get("status") == "open"}
    new_viol = []
    known_hits = []
    for v in rep.violations:
        if replay_only is not None and v["key"] != replay_only:
            continue
        if v["key"] in open_keys:
            known_hits.append(v)
        else:
            new_viol.append(v)
    blind = [c for c in rep.controls if not c["fired"]]
    out = []
    seen_known = set()
    for v in known_hits:
        if v["key"] in seen_known:
            continue
        seen_known.add(v["key"])
        out.append("KNOWN-FINDING: property=%s %s — %s [%s]" % (
            rep.prop, v["key"], open_keys[v["key"]].get("what", v["detail"]), v.get("site", "")))
    rdir = os.path.join(OUT_DIR or VERIF, "replay", rep.prop)
    os.makedirs(rdir, exist_ok=True)
    if replay_only is None:
        for fn in os.listdir(rdir):
            try:
                os.remove(os.path.join(rdir, fn))
            except OSError:
                pass
    seen = set()
    n = 0
    for v in new_viol:
        if v["key"] in seen:
            continue
        seen.add(v["key"])
        n += 1
        path = os.path.join(rdir, "%02d.json" % n)
        with open(path, "w") as fh:
            json.dump({"property": rep.prop, "key": v["key"], "rule": v["rule"], "instance": v["instance"],
                       "site": v["site"], "detail": v["detail"]}, fh, indent=1)
        out.append("VIOLATION property=%s replay=%s" % (rep.prop, path))
        out.append("  rule %s at %s: %s" % (v["rule"], v["site"] or "?", v["detail"]))
    for c in blind:
        out.append("CHECK-BROKEN property=%s rule %s did not fire on its positive control (%s)" % (
            rep.prop, c["rule"], c["detail"]))
    discharged = sum(1 for o in rep.obligations if o["ok"])
    samples = []
    for o in rep.obligations[:400]:
        if len(samples) >= 12:
            break
        samples.append({k: o[k] for k in ("rule", "instance", "ok", "site", "detail")})
    rules = sorted({o["rule"] for o in rep.obligations})
    per_rule = {}
    for o in rep.obligations:
        pr = per_rule.setdefault(o["rule"], {"obligations": 0, "discharged": 0})
        pr["obligations"] += 1
        pr["discharged"] += 1 if o["ok"] else 0
    ev = {
        "property_id": rep.prop,
        "tier": rep.tier,
        "seed": rep.seed,
        "level": level,
        "coverage": {
            "explanation": explanation,
            "obligations": len(rep.obligations),
            "discharged": discharged,
            "rules": per_rule,
            "analysed": rep.analysed,
            "samples": samples,
            "controls": rep.controls,
            "known_findings_hit": sorted(seen_known),
            "new_violations": sorted(seen),
            "trusted_base": trusted_base,
            "checker_cmd": "./check %s --tier %s" % (rep.prop, rep.tier),
            "notes": rep.notes,
            "exhaustive": True,
        },
        "assumptions": trusted_base,
        "wall_s": round(time.time() - rep.t0, 2),
        "violations": len(seen),
    }
    if rep.mutants:
        ev["coverage"]["mutants"] = rep.mutants
    edir = os.path.join(OUT_DIR or VERIF, "evidence")
    os.makedirs(edir, exist_ok=True)
    if replay_only is None:
        with open(os.path.join(edir, rep.prop + ".json"), "w") as fh:
            json.dump(ev, fh, indent=1, sort_keys=True)
    for line in out:
        print(line)
    if blind:
        return 2
    if seen:
        return 1
    print("OK property=%s tier=%s rules=%d obligations=%d discharged=%d known=%d wall=%.1fs" % (
        rep.prop, rep.tier, len(rules), len(rep.obligations), discharged, len(seen_known), ev["wall_s"]))
    return 0
