"""Symbolic string synthesis: the set of strings a String-building function can return, as sequences of parts.

A part is ('lit', text) or ('arg', term, kind, type, options) exactly as produced by flow.format_calls; terms are expressed
in the context of the ROOT function (helper parameters substituted by the caller's argument terms, string-valued arguments
spliced in).  The walk is path-wise over the MIR CFG (loops are not unrolled: a function whose string is built in a loop
is reported as not synthesisable), forks at every switch that lies between two string effects and records the branch
conditions of each alternative.  Understood effects: format!/write! templates (decoded fmt::Arguments), String::new,
push_str, push(char), +, +=, to_string/to_owned/clone/from/into/must_use/deref copies, calls of workspace helpers that
return a String or append to a `&mut String` parameter (evaluated recursively).  Everything else that yields a string
becomes an opaque 'arg' part so that the caller's classifier rejects it.

Nothing of the analysed program is executed.
"""
from mir import Terms, parse_callee, op_place, op_const, place_proj, subst, subterms
from flow import decode_template, _const_through, _fmt_args, root_of_operand

COPY = ("to_string", "to_owned", "clone", "from", "into", "must_use", "deref", "as_str", "borrow", "as_ref", "format", "as_mut",
        "deref_mut", "borrow_mut", "into_string", "to_str")
MAX_ALTS = 96


class NotSynthesisable(Exception):
    pass


class Alt:
    __slots__ = ("vals", "guards")

    def __init__(self, vals=None, guards=None):
        self.vals = dict(vals or {})
        self.guards = list(guards or [])

    def fork(self):
        return Alt(self.vals, self.guards)


def _is_stringy(ty):
    t = ty.replace("&", "").replace("mut ", "").strip()
    return t in ("alloc::string::String", "str", "core::fmt::Arguments<'_>") or t.startswith("core::fmt::Arguments")


class StrSyn:
    def __init__(self, F, max_depth=3):
        self.F = F
        self.max_depth = max_depth

    # ---- public
    def returns(self, body, arg_terms=None, arg_vals=None, depth=0):
        """-> list of dict(parts=[…] | None, guards=[(cond, val)], muts={param_index: parts})"""
        tb = Terms(self.F, body, inline_depth=0)
        conv = (lambda t: subst(t, arg_terms)) if arg_terms is not None else (lambda t: t)
        start = Alt()
        for k in range(body.argc):
            if arg_vals and arg_vals.get(k) is not None:
                start.vals[k + 1] = list(arg_vals[k])
        done = []
        self._walk(body, tb, conv, 0, start, done, depth, set())
        out = []
        for a in done:
            muts = {}
            for k in range(body.argc):
                if "&mut alloc::string::String" in body.local_ty(k + 1).replace("'_ ", ""):
                    before = list((arg_vals or {}).get(k) or [])
                    now = a.vals.get(k + 1, before)
                    muts[k] = now
            out.append(dict(parts=a.vals.get(0), guards=a.guards, muts=muts))
        return out

    # ---- internals
    def _value(self, body, tb, conv, alt, op):
        """abstract string value of an operand -> list of parts, or None if it is not a tracked string"""
        k = op_const(op)
        if k is not None:
            if "str" in k:
                return [("lit", k["str"])]
            return None
        p = op_place(op)
        if p is None:
            return None
        kk = _const_through(body, op)
        if kk is not None and "str" in kk:
            return [("lit", kk["str"])]
        if not place_proj(p) and p["l"] in alt.vals:
            return list(alt.vals[p["l"]])
        pr = [e for e in place_proj(p) if e != "deref"]
        if len(pr) == 1 and isinstance(pr[0], dict) and "f" in pr[0]:
            # a component of a locally built tuple (format_args! packs its arguments into one)
            ds = body.defs().get(p["l"], [])
            if len(ds) == 1 and ds[0][0] == "assign" and ds[0][3]["rv"]["k"] in ("tuple", "agg"):
                ops = ds[0][3]["rv"].get("ops") or []
                if pr[0]["f"] < len(ops):
                    return self._value(body, tb, conv, alt, ops[pr[0]["f"]])
        if not place_proj(p):
            # a reference-typed temporary: follow single-definition copies/refs explicitly (root_of_operand stops at
            # locals with several definitions, which is exactly what a tracked `let s = if c {"a"} else {"b"}` is)
            ds = body.defs().get(p["l"], [])
            if len(ds) == 1 and ds[0][0] == "assign":
                rv = ds[0][3]["rv"]
                if rv["k"] == "ref" and not [e for e in place_proj(rv["p"]) if e != "deref"]:
                    if rv["p"]["l"] in alt.vals:
                        return list(alt.vals[rv["p"]["l"]])
                    return self._value(body, tb, conv, alt, {"c": {"l": rv["p"]["l"]}}) if rv["p"]["l"] != p["l"] else None
                if rv["k"] == "use" and op_place(rv["op"]) is not None:
                    return self._value(body, tb, conv, alt, rv["op"])
        r = root_of_operand(body, op)
        if r and not r[1] and r[0] in alt.vals:
            return list(alt.vals[r[0]])
        return None

    def _opaque(self, body, tb, conv, op, ty=None):
        p = op_place(op)
        t = conv(tb.operand(op))
        if ty is None:
            ty = body.local_ty(p["l"]) if p is not None and not place_proj(p) else "?"
            if p is not None and place_proj(p):
                ty = self._proj_ty(body, p) or ty
        return [("arg", t, "display", ty.replace("&", "").strip() if ty else "?", {})]

    def _proj_ty(self, body, p):
        # type of a projected place is not in the facts; the caller falls back to the term's shape
        return None

    def _loop_abstract(self, body, tb, conv, header, blks, alt):
        """a loop is not unrolled: every string it appends to becomes `…prefix + <opaque text built in a loop>`"""
        targets = set()
        for i, t in body.calls():
            if i not in blks:
                continue
            st, tr, m = parse_callee(t["callee"])
            hb = self.F.bodies.get(t["callee"])
            mutating = m in ("push_str", "push", "write_fmt", "write_str", "extend", "insert_str", "insert") or (tr and "AddAssign" in tr) or \
                (hb is not None and any("&mut alloc::string::String" in hb.local_ty(k + 1).replace("'_ ", "") for k in range(hb.argc)))
            if mutating and t["args"]:
                r = root_of_operand(body, t["args"][0])
                if r and not r[1] and "String" in body.local_ty(r[0]):
                    targets.add(r[0])
                if hb is not None:
                    for k, a in enumerate(t["args"]):
                        r2 = root_of_operand(body, a)
                        if r2 and not r2[1] and "String" in body.local_ty(r2[0]) and k < hb.argc and "&mut" in hb.local_ty(k + 1):
                            targets.add(r2[0])
        for l in targets:
            alt.vals[l] = alt.vals.get(l, []) + [("arg", ("loop", body.id, header), "loop", "text built in a loop", {})]
        # locals assigned inside the loop are unknown afterwards
        for i, si, s in body.assigns():
            if i in blks and not place_proj(s["lhs"]) and s["lhs"]["l"] in alt.vals and s["lhs"]["l"] not in targets:
                del alt.vals[s["lhs"]["l"]]

    def _walk(self, body, tb, conv, bb, alt, done, depth, seen):
        loops = dict(body.loops())
        while True:
            if bb in loops and bb not in seen:
                blks = loops[bb]
                self._loop_abstract(body, tb, conv, bb, blks, alt)
                exits = sorted({t_ for s_ in blks for t_ in body.succ(s_) if t_ not in blks and body.term(t_)["k"] != "unreachable"})
                seen = seen | set(blks)
                if not exits:
                    return
                for e in exits[1:]:
                    self._walk(body, tb, conv, e, alt.fork(), done, depth, seen)
                bb = exits[0]
                continue
            if bb in seen:
                raise NotSynthesisable(f"{body.short}: cyclic path")
            seen = seen | {bb}
            for s in body.stmts(bb):
                self._stmt(body, tb, conv, alt, s)
            t = body.term(bb)
            k = t["k"]
            if k == "return":
                done.append(alt)
                if len(done) > MAX_ALTS:
                    raise NotSynthesisable(f"{body.short}: more than {MAX_ALTS} alternatives")
                return
            if k in ("goto", "drop", "assert"):
                nxt = t.get("target")
                if nxt is None:
                    return
                bb = nxt
                continue
            if k == "call":
                alts = self._call(body, tb, conv, alt, bb, t, depth)
                nxt = t.get("target")
                if nxt is None:
                    return
                if len(alts) == 1:
                    alt = alts[0]
                    bb = nxt
                    continue
                for a in alts:
                    self._walk(body, tb, conv, nxt, a, done, depth, seen)
                return
            if k == "switch":
                succs = body.succ(bb)
                live = [s for s in succs if body.term(s)["k"] != "unreachable"]
                cond = conv(tb.operand(t["discr"]))
                if len(live) == 1:
                    bb = live[0]
                    continue
                for s in live:
                    val = [v for v, x in t["targets"] if x == s]
                    a = alt.fork()
                    a.guards.append((cond, val[0] if len(val) == 1 else ("otherwise" if not val else tuple(val))))
                    self._walk(body, tb, conv, s, a, done, depth, seen)
                return
            return  # unreachable / resume / …

    def _stmt(self, body, tb, conv, alt, s):
        lhs = s.get("lhs")
        if not lhs or place_proj(lhs):
            return
        rv = s["rv"]
        l = lhs["l"]
        if rv["k"] == "use":
            v = self._value(body, tb, conv, alt, rv["op"])
            if v is not None and _is_stringy(body.local_ty(l)):
                alt.vals[l] = v
            elif l in alt.vals and l != 0:
                del alt.vals[l]
            elif l == 0 and _is_stringy(body.local_ty(0)):
                alt.vals[0] = v if v is not None else self._opaque(body, tb, conv, rv["op"])
        elif rv["k"] == "ref" and not [e for e in place_proj(rv["p"]) if e != "deref"] and place_proj(rv["p"]) and \
                rv["p"]["l"] in alt.vals and _is_stringy(body.local_ty(l)) and len(body.defs().get(l, [])) > 1:
            # `&*tmp` re-borrow feeding one arm of `let s = if c { "a" } else { "b" }`
            alt.vals[l] = list(alt.vals[rv["p"]["l"]])

    def _dest_local(self, t):
        d = t.get("dest")
        return d["l"] if d and not place_proj(d) else None

    def _call(self, body, tb, conv, alt, bb, t, depth):
        cal = t["callee"]
        st, tr, m = parse_callee(cal)
        dl = self._dest_local(t)
        args = t["args"]
        # fmt::Arguments
        if cal.startswith("core::fmt::Arguments") and cal.endswith("::new"):
            kb = _const_through(body, args[0])
            tpl = decode_template(kb["bytes"]) if kb is not None and "bytes" in kb else None
            if tpl is None:
                parts = [("arg", ("unknown",), "display", "undecodable template", {})]
            else:
                fa = _fmt_args(body, tb, args[1])
                parts = []
                for p in tpl:
                    if p[0] == "lit":
                        parts.append(p)
                    else:
                        a = fa[p[1]] if p[1] < len(fa) else (("unknown",), "?", "?", None)
                        parts += self._fmt_arg_parts(body, tb, conv, alt, a, p[2])
            if dl is not None:
                alt.vals[dl] = parts
            return [alt]
        if cal.startswith("core::fmt::Arguments") and (cal.endswith("::from_str") or cal.endswith("::new_const") or cal.endswith("from_str_nonconst")):
            kb = _const_through(body, args[0])
            if dl is not None:
                alt.vals[dl] = [("lit", kb["str"])] if kb is not None and "str" in kb else [("arg", ("unknown",), "display", "?", {})]
            return [alt]
        if m == "write_fmt" and len(args) == 2:
            tgt = root_of_operand(body, args[0])
            v = self._value(body, tb, conv, alt, args[1])
            if tgt and not tgt[1] and v is not None:
                alt.vals[tgt[0]] = alt.vals.get(tgt[0], []) + v
            return [alt]
        if cal.endswith("String::new") or (cal.endswith("String::with_capacity")):
            if dl is not None:
                alt.vals[dl] = []
            return [alt]
        if (m == "push_str" or (tr and "AddAssign" in tr and "String" in (st or ""))) and len(args) == 2:
            tgt = root_of_operand(body, args[0])
            if tgt and not tgt[1]:
                v = self._value(body, tb, conv, alt, args[1])
                if v is None:
                    v = self._opaque(body, tb, conv, args[1], "str")
                alt.vals[tgt[0]] = alt.vals.get(tgt[0], self._param_prefix(body, tgt[0])) + v
            return [alt]
        if m == "push" and "String" in cal and len(args) == 2:
            tgt = root_of_operand(body, args[0])
            k = op_const(args[1])
            if tgt and not tgt[1]:
                ch = None
                if k is not None and k.get("ty") == "char":
                    ch = k.get("char") or k.get("disp")
                    if isinstance(ch, str) and len(ch) >= 3 and ch[0] == "'" and ch[-1] == "'":
                        ch = ch[1:-1]
                        ch = {"\\n": "\n", "\\t": "\t", "\\r": "\r", "\\'": "'"}.get(ch, ch)
                v = [("lit", ch)] if ch is not None else [("arg", conv(tb.operand(args[1])), "display", "char", {})]
                alt.vals[tgt[0]] = alt.vals.get(tgt[0], self._param_prefix(body, tgt[0])) + v
            return [alt]
        if tr and tr.startswith("core::ops::arith::Add") and "String" in (st or "") and len(args) == 2:
            a = self._value(body, tb, conv, alt, args[0]) or self._opaque(body, tb, conv, args[0])
            c = self._value(body, tb, conv, alt, args[1]) or self._opaque(body, tb, conv, args[1], "str")
            if dl is not None:
                alt.vals[dl] = a + c
            return [alt]
        # workspace helpers
        hb = self.F.bodies.get(cal)
        if hb is not None and hb.kind in ("fn", "method") and depth < self.max_depth and \
                ("alloc::string::String" in hb.ret or any("&mut alloc::string::String" in hb.local_ty(k + 1).replace("'_ ", "") for k in range(hb.argc))):
            arg_terms = [conv(tb.operand(a)) for a in args]
            arg_vals = {k: self._value(body, tb, conv, alt, a) for k, a in enumerate(args)}
            try:
                res = self.returns(hb, arg_terms, arg_vals, depth + 1)
            except NotSynthesisable:
                res = None
            if res is not None:
                out = []
                for r in res:
                    a2 = alt.fork() if len(res) > 1 else alt
                    a2.guards += r["guards"]
                    for k, parts in r["muts"].items():
                        tgt = root_of_operand(body, args[k])
                        if tgt and not tgt[1]:
                            a2.vals[tgt[0]] = parts
                    if dl is not None:
                        if r["parts"] is not None:
                            a2.vals[dl] = r["parts"]
                        elif dl in a2.vals:
                            del a2.vals[dl]
                    out.append(a2)
                return out
        # value-preserving wrappers
        if m in COPY and len(args) >= 1 and dl is not None:
            v = self._value(body, tb, conv, alt, args[0])
            if v is not None:
                alt.vals[dl] = v
                return [alt]
        if dl is not None:
            if _is_stringy(body.local_ty(dl)) and "Arguments" not in body.local_ty(dl):
                alt.vals[dl] = [("arg", conv(tb.call_term(t)), "display", body.local_ty(dl).replace("&", "").strip(), {})]
            elif dl in alt.vals:
                del alt.vals[dl]
        return [alt]

    def _param_prefix(self, body, l):
        return []

    def _fmt_arg_parts(self, body, tb, conv, alt, a, opts):
        """one formatted argument (term, kind, type): spliced when it is a tracked string, otherwise a typed hole"""
        term, kind, ty = a[0], a[1], a[2]
        src = a[3] if len(a) > 3 else None
        if kind == "display" and not opts:
            # a tracked string local / string parameter with a known value
            if src is not None:
                v = self._value(body, tb, conv, alt, src)
                if v is not None:
                    return v
            root = term
            if isinstance(root, tuple) and root and root[0] == "param" and (root[1] + 1) in alt.vals and root[1] < body.argc:
                return list(alt.vals[root[1] + 1])
            if isinstance(root, tuple) and root and root[0] == "var":
                for l in alt.vals:
                    if body.local_name(l) == root[1]:
                        return list(alt.vals[l])
        t2 = conv(term)
        if isinstance(t2, tuple) and t2 and t2[0] == "str" and kind == "display" and not opts:
            return [("lit", t2[1])]
        return [("arg", t2, kind, ty, opts)]
